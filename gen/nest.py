"""Family `nest`: TREES of graphs (nested nodes, try_except nodes, error-capturing nodes) of native
nodes over TS<int64> under the real simulation executor.  Serves C09 and C15.

Case lines
  1 start end
  6 paired               paired=1: the program is run twice, the second time with every throw (op 8) turned into a
                         no-op; the two traces are separated by a line `20`
  2 g i kind us sos ho nin vmode (src port active req)*
                         node i of graph g (0 = root).  kind 0 plain, 1 nested, 2 try_except, 3 plain+captures_errors.
                         src = producer node in the same graph, or -1: bound from the enclosing nested node.
                         port 0 = value output (`out` of a try_except node), 1 = error output / `exception` field
  5 g i child outn nb (outer_slot child_node child_slot)*
                         node (g,i) owns child graph `child`, forwards child node `outn`, binds its own input slots in
  3 g i k code a b       op for node (g,i) in its k-th user-code run (k=-1 start hook, k=-2 default)
     code 1 schedule(now+a, tag b)  2 un_schedule(tag b)  3 un_schedule()  4 pop_tag(b)  5 reset()
          6 emit a + sum(valid inputs)  7 graph.schedule_node(self, now+a)  8 throw "hgv boom a" (b > 0: padded with a
            deterministic filler to exactly b characters; the message id is then 100 + a + 1000000*b)
          9 out-of-band: child graph of sibling nested node a: schedule_node(b, child.evaluation_time())
  7 grp g i              oracle hint: recorder (g,i) belongs to equality group grp (C09: inlined / nested variants)
  8 g i                  oracle hint: (g,i) is a node that does not depend on any failing node (C15)
Observation lines
  10 g t                  graph g starts a cycle at t
  11 g i t                node (g,i) evaluated by its graph at t
  12 g i t k now? next (valid modified value lmt)*   user code ran (k-th run)
  13 g i t opidx next is_sched is_now (has time now?)x3 extra
  14 g i t v              emitted v
  15 g i valid v lmt      final value output      16 g i valid code lmt   final error output
  19 code                 exception escaped the run (100+a user throw, 3 schedule in the past)
  20                      separator of the paired runs
"""
import random

NAME = "nest"
DRIVER_SRCS = ["nest_driver.cpp"]
MODEL_FAMILY = "nest"
MODE = "diff"
BUDGET = {"quick": 250, "thorough": 3000}

TAGS = [0, 1, 2, 3]


# ---------------------------------------------------------------- program builder
class Prog:
    def __init__(self, start, end, paired=0):
        self.start, self.end, self.paired = start, end, paired
        self.graphs = [[]]            # g -> list of node dicts
        self.hints = []

    def new_graph(self):
        self.graphs.append([])
        return len(self.graphs) - 1

    def add(self, g, kind=0, us=0, sos=0, ho=0, ins=(), vmode=0, scripts=None, nest=None, pauses=None):
        self.graphs[g].append(dict(kind=kind, us=us, sos=sos, ho=ho, ins=list(ins), vmode=vmode,
                                   scripts=dict(scripts or {}), nest=nest, pauses=dict(pauses or {})))
        return len(self.graphs[g]) - 1

    def lines(self):
        out = [[1, self.start, self.end]]
        if self.paired:
            out.append([6, 1])
        for g, nodes in enumerate(self.graphs):
            for i, n in enumerate(nodes):
                l = [2, g, i, n["kind"], n["us"], n["sos"], n["ho"], len(n["ins"]), n["vmode"]]
                for s in n["ins"]:
                    l += list(s)
                out.append(l)
                if n["nest"]:
                    child, outn, binds = n["nest"]
                    l5 = [5, g, i, child, outn, len(binds)]
                    for b in binds:
                        l5 += list(b)
                    out.append(l5)
                for k in sorted(n["scripts"]):
                    for op in n["scripts"][k]:
                        out.append([3, g, i, k] + list(op))
                for k in sorted(n["pauses"]):
                    out.append([9, g, i, k, n["pauses"][k]])
        out += self.hints
        return out


def _sched_op(rng, allow_neg=True):
    r = rng.random()
    if r < 0.6:
        deltas = [0, 1, 1, 2, 3, 5] + ([-1] if allow_neg else [])
        return [1, rng.choice(deltas), rng.choice(TAGS)]
    if r < 0.72:
        return [2, 0, rng.choice(TAGS[1:])]
    if r < 0.8:
        return [3, 0, 0]
    if r < 0.92:
        return [4, 0, rng.choice(TAGS[1:])]
    return [5, 0, 0]


def gen_source(rng, P, horizon, sparse=False):
    """A scripted root source: emits at chosen times through its node scheduler, then falls silent."""
    scripts = {}
    nt = rng.randint(1, 3) if sparse else rng.randint(2, 6)
    first = rng.choice([0, 0, 1, 2])
    scripts[-1] = [[1, first, 0]]
    for k in range(nt):
        ops = [[6, rng.randint(1, 9), 0]]
        if k + 1 < nt:
            ops.append([1, rng.choice([1, 1, 1, 2, 3, 4] if not sparse else [1, 3, 5, 6]), 0])
        scripts[k] = ops
    scripts[nt] = [[0, 0, 0]]
    return P.add(0, us=1, ho=1, scripts=scripts)


# A body is a list of node descriptions whose inputs are ('x', q) = external port q or ('n', j) = body node j.
def gen_body(rng, nports, tier, style=None):
    nb = rng.randint(1, 4 if tier == "quick" else 5)
    body = []
    outs = []
    style = style or rng.choice(["timers", "timers", "steps", "selfdriven", "random", "random"])
    for j in range(nb):
        last = j == nb - 1
        cands = [("x", q) for q in range(nports)] + [("n", o) for o in outs]
        self_src = (style == "selfdriven" and j == 0) or (not cands) or (rng.random() < 0.15 and not last)
        ins = []
        if not self_src:
            for _ in range(rng.randint(1, min(3, len(cands)))):
                ins.append((rng.choice(cands), 1 if rng.random() < 0.75 else 0, 1 if rng.random() < 0.6 else 0))
            if not any(a for _, a, _ in ins):
                ins[0] = (ins[0][0], 1, ins[0][2])
            if last and outs and not any(s[0] == ("n", outs[-1]) for s in ins) and rng.random() < 0.7:
                ins.append((("n", outs[-1]), 1, 0))
        us = 1 if (self_src or rng.random() < (0.7 if style in ("timers", "steps") else 0.45)) else 0
        ho = 1 if last or rng.random() < 0.8 else 0
        sos = 1 if self_src and rng.random() < 0.6 else 0
        vmode = 1 if ins and rng.random() < 0.35 else 0
        if vmode == 1 and not any(r for _, _, r in ins):
            # an explicit EMPTY validity gate makes a bound input "sampled" when a nested child starts
            # (nested_bindings.h): inlined and nested differ by design there; keep one input required
            ins[0] = (ins[0][0], ins[0][1], 1)
        scripts = {}
        if self_src and not sos:
            scripts[-1] = [[1, rng.choice([0, 1, 2, 3]), rng.choice(TAGS)]]
        elif us and rng.random() < 0.3:
            scripts[-1] = [[1, rng.choice([0, 1, 2, 4]), rng.choice(TAGS)]]
        dflt = []
        if ho:
            dflt.append([6, rng.randint(-3, 9), 0])
        if us:
            if style == "steps":
                dflt.append([1, 1, rng.choice(TAGS)])
            elif style in ("timers", "selfdriven") or rng.random() < 0.6:
                dflt.append([1, rng.choice([1, 2, 3, 5]), rng.choice(TAGS)])
        elif rng.random() < 0.12:
            dflt.append([7, rng.choice([1, 2, 4]), 0])
        scripts[-2] = dflt or [[0, 0, 0]]
        # a self-driven node must stop eventually in most cases: bound the number of re-arms
        if us:
            stop = rng.randint(2, 7)
            scripts[stop] = ([[6, rng.randint(0, 5), 0]] if ho else [[0, 0, 0]])
            if rng.random() < 0.4:
                scripts[stop + 1] = list(dflt) or [[0, 0, 0]]
        for k in range(rng.randint(0, 3)):
            if rng.random() < 0.5:
                ops = []
                for _ in range(rng.randint(1, 3)):
                    r = rng.random()
                    if us and r < 0.65:
                        ops.append(_sched_op(rng, allow_neg=False))
                    elif ho and r < 0.9:
                        ops.append([6, rng.randint(-3, 9), 0])
                    elif r < 0.97:
                        ops.append([7, rng.choice([0, 1, 2, 4]), 0])
                scripts[k] = ops or [[0, 0, 0]]
        body.append(dict(us=us, sos=sos, ho=ho, vmode=vmode, ins=ins, scripts=scripts, kind=0))
        if ho:
            outs.append(j)
    return body


def place_body(P, g, body, ext):
    """Put the body's nodes into graph g.  ext[q] = (src, port) in graph g, or None when port q is bound
    from the enclosing nested node.  Returns (index of first node, list of (q, node, slot) bound uses)."""
    base = len(P.graphs[g])
    bound = []
    for j, b in enumerate(body):
        ins = []
        for s, (ref, act, req) in enumerate(b["ins"]):
            if ref[0] == "n":
                ins.append((base + ref[1], 0, act, req))
            elif ext[ref[1]] is None:
                ins.append((-1, 0, act, req))
                bound.append((ref[1], base + j, s))
            else:
                ins.append((ext[ref[1]][0], ext[ref[1]][1], act, req))
        P.add(g, kind=b.get("kind", 0), us=b["us"], sos=b["sos"], ho=b["ho"], ins=ins, vmode=b["vmode"], scripts=b["scripts"],
              pauses=b.get("pauses"))
    return base, bound


def nest_body(P, g, body, ext, depth, kind=1, outer_active=None, inner_kinds=None):
    """Add to graph g a nested (kind 1) / try_except (kind 2) node running `body` at nesting depth `depth`.
    ext[q] = (src, port) in g or None (bound from g's own parent).  Returns (node index, bound uses in g)."""
    nports = len(ext)
    child = P.new_graph()
    if depth <= 1:
        base, bound = place_body(P, child, body, [None] * nports)
        outn = base + len(body) - 1
        binds = [(q, n, s) for (q, n, s) in bound]
    else:
        k2 = (inner_kinds or [1] * depth)[0]
        inner, ibound = nest_body(P, child, body, [None] * nports, depth - 1, kind=k2, inner_kinds=(inner_kinds or [1] * depth)[1:])
        outn = inner
        binds = [(q, n, s) for (q, n, s) in ibound]
    ins = []
    bound_here = []
    for q in range(nports):
        act = 1 if outer_active is None else outer_active[q]
        if ext[q] is None:
            ins.append((-1, 0, act, 0))
        else:
            ins.append((ext[q][0], ext[q][1], act, 0))
    idx = P.add(g, kind=kind, ho=1, ins=ins, nest=(child, outn, binds))
    for q in range(nports):
        if ext[q] is None:
            bound_here.append((q, idx, q))
    return idx, bound_here


def recorder(P, g, src, port=0):
    return P.add(g, ins=[(src, port, 1, 0)], vmode=1)   # vmode 1, nothing required: runs whenever notified


# ---------------------------------------------------------------- generators
def gen_c09(rng, tier):
    start = rng.randint(1, 3)
    end = start + rng.randint(8, 16 if tier == "quick" else 30)
    P = Prog(start, end)
    nsrc = rng.randint(1, 3)
    sparse = rng.random() < 0.5
    srcs = [gen_source(rng, P, end - start, sparse) for _ in range(nsrc)]
    nports = rng.randint(0 if rng.random() < 0.2 else 1, 3)
    ports = [(rng.choice(srcs), 0) for _ in range(nports)]
    body = gen_body(rng, nports, tier, style="selfdriven" if nports == 0 else None)
    if nports and rng.random() < 0.06:
        # KF-sampled-at-root-start-C09: a node with an explicit EMPTY validity gate on a bound, active input
        cand = [b for b in body if any(r[0][0] == "x" and r[1] for r in b["ins"])]
        if cand:
            b = rng.choice(cand)
            b["vmode"] = 1
            b["ins"] = [(r[0], r[1], 0) for r in b["ins"]]
    # inlined
    base, _ = place_body(P, 0, body, ports)
    r = recorder(P, 0, base + len(body) - 1)
    P.hints.append([7, 0, 0, r])
    depths = [1, 2, 3] if (tier != "quick" or rng.random() < 0.4) else rng.sample([1, 2, 3], 2)
    for d in depths:
        oa = None
        if nports and rng.random() < 0.35:
            oa = [0 if rng.random() < 0.7 else 1 for _ in range(nports)]   # passive outer ports: the push half must work
        n, _ = nest_body(P, 0, body, ports, d, outer_active=oa)
        r = recorder(P, 0, n)
        P.hints.append([7, 0, 0, r])
    # an out-of-band poke at a stale child clock (exercises the clamp)
    if rng.random() < 0.15:
        nested = [i for i, nd in enumerate(P.graphs[0]) if nd["kind"] == 1]
        tgt = rng.choice(nested)
        child = P.graphs[0][tgt]["nest"][0]
        src = P.graphs[0][srcs[0]]
        k = rng.choice([k for k in src["scripts"] if k >= 0])
        inner = P.graphs[child][0]
        if inner["kind"] == 1 and rng.random() < 0.6:
            # the grandchild (depth >= 2): clamped against the idle middle graph's clock only (KF-stale-clamp-depth2-C09)
            src["scripts"][k] = src["scripts"][k] + [[12, tgt, rng.randrange(len(P.graphs[inner["nest"][0]]))]]
        else:
            src["scripts"][k] = src["scripts"][k] + [[9, tgt, rng.randrange(len(P.graphs[child]))]]
        # an out-of-band schedule has no inlined counterpart: that variant leaves the equality group
        P.hints = [h for h in P.hints if not (h[0] == 7 and h[3] == tgt + 1)]
    return P.lines()


def _throw_op(rng, P):
    """every thrower of a program gets its own message ("hgv boom <id>"); some throw an object that is not a
    std::exception (the error tick must then say "unknown error")"""
    P.nthrow = getattr(P, "nthrow", 0) + 1
    if rng.random() < 0.15:
        return [11, 0, 0]
    a = 10 * P.nthrow + rng.randint(0, 9)
    # long messages: the tick must carry the WHOLE text ("hgv boom <a> <filler>" of exactly that length)
    return [8, a, rng.choice([255, 256, 257, 300, 1000]) if rng.random() < 0.3 else 0]


def gen_c15(rng, tier):
    start = rng.randint(1, 3)
    end = start + rng.randint(8, 14 if tier == "quick" else 24)
    P = Prog(start, end, paired=1)
    nsrc = rng.randint(1, 2)
    srcs = [gen_source(rng, P, end - start) for _ in range(nsrc)]
    clean = list(srcs)
    # an unrelated chain
    for _ in range(rng.randint(1, 2)):
        us = 1 if rng.random() < 0.5 else 0
        sc = {-2: [[6, rng.randint(0, 5), 0]] + ([[1, rng.choice([1, 2, 3]), rng.choice(TAGS)]] if us else [])}
        if us:
            sc[rng.randint(2, 5)] = [[6, 0, 0]]
        n = P.add(0, us=us, ho=1, ins=[(rng.choice(clean), 0, 1, 1)], scripts=sc)
        clean.append(n)
    nfail = 1 if rng.random() < 0.7 else 2
    for _ in range(nfail):
        pat = rng.choice(["first", "consecutive", "random", "second", "every"])
        def throw_runs():
            if pat == "first":
                return [0]
            if pat == "second":
                return [1]
            if pat == "consecutive":
                a = rng.randint(0, 2)
                return [a, a + 1] + ([a + 2] if rng.random() < 0.3 else [])
            if pat == "every":
                return list(range(0, 12))
            return sorted(rng.sample(range(0, 6), rng.randint(1, 3)))
        if rng.random() < 0.4:
            # node-level capture
            us = 1 if rng.random() < 0.6 else 0
            sc = {-2: [[6, rng.randint(0, 5), 0]] + ([[1, rng.choice([1, 2, 3]), rng.choice(TAGS)]] if us else [])}
            if us:
                sc[rng.randint(4, 7)] = [[6, 0, 0]]
            for k in throw_runs():
                pre = [op for op in sc.get(k, sc[-2]) if rng.random() < 0.5]
                sc[k] = pre + [_throw_op(rng, P)]
            n = P.add(0, kind=3, us=us, ho=1, ins=[(rng.choice(srcs), 0, 1, 1)] + ([(rng.choice(srcs), 0, 0, 0)] if rng.random() < 0.3 else []),
                      scripts=sc)
            recorder(P, 0, n, 0)
            recorder(P, 0, n, 1)
        else:
            nports = rng.randint(1, 2)
            ports = [(rng.choice(srcs), 0) for _ in range(nports)]
            body = gen_body(rng, nports, tier, style=rng.choice(["timers", "random", "chain", "chain"]))
            if rng.random() < 0.6:
                # make it a chain on port 0 so that every later tick of the port reaches every node
                for j, b in enumerate(body):
                    if j == 0:
                        b["ins"] = [(("x", 0), 1, 1)]
                    elif not any(s[0] == ("n", j - 1) for s in b["ins"]) and body[j - 1]["ho"]:
                        b["ins"] = [(("n", j - 1), 1, 1)] + b["ins"][:1]
            fidx = rng.randrange(len(body))          # the failing node at EVERY child index
            fb = body[fidx]
            for k in throw_runs():
                pre = [op for op in fb["scripts"].get(k, fb["scripts"][-2]) if rng.random() < 0.5]
                fb["scripts"][k] = pre + [_throw_op(rng, P)]
            if rng.random() < 0.25:
                f2 = body[rng.randrange(len(body))]
                k = rng.randint(0, 4)
                f2["scripts"][k] = [_throw_op(rng, P)]
            depth = rng.choice([1, 1, 1, 2, 3])
            kinds = [2] + [1] * (depth - 1)
            rng.shuffle(kinds)                        # try_except at some level of the nest
            n, _ = nest_body(P, 0, body, ports, depth, kind=kinds[0], inner_kinds=kinds[1:])
            recorder(P, 0, n, 0)
            if kinds[0] == 2:
                recorder(P, 0, n, 1)
            # a dependent consumer
            if rng.random() < 0.5:
                P.add(0, ho=1, ins=[(n, 0, 1, 0), (rng.choice(srcs), 0, 1, 0)], vmode=1, scripts={-2: [[6, 0, 0]]})
    # unrelated recorders at the end (ranked after the failing constructs)
    for c in clean:
        r = recorder(P, 0, c)
        P.hints.append([8, 0, r])
    for c in clean:
        P.hints.append([8, 0, c])
    if rng.random() < 0.04:
        # an uncaptured failure: the run must stop with the error
        P.add(0, ins=[(srcs[0], 0, 1, 1)], scripts={rng.randint(0, 3): [_throw_op(rng, P)]})
    return P.lines()


def gen_c01(rng, tier):
    """Cycles that pause and resume: kind-5 nodes whose evaluate returns false (what mesh_subscribe does) inside
    child graphs whose owner re-enters the paused cycle until it completes (kind 4, what mesh_ does)."""
    start = rng.randint(1, 3)
    end = start + rng.randint(6, 12 if tier == "quick" else 20)
    P = Prog(start, end)
    srcs = [gen_source(rng, P, end - start) for _ in range(rng.randint(1, 2))]
    for _ in range(rng.randint(1, 2)):
        nports = rng.randint(1, 2)
        ports = [(rng.choice(srcs), 0) for _ in range(nports)]
        body = gen_body(rng, nports, tier, style=rng.choice(["timers", "random", "chain"]))
        while len(body) < 2 or (len(body) < 4 and rng.random() < 0.6):
            j = len(body)
            prev = [x for x in range(j) if body[x]["ho"]]
            ref = ("n", rng.choice(prev)) if prev else ("x", 0)
            body.append(dict(us=0, sos=0, ho=1, vmode=0, ins=[(ref, 1, 1)], scripts={-2: [[6, rng.randint(0, 5), 0]]}, kind=0))
        # the pausing node(s): at EVERY index, also 0 and the terminal
        for pi in rng.sample(range(len(body)), 1 if rng.random() < 0.7 else min(2, len(body))):
            b = body[pi]
            b["kind"], b["us"], b["sos"] = 5, 0, 0
            b["scripts"] = {k: [op for op in v if op[0] in (0, 6, 7)] or [[0, 0, 0]] for k, v in b["scripts"].items() if k != -1}
            b["scripts"].setdefault(-2, [[6, 1, 0]] if b["ho"] else [[0, 0, 0]])
            if not b["ins"]:
                b["ins"] = [(("x", 0), 1, 1)]
            b["pauses"] = {k: rng.choice([0, 1, 1, 2, 3]) for k in range(0, 8) if rng.random() < 0.8}
        depth = rng.choice([1, 1, 2, 3])
        kinds = [4] + [1] * (depth - 1)
        rng.shuffle(kinds)
        n, _ = nest_body(P, 0, body, ports, depth, kind=kinds[0], inner_kinds=kinds[1:])
        recorder(P, 0, n, 0)
    for sidx in srcs:
        recorder(P, 0, sidx)
    return P.lines()


def gen(rng, tier, prop):
    if prop == "C01":
        return gen_c01(rng, tier)
    if prop == "C15":
        return gen_c15(rng, tier)
    if prop == "C09":
        return gen_c09(rng, tier)
    return gen_c09(rng, tier) if rng.random() < 0.5 else gen_c15(rng, tier)


# ---------------------------------------------------------------- helpers
def parse_case(case):
    start, end, paired = 1, 10, 0
    nodes = {}
    scripts = {}
    nest = {}
    groups = {}
    clean = set()
    pauses = {}
    for l in case:
        if l[0] == 1:
            start, end = l[1], l[2]
        elif l[0] == 6:
            paired = l[1]
        elif l[0] == 2:
            ins = [tuple(l[9 + 4 * s: 13 + 4 * s]) for s in range(l[7])]
            nodes[(l[1], l[2])] = dict(kind=l[3], us=l[4], sos=l[5], ho=l[6], vmode=l[8], ins=ins)
        elif l[0] == 5:
            binds = [tuple(l[6 + 3 * s: 9 + 3 * s]) for s in range(l[5])]
            nest[(l[1], l[2])] = (l[3], l[4], binds)
        elif l[0] == 3:
            scripts.setdefault((l[1], l[2], l[3]), []).append((l[4], l[5], l[6]))
        elif l[0] == 7:
            groups.setdefault(l[1], []).append((l[2], l[3]))
        elif l[0] == 9:
            pauses[(l[1], l[2], l[3])] = l[4]
        elif l[0] == 8:
            clean.add((l[1], l[2]))
    parent = {0: None}
    for (g, i), (ch, _o, _b) in nest.items():
        parent[ch] = (g, i)
    return dict(start=start, end=end, paired=paired, nodes=nodes, scripts=scripts, nest=nest, groups=groups,
                clean=clean, parent=parent, pauses=pauses)


def script_for(scripts, g, i, k):
    if (g, i, k) in scripts:
        return scripts[(g, i, k)]
    if k >= 0:
        return scripts.get((g, i, -2), [])
    return []


def split_runs(out):
    if not isinstance(out, list):
        return [out]
    runs, cur = [], []
    for l in out:
        if l and l[0] == 20:
            runs.append(cur)
            cur = []
        else:
            cur.append(l)
    runs.append(cur)
    return runs


def resolve_out(pc, g, i, port):
    n = pc["nodes"].get((g, i))
    while n is not None and n["kind"] in (1, 2, 4) and port == 0 and (g, i) in pc["nest"] and pc["nest"][(g, i)][1] >= 0:
        ch, outn, _ = pc["nest"][(g, i)]
        g, i = ch, outn
        n = pc["nodes"].get((g, i))
    return (g, i, port)


def resolve_in(pc, g, i, s):
    """The owned output endpoint the input slot finally reads (bindings are aliases)."""
    n = pc["nodes"].get((g, i))
    if n is None or s >= len(n["ins"]):
        return None
    src, port = n["ins"][s][0], n["ins"][s][1]
    if src >= 0:
        return resolve_out(pc, g, src, port)
    par = pc["parent"].get(g)
    if par is None:
        return None
    for (outer, cn, cs) in pc["nest"][par][2]:
        if cn == i and cs == s:
            return resolve_in(pc, par[0], par[1], outer)
    return None


def src_is_forwarding(pc, g, i, s):
    """is the input (transitively) bound to the output of a nested / try_except node?"""
    n = pc["nodes"].get((g, i))
    src = n["ins"][s][0]
    if src >= 0:
        return pc["nodes"][(g, src)]["kind"] in (1, 2, 4)
    par = pc["parent"].get(g)
    if par is None:
        return False
    for (outer, cn, cs) in pc["nest"][par][2]:
        if cn == i and cs == s:
            return src_is_forwarding(pc, par[0], par[1], outer)
    return False


def enclosing_try(pc, g, i):
    """The entity that captures an exception thrown by plain node (g,i): itself (kind 3), the nearest
    enclosing try_except node, or None (escapes)."""
    if pc["nodes"][(g, i)]["kind"] == 3:
        return (g, i)
    par = pc["parent"].get(g)
    while par is not None:
        if pc["nodes"][par]["kind"] == 2:
            return par
        par = pc["parent"].get(par[0])
    return None


def graphs_under(pc, node):
    """All graph ids inside the child graph owned by `node` (transitively)."""
    res = set()
    todo = [pc["nest"][node][0]] if node in pc["nest"] else []
    while todo:
        g = todo.pop()
        res.add(g)
        for (pg, pi), (ch, _o, _b) in pc["nest"].items():
            if pg == g:
                todo.append(ch)
    return res


def throws_in(pc, run):
    """(g, i, t, code) for each user throw that happened in this trace."""
    res = []
    for l in run:
        if l[0] == 12:
            g, i, t, k = l[1], l[2], l[3], l[4]
            for (code, a, b) in script_for(pc["scripts"], g, i, k):
                if code in (8, 11):
                    res.append((g, i, t, 100 + a + 1000000 * b if code == 8 else 2))
                    break
    return res


def stats(case, out):
    pc = parse_case(case)
    runs = split_runs(out)
    r0 = runs[0] if isinstance(runs[0], list) else []
    depth = 0
    for g in pc["parent"]:
        d, p = 0, pc["parent"].get(g)
        while p is not None:
            d += 1
            p = pc["parent"].get(p[0])
        depth = max(depth, d)
    root_cycles = [l[2] for l in r0 if l[0] == 10 and l[1] == 0]
    child_cycles = sum(1 for l in r0 if l[0] == 10 and l[1] != 0)
    # root cycles in which only nested nodes were evaluated: the child drives itself while the parent is idle
    ev = {}
    for l in r0:
        if l[0] == 11 and l[1] == 0:
            ev.setdefault(l[3], []).append(l[2])
    emitted_at = set((l[1], l[2], l[3]) for l in r0 if l[0] == 14)
    selfdriven = 0
    for t, ns in ev.items():
        for n in ns:
            nd = pc["nodes"][(0, n)]
            if nd["kind"] in (1, 2, 4) and not any(s[0] >= 0 and (0, s[0], t) in emitted_at for s in nd["ins"]):
                selfdriven += 1
    consec = sum(1 for a, b in zip(root_cycles, root_cycles[1:]) if b == a + 1)
    th = throws_in(pc, r0)
    return {"graphs": len(pc["parent"]), "max_depth": depth, "nodes": len(pc["nodes"]), "root_cycles": len(root_cycles),
            "child_cycles": child_cycles, "selfdriven_child_cycles": selfdriven, "consecutive_steps": consec,
            "throws": len(th), "throws_at_index_gt0": sum(1 for x in th if x[1] > 0 and x[0] != 0),
            "throws_captured_by_node": sum(1 for x in th if pc["nodes"][(x[0], x[1])]["kind"] == 3),
            "throws_long_message": sum(1 for x in th if x[3] >= 1000000), "throws_longer_than_256": sum(1 for x in th if x[3] >= 257000000),
            "passive_outer_ports": sum(1 for (g, i), n in pc["nodes"].items() if n["kind"] in (1, 2, 4) for s in n["ins"] if not s[2]),
            "pauses": sum(1 for l in r0 if l[0] == 17), "pausers": sum(1 for n in pc["nodes"].values() if n["kind"] == 5),
            "pausers_at_index_gt0": sum(1 for (g, i), n in pc["nodes"].items() if n["kind"] == 5 and i > 0),
            "pokes": sum(1 for v in pc["scripts"].values() for op in v if op[0] == 9),
            "escaped": int(any(l[0] == 19 for l in r0)),
            "error": int(not isinstance(out, list))}


def nontrivial(case, out):
    if not isinstance(out, list):
        return False
    pc = parse_case(case)
    r0 = split_runs(out)[0]
    child_cycles = sum(1 for l in r0 if l[0] == 10 and l[1] != 0)
    if pc["paired"]:
        return child_cycles + len(throws_in(pc, r0)) >= 1 and sum(1 for l in r0 if l[0] == 10 and l[1] == 0) >= 2
    return child_cycles >= 2 and sum(1 for l in r0 if l[0] == 12) >= 3


# ---------------------------------------------------------------- property oracle
def rec_stream(run, g, i):
    """the value ticks a recorder saw: (time, value) of its runs with a valid, modified input"""
    return [(l[3], l[9]) for l in run if l[0] == 12 and l[1] == g and l[2] == i and l[7] == 1 and l[8] == 1]


def rec_phantoms(run, g, i):
    """runs of a recorder in which its input claims `modified` without being valid"""
    return [l[3] for l in run if l[0] == 12 and l[1] == g and l[2] == i and l[7] == 0 and l[8] == 1]


def oracle_timers(pc, run, fails, aborted_ok, kind_fn=None):
    """Every pending node-scheduler wake-up of every node at every depth is honoured (the node is evaluated
    at that time) - a spec of the scheduler's pending set replayed from the scripts, as in gen/core.py."""
    start, end = pc["start"], pc["end"]
    pending = {key: set() for key in pc["nodes"]}
    err = any(l[0] == 19 for l in run)

    dropped = []          # (node, time): wake-ups requested and then cancelled / replaced (the graph slot keeps them: KF C03/C18)

    def spec_sched(key, now, started, when, tag):
        if (when <= now) if started else (when < now):
            return
        if tag != 0:
            for e in [e for e in pending[key] if e[1] == tag]:
                pending[key].discard(e)
                if e[0] != when:
                    dropped.append((key, e[0]))
        pending[key].add((when, tag))

    for key in sorted(pc["nodes"]):
        if pc["nodes"][key]["us"]:
            for (code, a, b) in script_for(pc["scripts"], key[0], key[1], -1):
                if code == 1:
                    spec_sched(key, start, False, start + a, b)
    open_eval = None
    aborted = set()       # (graph, t): the cycle of that graph at t was abandoned by a captured exception
    lost = []
    kind_fn = kind_fn or (lambda key, t: "wake_lost")

    def finish(ev):
        if ev is None:
            return
        key, t = ev
        for e in [e for e in pending[key] if e[0] <= t]:
            pending[key].discard(e)

    for l in run:
        if l[0] == 10 and l[1] == 0:
            finish(open_eval)
            open_eval = None
            for key in sorted(pending):
                for e in sorted(pending[key]):
                    if e[0] < l[2]:
                        pending[key].discard(e)
                        if (key[0], e[0]) in aborted and aborted_ok:
                            continue
                        lost.append((key, e[0]))
                        fails.append((kind_fn(key, e[0]), "node %s pending %s not honoured before root cycle %d" % (key, e, l[2])))
        elif l[0] == 11:
            finish(open_eval)
            open_eval = ((l[1], l[2]), l[3])
        elif l[0] == 12:
            key, t, k = (l[1], l[2]), l[3], l[4]
            if pc["nodes"][key]["us"]:
                for (code, a, b) in script_for(pc["scripts"], key[0], key[1], k):
                    if code == 1:
                        spec_sched(key, t, True, t + a, b)
                    elif code in (2, 4):
                        for e in [e for e in pending[key] if e[1] == b]:
                            pending[key].discard(e)
                            dropped.append((key, e[0]))
                    elif code == 3:
                        if pending[key]:
                            dropped.append((key, min(pending[key])[0]))
                            pending[key].discard(min(pending[key]))
                    elif code == 5:
                        dropped += [(key, e[0]) for e in pending[key]]
                        pending[key].clear()
                    elif code in (8, 11):
                        break
            for (code, a, b) in script_for(pc["scripts"], key[0], key[1], k):
                if code in (8, 11):
                    # the cycles of the graphs between the thrower and the capturing node are abandoned
                    g = key[0]
                    cap = enclosing_try(pc, key[0], key[1])
                    while g is not None and (cap is None or g != cap[0]):
                        aborted.add((g, t))
                        par = pc["parent"].get(g)
                        g = par[0] if par else None
                    break
    finish(open_eval)
    if not err:
        for key in sorted(pending):
            for e in sorted(pending[key]):
                if start <= e[0] < end:
                    if (key[0], e[0]) in aborted and aborted_ok:
                        continue
                    lost.append((key, e[0]))
                    fails.append((kind_fn(key, e[0]), "node %s pending %s never honoured (end %d)" % (key, e, end)))
    return lost + dropped


def oracle_clocks(pc, run, fails):
    """A child graph is never evaluated at a time earlier than its parent's current time (nor later:
    it is evaluated inside its parent's cycle, by the owning node)."""
    cur = {}
    cur_node = {}
    for l in run:
        if l[0] == 10:
            g, t = l[1], l[2]
            if g != 0:
                par = pc["parent"].get(g)
                if par is None:
                    fails.append(("trace_shape", "cycle of unknown graph %d" % g))
                else:
                    pt = cur.get(par[0])
                    if pt is None or t < pt:
                        fails.append(("child_early", "graph %d evaluated at %d but its parent graph %d is at %s" % (g, t, par[0], pt)))
                    elif t > pt:
                        fails.append(("child_clock_ahead", "graph %d evaluated at %d but its parent graph %d is at %s" % (g, t, par[0], pt)))
                    if cur_node.get(par[0]) != (par[1], t):
                        fails.append(("child_outside_owner", "graph %d evaluated at %d outside the evaluation of its owner %s" % (g, t, par)))
            if g in cur and t <= cur[g]:
                fails.append(("cycle_order", "graph %d cycle times not increasing: %d then %d" % (g, cur[g], t)))
            cur[g] = t
        elif l[0] == 11:
            cur_node[l[1]] = (l[2], l[3])
            if cur.get(l[1]) != l[3]:
                fails.append(("node_outside_cycle", "node (%d,%d) evaluated at %d but its graph is at %s" % (l[1], l[2], l[3], cur.get(l[1]))))


def oracle_reads(pc, run, fails):
    """Boundaries are bindings: every input of every node at every depth reads the latest value of the output
    it is (transitively) bound to; every active input tick evaluates the consumer in the same cycle."""
    outv = {}
    for l in run:
        if l[0] == 14:
            outv[(l[1], l[2], 0)] = (l[4], l[3])
        elif l[0] == 12:
            g, i, t = l[1], l[2], l[3]
            n = pc["nodes"][(g, i)]
            for s in range(len(n["ins"])):
                ep = resolve_in(pc, g, i, s)
                if ep is None or ep[2] != 0 or pc["nodes"][(ep[0], ep[1])]["kind"] != 0:
                    continue        # error ports are checked by the C15 part
                got = list(l[7 + 4 * s: 11 + 4 * s])
                ev = outv.get(ep)
                exp = [1, int(ev[1] == t), ev[0], ev[1]] if ev else [0, 0, 0, 0]
                if not ev and got[0] == 0:
                    continue        # nothing to read yet (a re-pointed forwarding link may stamp `modified`: see phantom_tick)
                if ev and got[0] == 1 and got[2] == ev[0] and got[3] >= ev[1] and got[1] == int(got[3] == t) and got[3] <= t \
                        and src_is_forwarding(pc, g, i, s):
                    continue        # value right; the time may be that of a link re-point
                if got != exp:
                    fails.append(("stale_read", "node (%d,%d) input %d at %d reads %s, bound output %s implies %s" % (g, i, s, t, got, ep, exp)))


def oracle_counts(pc, run, fails):
    """C01 for child graphs: in one engine cycle every node of every graph is evaluated at most once, also when the
    cycle pauses and resumes.  Only a node that paused the cycle itself (line 17) is entered again on each resume, and
    so is every plain nested owner between it and the owner that re-enters the paused cycle."""
    n11, n12, n17 = {}, {}, {}
    for l in run:
        if l[0] == 11:
            n11[(l[1], l[2], l[3])] = n11.get((l[1], l[2], l[3]), 0) + 1
        elif l[0] == 12:
            n12[(l[1], l[2], l[3])] = n12.get((l[1], l[2], l[3]), 0) + 1
        elif l[0] == 17:
            n17[(l[1], l[2], l[3])] = n17.get((l[1], l[2], l[3]), 0) + 1
    allowed = {}
    for (g, i, t), c in n17.items():
        allowed[(g, i, t)] = allowed.get((g, i, t), 0) + c
        par = pc["parent"].get(g)
        while par is not None and pc["nodes"][par]["kind"] != 4:
            allowed[(par[0], par[1], t)] = allowed.get((par[0], par[1], t), 0) + c
            par = pc["parent"].get(par[0])
    for key, c in sorted(n11.items()):
        if c > 1 + allowed.get(key, 0):
            fails.append(("evaluated_twice", "node (%d,%d) evaluated %d times in the engine cycle %d (allowed %d: %d pause(s) of it or below it)"
                          % (key[0], key[1], c, key[2], 1 + allowed.get(key, 0), allowed.get(key, 0))))
    for key, c in sorted(n12.items()):
        if c > 1:
            fails.append(("evaluated_twice", "user code of node (%d,%d) ran %d times in the engine cycle %d" % (key[0], key[1], c, key[2])))
    # every requested pause happened, and the run completed afterwards in the same cycle
    for (g, i, t), c in sorted(n17.items()):
        if n12.get((g, i, t), 0) != 1 and not any(l[0] == 19 for l in run):
            fails.append(("pause_not_resumed", "node (%d,%d) paused the cycle %d %d time(s) but its run did not complete in that cycle" % (g, i, t, c)))


def oracle_pokes(pc, run, fails):
    """An out-of-band schedule_node(b, graph.evaluation_time()) on a child graph, issued while the owner of that graph
    has not yet been evaluated in this cycle, evaluates node b in this cycle."""
    evald = set((l[1], l[2], l[3]) for l in run if l[0] == 11)
    last_cycle = {}
    stale = []
    for l in run:
        if l[0] == 10:
            last_cycle.setdefault(l[1], []).append(l[2])
        if l[0] != 12:
            continue
        g, i, t, k = l[1], l[2], l[3], l[4]
        for (code, a, b) in script_for(pc["scripts"], g, i, k):
            if code in (8, 11):
                break
            if code not in (9, 12) or (g, a) not in pc["nest"] or a <= i:
                continue
            child = pc["nest"][(g, a)][0]
            target, mid = child, None
            if code == 12:
                if (child, 0) not in pc["nest"]:
                    continue
                mid, target = child, pc["nest"][(child, 0)][0]
            if (target, b) not in pc["nodes"] or (g, a, t) not in evald or (target, b, t) in evald:
                continue
            if not any(l2[0] == 10 and l2[1] == target for l2 in run):
                continue
            if code == 12 and not any(x == t for x in last_cycle.get(mid, [])[:-1]):
                stale.append(((target, b), t))
                fails.append(("stale_clamp_depth2", "node (%d,%d) poked at %d through the idle graph %d (clock behind the root): its owners ran "
                              "but it was not evaluated" % (target, b, t, mid)))
            else:
                fails.append(("poke_lost", "node (%d,%d) poked at %d was not evaluated in that cycle although its owner (%d,%d) was" % (target, b, t, g, a)))
    return stale


def sampled_at_start(pc, run):
    """graphs in which a node with an EMPTY validity gate on a bound active input was evaluated in the start cycle"""
    res = set()
    for (g, i), n in pc["nodes"].items():
        if g != 0 and n["vmode"] == 1 and not any(s[3] for s in n["ins"]) and any(s[0] < 0 and s[2] for s in n["ins"]):
            if any(l[0] == 11 and (l[1], l[2], l[3]) == (g, i, pc["start"]) for l in run):
                res.add(g)
    return res


def oracle_c09(pc, run, fails):
    oracle_counts(pc, run, fails)
    stale = oracle_pokes(pc, run, fails)
    oracle_clocks(pc, run, fails)

    def timer_kind(key, t):
        # the stale slot written by a stale-clamped poke replaces the node's (or its owner's) pending slot
        for (nb, tp) in stale:
            if tp <= t and (key == nb or (nb in pc["nest"] and key[0] in graphs_under(pc, nb))):
                return "stale_clamp_depth2"
        return "wake_lost"
    oracle_timers(pc, run, fails, aborted_ok=False, kind_fn=timer_kind)
    oracle_reads(pc, run, fails)
    for grp, members in sorted(pc["groups"].items()):
        ref = rec_stream(run, *members[0])
        for m in members[1:]:
            st = rec_stream(run, *m)
            if st != ref:
                k = next((x for x in range(max(len(st), len(ref))) if x >= len(st) or x >= len(ref) or st[x] != ref[x]), 0)
                owner = (m[0], pc["nodes"][m]["ins"][0][0])
                if owner in pc["nest"] and (graphs_under(pc, owner) & sampled_at_start(pc, run)):
                    fails.append(("sampled_at_root_start_nested_only", "recorder %s: the nested variant %s ran a node with an empty validity gate "
                                  "in the start cycle (schedule_sampled_input_consumers); the inlined form has no such evaluation; streams "
                                  "differ from element %d: %s vs %s" % (m, owner, k, st[k:k + 1], ref[k:k + 1])))
                else:
                    fails.append(("nested_differs", "recorder %s (nested variant) differs from recorder %s (inlined) at element %d: %s vs %s"
                                  % (m, members[0], k, st[k:k + 1], ref[k:k + 1])))
            ph = rec_phantoms(run, *m)
            if ph and not rec_phantoms(run, *members[0]):
                # The known shape (KF-phantom-tick-forwarding-rebind-C09): the recorder reads a nested node whose
                # child's terminal is itself a nested / try_except node (depth >= 2), and the single phantom is
                # at that nested node's FIRST evaluation.  Anything else is a violation of its own.
                src = pc["nodes"][m]["ins"][0][0]
                owner = (m[0], src)
                deep = False
                if owner in pc["nest"]:
                    ch, outn, _b = pc["nest"][owner]
                    deep = outn >= 0 and pc["nodes"].get((ch, outn), {}).get("kind") in (1, 2)
                first_eval = next((l[3] for l in run if l[0] == 11 and (l[1], l[2]) == owner), None)
                if deep and ph == [first_eval]:
                    fails.append(("phantom_tick_forwarding_rebind", "recorder %s reads nested node %s (depth >= 2): at the node's first "
                                  "evaluation (%s) its input is `modified` but not valid; the inlined variant never is" % (m, owner, ph)))
                else:
                    fails.append(("phantom_tick", "recorder %s (nested variant, producer %s, depth>=2: %s, first evaluation %s) is run at %s "
                                  "with an input that is `modified` but not valid; the inlined variant never is"
                                  % (m, owner, deep, first_eval, ph)))


def oracle_c15(pc, runs, fails):
    run = runs[0]
    clean_run = runs[1] if len(runs) > 1 else None
    start, end = pc["start"], pc["end"]
    th = throws_in(pc, run)
    escaped = [x for x in th if enclosing_try(pc, x[0], x[1]) is None]
    err_line = [l for l in run if l[0] == 19]
    # ---- run continues
    if err_line and not escaped:
        fails.append(("run_stopped", "run ended with error %s although every throw is captured (throws %s)" % (err_line[0], th)))
    if escaped and not err_line:
        fails.append(("uncaptured_swallowed", "throw %s has no capturing node but the run did not report it" % (escaped[0],)))
    if escaped:
        return
    oracle_clocks(pc, run, fails)
    oracle_counts(pc, run, fails)
    # ---- exactly one error tick per throw, in the same cycle, carrying the message
    expected = {}
    for (g, i, t, code) in th:
        cap = enclosing_try(pc, g, i)
        expected.setdefault(cap, []).append((t, code))
    caps = [k for k, n in pc["nodes"].items() if n["kind"] in (2, 3)]
    for cap in caps:
        exp = expected.get(cap, [])
        # the error recorders bound to this capturing node's error port
        recs = [k for k, n in pc["nodes"].items() if n["kind"] == 0 and len(n["ins"]) == 1
                and resolve_in(pc, k[0], k[1], 0) == (cap[0], cap[1], 1)]
        for r in recs:
            ticks = [(l[3], l[9]) for l in run if l[0] == 12 and (l[1], l[2]) == r and l[7] == 1 and l[8] == 1]
            for (t, code) in exp:
                n = sum(1 for x in ticks if x[0] == t)
                if n == 0:
                    late = [x for x in ticks if x[0] > t and x[1] == code]
                    fails.append(("error_tick_missing", "throw at %d (code %d) captured by %s: recorder %s saw no error tick at %d%s"
                                  % (t, code, cap, r, t, " (one arrives at %d)" % late[0][0] if late else "")))
                elif n > 1:
                    fails.append(("error_tick_twice", "throw at %d captured by %s: %d error ticks at %d" % (t, cap, n, t)))
                elif (t, code) not in ticks:
                    fails.append(("error_message", "throw at %d captured by %s: error tick carries %s, thrown %d"
                                  % (t, cap, [x[1] for x in ticks if x[0] == t], code)))
            for (t, code) in ticks:
                if not any(t == e[0] for e in exp):
                    kind = "error_tick_secondary" if code == 3 else "error_tick_spurious"
                    fails.append((kind, "recorder %s saw an error tick (code %d) at %d, but no user code threw under %s then (throws %s)"
                                  % (r, code, t, cap, exp)))
            evals = [l[3] for l in run if l[0] == 11 and (l[1], l[2]) == r]
            if len(evals) != len(set(evals)):
                fails.append(("error_tick_twice", "error recorder %s evaluated twice in one cycle" % (r,)))
        fin = [l for l in run if l[0] == 16 and (l[1], l[2]) == cap]
        if fin and exp:
            last = max(exp)
            if fin[0][3] != 1 or fin[0][5] < last[0]:
                fails.append(("error_tick_missing", "final error output of %s is %s, last throw %s" % (cap, fin[0], last)))
        if fin and not exp and fin[0][3] == 1 and fin[0][4] != 3:
            fails.append(("error_tick_spurious", "final error output of %s valid (%s) although nothing threw" % (cap, fin[0])))
    # ---- later cycles: the wrapped nodes are evaluated normally again
    abort_idx = {}         # (graph, t) -> node indices at which that graph's cycle at t was abandoned
    for (g, i, t, code) in th:
        cap = enclosing_try(pc, g, i)
        if cap == (g, i):
            continue       # node-level capture: nothing is abandoned
        gg, ii = g, i
        while gg != cap[0]:
            abort_idx.setdefault((gg, t), []).append(ii)
            gg, ii = pc["parent"][gg]
    failed_at = {}
    for (gg, t) in abort_idx:
        failed_at.setdefault(gg, []).append(t)

    def failed_before(g, t):
        """an abandoned cycle, before t, of graph g or of a graph enclosing it (below the capturing node)"""
        while g is not None:
            if any(x < t for x in failed_at.get(g, [])):
                return True
            par = pc["parent"].get(g)
            g = par[0] if par else None
        return False

    def thrown_before(key, t):
        return any((x[0], x[1]) == key and x[2] < t for x in th)

    lost = oracle_timers(pc, run, fails, aborted_ok=True,
                         kind_fn=lambda key, t: "wake_lost_after_captured_error"
                         if (failed_before(key[0], t) and pc["nodes"][key]["kind"] != 3) else "wake_lost")
    # raw graph.schedule_node(self, now+a) requests that were never honoured (they keep the earliest only, by
    # design; here they only serve to explain a swallowed tick)
    evald = set((l[1], l[2], l[3]) for l in run if l[0] == 11)
    for l in run:
        if l[0] == 12:
            for (code, a_, b_) in script_for(pc["scripts"], l[1], l[2], l[4]):
                if code in (8, 11):
                    break
                if code == 7 and a_ > 0 and (l[1], l[2], l[3] + a_) not in evald:
                    lost.append(((l[1], l[2]), l[3] + a_))
    emitted = set()
    evaluated = set()
    for l in run:
        if l[0] == 14:
            emitted.add((l[1], l[2], 0, l[3]))
        elif l[0] == 11:
            evaluated.add((l[1], l[2], l[3]))
    # error ticks are emissions of port 1 of the capturing node
    for cap, lst in expected.items():
        for (t, code) in lst:
            emitted.add((cap[0], cap[1], 1, t))
    for (g, i), n in sorted(pc["nodes"].items()):
        for s, (src, port, act, req) in enumerate(n["ins"]):
            if not act:
                continue
            ep = resolve_in(pc, g, i, s)
            if ep is None:
                continue
            for (eg, ei, epo, t) in sorted(emitted):
                if (eg, ei, epo) != ep or (g, i, t) in evaluated:
                    continue
                # not evaluated although an active input ticked: legitimate only when the cycle of its graph
                # (or of an enclosing graph) was abandoned at t before reaching it
                gg, ii, ab = g, i, False
                while True:
                    if any(x < ii for x in abort_idx.get((gg, t), [])):
                        ab = True
                    par = pc["parent"].get(gg)
                    if par is None:
                        break
                    gg, ii = par
                if ab:
                    continue
                prev_fail = sorted(x for x in failed_at.get(g, []) if x < t) or ([-1] if failed_before(g, t) else [])
                kind = "lost_tick_after_captured_error" if prev_fail else "not_evaluated"
                if prev_fail and any(k == (g, i) and prev_fail[0] < w < t for (k, w) in lost) \
                        and any(m[0] == 10 and m[1] == g and m[2] == t for m in run):
                    # the graph did start a fresh cycle; the node still holds the slot of a wake-up that was lost
                    kind = "tick_swallowed_after_captured_error"
                fails.append((kind, "node (%d,%d) not evaluated at %d although its active input %d (bound to %s) ticked%s"
                              % (g, i, t, s, ep, "; its graph abandoned a cycle at %s after a captured error" % prev_fail if prev_fail else "")))
    # every cycle of a wrapped graph after an abandoned one starts afresh (it is announced and scans from node 0)
    for g, times in failed_at.items():
        owner = pc["parent"].get(g)
        for l in run:
            if l[0] == 11 and owner and (l[1], l[2]) == owner and any(x < l[3] for x in times):
                if not any(m[0] == 10 and m[1] == g and m[2] == l[3] for m in run):
                    fails.append(("lost_tick_after_captured_error", "owner %s evaluated at %d but its child graph %d did not start a cycle "
                                  "(earlier cycle(s) %s ended with a captured error)" % (owner, l[3], g, [x for x in times if x < l[3]])))
    # ---- non-interference with the fault-free run
    if clean_run is not None:
        if any(l[0] == 19 for l in clean_run):
            fails.append(("clean_run_failed", "the run without faults ended with %s" % [l for l in clean_run if l[0] == 19][0]))
        for key in sorted(pc["clean"]):
            a = [l for l in run if l[0] in (11, 12, 14) and (l[1], l[2]) == key]
            b = [l for l in clean_run if l[0] in (11, 12, 14) and (l[1], l[2]) == key]
            if a != b:
                k = next((x for x in range(max(len(a), len(b))) if x >= len(a) or x >= len(b) or a[x] != b[x]), 0)
                fails.append(("interference", "node %s does not depend on a failing node but its trace differs from the fault-free run at "
                              "element %d: %s vs %s" % (key, k, a[k:k + 1], b[k:k + 1])))
        if not th:
            if run != clean_run:
                fails.append(("interference", "no throw happened but the two runs differ"))


def oracle(prop, case, out):
    """Direct, model-independent statement of C09 / C15 on the implementation's own trace."""
    if not isinstance(out, list):
        return [("crash", str(out))]
    pc = parse_case(case)
    runs = split_runs(out)
    fails = []
    if any(l[0] == 18 for l in runs[0]):
        return [("build_error", "the driver could not build the program")]
    if pc["paired"]:
        oracle_c15(pc, runs, fails)
    else:
        if any(l[0] == 19 for l in runs[0]):
            fails.append(("run_stopped", "run ended with %s" % [l for l in runs[0] if l[0] == 19][0]))
        else:
            oracle_c09(pc, runs[0], fails)
    return fails


PROP_KINDS = {
    "C01": {"evaluated_twice", "pause_not_resumed", "child_early", "child_clock_ahead", "child_outside_owner", "node_outside_cycle",
            "cycle_order_strict", "run_stopped", "build_error", "stale_read", "wake_lost"},
    # C02 names "work inside a nested child" among the wake-ups a simulation run must honour
    "C02": {"wake_lost", "wake_lost_after_captured_error", "child_early", "child_clock_ahead", "build_error"},
    # C18: a wake-up requested through the node scheduler survives an exception captured at the node
    "C18": {"wake_lost", "build_error"},
    "C09": {"nested_differs", "child_early", "child_clock_ahead", "child_outside_owner", "cycle_order", "node_outside_cycle",
            "wake_lost", "stale_read", "run_stopped", "trace_shape", "build_error", "phantom_tick_forwarding_rebind", "phantom_tick",
            "evaluated_twice", "pause_not_resumed", "poke_lost", "stale_clamp_depth2", "sampled_at_root_start_nested_only"},
    "C15": {"run_stopped", "uncaptured_swallowed", "error_tick_missing", "error_tick_twice", "error_message", "error_tick_spurious",
            "error_tick_secondary", "lost_tick_after_captured_error", "not_evaluated", "interference", "clean_run_failed",
            "child_early", "wake_lost", "build_error", "wake_lost_after_captured_error", "tick_swallowed_after_captured_error"},
}


def shrink(case):
    """Delta debugging on script lines, then on the window and values."""
    heads = [l for l in case if l[0] != 3]
    ops = [l for l in case if l[0] == 3]
    for i in range(len(ops)):
        yield heads + ops[:i] + ops[i + 1:]
    for idx, l in enumerate(case):
        if l[0] == 1 and l[2] - l[1] > 2:
            yield case[:idx] + [[1, l[1], l[2] - 1]] + case[idx + 1:]
        if l[0] == 3 and l[4] in (1, 6, 7) and l[5] not in (0, 1):
            yield case[:idx] + [l[:5] + [1 if l[5] > 0 else 0] + l[6:]] + case[idx + 1:]
