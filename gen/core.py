"""Family `core`: flat graphs of native nodes over TS<int64> under the real simulation executor.

Case lines
  1 start end
  2 i uses_sched sched_on_start has_out nin valid_mode (src active required)*
     active: 0 passive by the node's own declaration (schema.active_inputs), 1 active, 2 declared active but
     carrying the wiring-time passive marker (NodeBuilder::with_passive_inputs), 3 passive + marker.
     Only 1 is subscribed at start.  Markers that would leave a node with declared-active inputs without any
     active input are refused by the builder (observation line 18 2).
     required: bit 0 = the slot is required valid (valid selector / default: every slot); bits 1-2 = role:
     0 plain TS<int> slot, 1 / 2 first / second element of ONE slot of type TSL<TS<int>,2> whose two elements are
     bound to two producers (two consecutive entries, same active / required / all-valid flags); bit 3 = the slot is
     listed in schema.all_valid_inputs.  A list slot is valid when one element is, all-valid when both are.
  3 i k code a b          op for node i in its k-th user-code run (k=-1 start hook, k=-2 default)
     code 1 schedule(now+a, tag b)  2 un_schedule(tag b)  3 un_schedule()  4 pop_tag(b)  5 reset()
          6 emit a + sum(valid inputs)  7 graph.schedule_node(self, now+a)  8 throw
          9 input[a].make_passive()  10 input[a].make_active()   (run-time activation)
          11 invalidate the node's own output (TSDataMutationView::invalidate)
Observation lines
  10 t                     root cycle at t
  11 i t                   node i evaluated by the graph at t
  12 i t k now? next (valid modified value lmt)*   user code ran (k-th run)
  13 i t opidx next is_sched is_now (has time now?)x3 extra   scheduler queries after op opidx
  14 i t v                 emitted v
  15 i valid v lmt         final output
  16 i t did               the node invalidated its output at t (did = 0: it held no value, nothing happened)
  18 code                  the builder refused the program (2: passive markers deactivate every input)
  19 code                  exception escaped run (2 user throw, 3 schedule in the past)
"""
import random

NAME = "core"
DRIVER_SRCS = ["core_driver.cpp"]
MODEL_FAMILY = "core"
MODE = "diff"

TAGS = [0, 1, 2, 3]


def _sched_op(rng, start_hook=False, allow_neg=True):
    r = rng.random()
    if r < 0.55:
        deltas = [0, 1, 1, 2, 3, 5] + ([-1] if allow_neg else [])
        return [1, rng.choice(deltas), rng.choice(TAGS)]
    if r < 0.67:
        return [2, 0, rng.choice(TAGS[1:])]
    if r < 0.77:
        return [3, 0, 0]
    if r < 0.90:
        return [4, 0, rng.choice(TAGS[1:])]
    return [5, 0, 0]


def gen(rng, tier, prop):
    n = rng.randint(1, 6 if tier == "quick" else 9)
    start = rng.randint(1, 3)
    end = start + rng.randint(4, 14 if tier == "quick" else 30)
    case = [[1, start, end]]
    nodes = []
    outs = []
    sched_w = {"C18": 0.85, "C02": 0.7, "C03": 0.45}.get(prop, 0.6)
    for i in range(n):
        nin = 0 if not outs or rng.random() < (0.35 if i > 0 else 1.0) else rng.randint(1, min(4, len(outs) + 1))
        ins = []
        for _ in range(nin):
            src = rng.choice(outs)
            ra = rng.random()
            act = 1 if ra < 0.62 else (0 if ra < 0.80 else (2 if ra < 0.94 else 3))
            ins.append((src, act, 1 if rng.random() < 0.6 else 0))
        if nin >= 2 and rng.random() < 0.12:
            # an explicit selector with a gap and a marker behind the gap: active, passive, ..., active + marked
            ins[0] = (ins[0][0], 1, ins[0][2])
            ins[1] = (ins[1][0], 0, ins[1][2])
            ins[-1] = (ins[-1][0], 2, ins[-1][2]) if nin > 2 else ins[-1]
            if nin > 2 and rng.random() < 0.5:
                ins[0] = (ins[0][0], 2, ins[0][2])
                ins[-1] = (ins[-1][0], 1, ins[-1][2])
        if ins and not any(a == 1 for _, a, _ in ins) and (rng.random() < 0.7 or any(a == 2 for _, a, _ in ins)):
            # (a marker may not deactivate every input of a node that declares active ones: keep the refusal rare)
            if rng.random() < 0.97 or not any(a == 2 for _, a, _ in ins):
                s0 = ins[0]
                ins[0] = (s0[0], 1, s0[2])
        for k in ([0, 2] if nin >= 4 and rng.random() < 0.35 else ([rng.randrange(nin - 1)] if nin >= 2 and rng.random() < 0.22 else [])):
            # list-shaped slots: two consecutive entries bound to two producers (with four inputs sometimes two such slots)
            act = 1 if 1 in (ins[k][1], ins[k + 1][1]) else ins[k][1]
            req = ins[k][2] & 1
            allv = 8 if rng.random() < 0.6 else 0
            ins[k] = (ins[k][0], act, req + 2 + allv)
            ins[k + 1] = (ins[k + 1][0], act, req + 4 + allv)
        uses_sched = 1 if rng.random() < sched_w else 0
        has_out = 1 if rng.random() < 0.75 or i == 0 else 0
        sos = 1 if (nin == 0 and rng.random() < 0.7) or rng.random() < 0.1 else 0
        vmode = 1 if ins and rng.random() < 0.4 else 0
        line = [2, i, uses_sched, sos, has_out, nin, vmode]
        for s in ins:
            line += list(s)
        case.append(line)
        nodes.append((uses_sched, sos, has_out, ins))
        if has_out:
            outs.append(i)
    for i, (us, sos, ho, ins) in enumerate(nodes):
        # start hook
        if us and (rng.random() < 0.5 or (not ins and not sos)):
            for _ in range(rng.randint(1, 3)):
                op = _sched_op(rng, True)
                if op[0] == 1:
                    case.append([3, i, -1] + op)
        elif not us and not ins and not sos:
            case.append([3, i, -1, 7, rng.choice([0, 0, 1, 2]), 0])
        # default script
        dflt = []
        if ho and rng.random() < 0.85:
            dflt.append([6, rng.randint(-3, 9), 0])
            if rng.random() < 0.04:
                dflt.append([11, 0, 0])
        if us and rng.random() < 0.6:
            dflt.append([1, rng.choice([1, 1, 2, 3]), rng.choice(TAGS)])
        if not us and rng.random() < 0.15:
            dflt.append([7, rng.choice([0, 1, 2, 4]), 0])
        for op in dflt:
            case.append([3, i, -2] + op)
        # specific runs
        for k in range(rng.randint(0, 4)):
            if rng.random() < 0.6:
                ops = []
                for _ in range(rng.randint(0, 4)):
                    r = rng.random()
                    if us and r < 0.7:
                        ops.append(_sched_op(rng))
                    elif ho and r < 0.82:
                        ops.append([6, rng.randint(-3, 9), 0])
                    elif ho and r < 0.9:
                        ops.append([11, 0, 0])
                    elif r < 0.96:
                        ops.append([7, rng.choice([0, 1, 2, 4]), 0])
                    elif r < 0.975 and tier != "quick":
                        ops.append([7, -1, 0])
                    elif r < 0.985:
                        ops.append([8, 0, 0])
                    elif ins:
                        # plain slots, and list slots through their first entry (the slot is (un)subscribed as a whole)
                        plain = [k for k, e in enumerate(ins) if (e[2] >> 1) & 3 in (0, 1)]
                        if plain:
                            ops.append([rng.choice([9, 9, 10]), rng.choice(plain), 0])
                if not ops:
                    ops = [[0, 0, 0]]  # explicit empty script for run k (overrides the default)
                for op in ops:
                    case.append([3, i, k] + op)
        heads = [k for k, e in enumerate(ins) if (e[2] >> 1) & 3 == 1]
        if len(heads) >= 2 and rng.random() < 0.6:
            # two list slots: unsubscribe one of them at run time (the other must keep waking the node)
            k = rng.randint(0, 2)
            keep = [l for l in case if l[0] == 3 and l[1] == i and l[2] == k]
            if not keep and ho:
                case.append([3, i, k, 6, rng.randint(0, 5), 0])
            case.append([3, i, k, 9, rng.choice(heads), 0])
    return case


def no_lists(case):
    """Turn list-shaped slots into plain slots (for families whose drivers embed core programs without them)."""
    out = []
    for l in case:
        if l[0] == 2:
            l = list(l)
            for s in range(l[5]):
                l[9 + 3 * s] &= 1
        out.append(l)
    return out


def no_refusal(case):
    """Rewrite node lines so that the builder accepts every passive-marker set (used by families that embed
    core programs and do not model the refusal)."""
    out = []
    for l in case:
        if l[0] == 2:
            l = list(l)
            codes = [l[8 + 3 * s] for s in range(l[5])]
            if any(c in (2, 3) for c in codes) and any(c in (1, 2) for c in codes) and not any(c == 1 for c in codes):
                k = next(s for s in range(l[5]) if l[8 + 3 * s] == 2)
                l[8 + 3 * k] = 1
        out.append(l)
    return out


# ---------------------------------------------------------------- helpers
def parse_case(case):
    start, end = 1, 10
    nodes = []
    scripts = {}
    for l in case:
        if l[0] == 1:
            start, end = l[1], l[2]
        elif l[0] == 2:
            ins = [(l[7 + 3 * s], l[8 + 3 * s], l[9 + 3 * s] & 1) for s in range(l[5])]
            role = [(l[9 + 3 * s] >> 1) & 3 for s in range(l[5])]
            allv = [(l[9 + 3 * s] >> 3) & 1 for s in range(l[5])]
            mate = [ins[s + 1][0] if role[s] == 1 and s + 1 < l[5] else (ins[s - 1][0] if role[s] == 2 and s > 0 else None) for s in range(l[5])]
            nodes.append(dict(us=l[2], sos=l[3], ho=l[4], vmode=l[6], ins=ins, role=role, allv=allv, mate=mate))
        elif l[0] == 3:
            scripts.setdefault((l[1], l[2]), []).append((l[3], l[4], l[5]))
    return start, end, nodes, scripts


def script_for(scripts, i, k):
    if (i, k) in scripts:
        return scripts[(i, k)]
    if k >= 0:
        return scripts.get((i, -2), [])
    return []


def stats(case, out):
    start, end, nodes, scripts = parse_case(case)
    cyc = sum(1 for l in out if l and l[0] == 10) if isinstance(out, list) else 0
    return {"nodes": len(nodes), "cycles": cyc,
            "sched_nodes": sum(n["us"] for n in nodes),
            "passive_inputs": sum(1 for n in nodes for s in n["ins"] if s[1] != 1),
            "marked_inputs": sum(1 for n in nodes for s in n["ins"] if s[1] in (2, 3)),
            "selector_gap_marker": sum(1 for n in nodes if any(a in (0, 3) for (_s, a, _r) in n["ins"][:-1])
                                       and any(a == 2 and any(b in (0, 3) for (_s2, b, _r2) in n["ins"][:k])
                                               for k, (_s, a, _r) in enumerate(n["ins"]))),
            "list_slots": sum(1 for n in nodes for r in n["role"] if r == 1),
            "all_valid_slots": sum(1 for n in nodes for k, r in enumerate(n["role"]) if r == 1 and n["allv"][k]),
            "invalidations": sum(1 for l in out if l and l[0] == 16 and l[3] == 1) if isinstance(out, list) else 0,
            "build_refused": int(any(l and l[0] == 18 for l in out)) if isinstance(out, list) else 0,
            "ops": sum(len(v) for v in scripts.values()),
            "error": int(any(l and l[0] == 19 for l in out)) if isinstance(out, list) else 1}


def nontrivial(case, out):
    if not isinstance(out, list):
        return False
    return sum(1 for l in out if l and l[0] == 12) >= 2 and sum(1 for l in out if l and l[0] == 10) >= 2


# ---------------------------------------------------------------- property oracle
def oracle(prop, case, out):
    """Direct, model-independent statement of C02 / C03 / C18 on the implementation's own trace.
    Returns a list of (kind, detail) failures; kind is used to match known findings."""
    fails = []
    if not isinstance(out, list):
        return [("crash", str(out))]
    start, end, nodes, scripts = parse_case(case)
    n = len(nodes)
    # the builder refuses passive markers that deactivate every input of a node declaring active ones
    refuse = any(any(a in (2, 3) for (_s, a, _r) in nd["ins"]) and any(a in (1, 2) for (_s, a, _r) in nd["ins"])
                 and not any(a == 1 for (_s, a, _r) in nd["ins"]) for nd in nodes)
    if any(l[0] == 18 for l in out) or refuse:
        if refuse and out == [[18, 2]]:
            return []
        return [("build_error", "builder refusal expected=%s, trace %s" % (refuse, out[:2]))]
    pending = [set() for _ in range(n)]          # spec: the set of pending (time, tag)
    abandoned = [set() for _ in range(n)]        # times once requested through the scheduler and later cancelled / replaced
    raw = [None] * n                             # the raw (stateless) request outstanding: the graph slot keeps only the earliest (by design)
    raw_dropped = set()                          # times raw-requested and then superseded by an earlier request / evaluation (min semantics)

    def raw_req(i, w, now):
        if raw[i] is None or w < raw[i]:
            if raw[i] is not None:
                raw_dropped.add(raw[i])
            raw[i] = w
        else:
            raw_dropped.add(w)
    outv = [None] * n                            # (value, time) of last emission; None: never written or invalidated since
    ever_invalidated = set()
    actv = [[a == 1 for (_s, a, _r) in nd["ins"]] for nd in nodes]   # current activity of every input (run-time make_active / make_passive)
    emitted_at = {}                              # (node, t) -> True
    err = any(l[0] == 19 for l in out)
    cycles = [l[1] for l in out if l[0] == 10]
    # ---- C02: cycle times
    for a, b in zip(cycles, cycles[1:]):
        if not a < b:
            fails.append(("cycle_order", "cycle times not strictly increasing: %d then %d" % (a, b)))
    for t in cycles:
        if t < start or t >= end:
            fails.append(("cycle_window", "cycle at %d outside [%d,%d)" % (t, start, end)))

    def spec_sched(i, now, started, when, tag):
        if (when <= now) if started else (when < now):
            return
        if tag != 0:
            for e in [e for e in pending[i] if e[1] == tag]:
                pending[i].discard(e)
                if e[0] != when:
                    abandoned[i].add(e[0])
        pending[i].add((when, tag))

    def spec_cancel(i, pred):
        for e in [e for e in pending[i] if pred(e)]:
            pending[i].discard(e)
            abandoned[i].add(e[0])

    def check_queries(i, now, l, where):
        # l: 13 i t opidx next is_sched is_now (has time isnow)*3 extra
        ps = pending[i]
        nxt = min((e[0] for e in ps), default=0)
        exp = [nxt, int(bool(ps)), int(bool(ps) and nxt == now)]
        for tg in (1, 2, 3):
            tt = [e[0] for e in ps if e[1] == tg]
            if len(tt) > 1:
                fails.append(("tag_multi", "node %d tag %d holds %d pending times" % (i, tg, len(tt))))
            exp += [int(bool(tt)), tt[0] if tt else 0, int(bool(tt) and tt[0] == now)]
        got = l[4:4 + len(exp)]
        if got != exp:
            fails.append(("query_mismatch", "node %d at %d %s: queries %s but pending set %s implies %s"
                          % (i, now, where, got, sorted(ps), exp)))

    # ---- start hooks (performed in node order before the first cycle); their 13-lines come first
    idx = 0
    for i in range(n):
        for (code, a, b) in script_for(scripts, i, -1):
            if code == 1 and nodes[i]["us"]:
                spec_sched(i, start, False, start + a, b)
                if idx < len(out) and out[idx][0] == 13:
                    check_queries(i, start, out[idx], "in start")
                    idx += 1
            elif code == 7:
                if a >= 0:
                    raw_req(i, start + a, start)
        if nodes[i]["sos"]:
            raw_req(i, start, start)

    # ---- replay the trace
    cur = None
    evaluated = {}      # t -> set of nodes with line 11
    ran = {}            # t -> set of nodes with line 12
    cause = {}          # (node, t) -> reason
    pos = idx
    L = len(out)
    run_idx = [0] * n

    def due(i, t):
        return any(e[0] == t for e in pending[i])

    def finish_eval(i, t):
        # after the evaluation of node i at t the due events are consumed
        for e in [e for e in pending[i] if e[0] <= t]:
            pending[i].discard(e)
        cur_raw[i] = False

    def node_ready(nd):
        # every slot required valid holds a value (a list slot: one of its two producers does), and every element
        # of a slot in the all-valid selector holds a value
        for k, (src, _a, req) in enumerate(nd["ins"]):
            if nd["vmode"] == 0 or req:
                if outv[src] is None and (nd["mate"][k] is None or outv[nd["mate"][k]] is None):
                    return False
            if nd["allv"][k] and outv[src] is None:
                return False
        return True

    open_eval = None
    cur_raw = {}
    woke = {}
    while pos < L:
        l = out[pos]
        if l[0] == 10:
            if open_eval is not None:
                finish_eval(*open_eval)
                open_eval = None
            # wake-ups that should have happened strictly before this cycle
            for i in range(n):
                for e in sorted(pending[i]):
                    if e[0] < l[1]:
                        fails.append(("missed_wakeup", "node %d pending %s not honoured before cycle %d" % (i, e, l[1])))
                        pending[i].discard(e)
                if raw[i] is not None and raw[i] < l[1]:
                    fails.append(("missed_raw", "node %d raw request at %d not honoured before cycle %d" % (i, raw[i], l[1])))
                    raw[i] = None
            cur = l[1]
            evaluated[cur] = set()
            ran[cur] = set()
        elif l[0] == 11:
            if open_eval is not None:
                finish_eval(*open_eval)
            i, t = l[1], l[2]
            if i in evaluated.get(t, set()):
                fails.append(("evaluated_twice", "node %d evaluated twice at %d" % (i, t)))
            if evaluated.get(t) and i <= max(evaluated[t]):
                fails.append(("scan_order", "node %d evaluated at %d after node %d: the scan went backwards" % (i, t, max(evaluated[t]))))
            evaluated.setdefault(t, set()).add(i)
            # C03 / C02: why is it evaluated?
            why = []
            if due(i, t):
                why.append("sched")
            if raw[i] == t:
                why.append("raw")
            elif raw[i] is not None:
                raw_dropped.add(raw[i])   # the slot is consumed by this earlier evaluation (min semantics, by design)
            raw[i] = None
            for s_i, (src, _a, _req) in enumerate(nodes[i]["ins"]):
                if woke.get((i, t, s_i)):
                    why.append("input")
            if not why:
                kind = "spurious_eval_abandoned" if t in abandoned[i] else "spurious_eval"
                fails.append((kind, "node %d evaluated at %d with no active input ticked, nothing due, nothing requested"
                              " (abandoned times %s)" % (i, t, sorted(abandoned[i]))))
            cause[(i, t)] = why
            open_eval = (i, t)
            # C03: evaluated and ready <=> user code runs (the 12-line follows immediately)
            nd = nodes[i]
            is_ready = node_ready(nd)
            ran_now = pos + 1 < L and out[pos + 1][0] == 12 and out[pos + 1][1] == i and out[pos + 1][2] == t
            if is_ready and not ran_now and not err:
                fails.append(("not_run", "node %d evaluated at %d with all required inputs valid but user code did not run" % (i, t)))
        elif l[0] == 12:
            i, t, k = l[1], l[2], l[3]
            ran.setdefault(t, set()).add(i)
            nd = nodes[i]
            if k != run_idx[i]:
                fails.append(("run_index", "node %d run index %d expected %d" % (i, k, run_idx[i])))
            run_idx[i] = k + 1
            if open_eval != (i, t):
                fails.append(("run_without_eval", "node %d user code at %d outside its evaluation" % (i, t)))
            # inputs read the latest value of the producer
            for s, (src, act, req) in enumerate(nd["ins"]):
                valid, mod, val, lmt = l[6 + 4 * s: 10 + 4 * s]
                ev = outv[src]
                exp = [1, int(ev[1] == t), ev[0], ev[1]] if ev else [0, 0, 0, 0]
                if not ev and src in ever_invalidated:
                    # an invalidated producer: C03 asks that the input holds no value; what modified / last-modified
                    # read for an invalid input is C04's subject (recorded there), not compared here
                    exp = [0, mod, 0, lmt]
                if [valid, mod, val, lmt] != exp:
                    fails.append(("stale_read", "node %d input %d at %d reads %s, producer state implies %s"
                                  % (i, s, t, [valid, mod, val, lmt], exp)))
                if (nd["vmode"] == 0 or req) and not ev and (nd["mate"][s] is None or outv[nd["mate"][s]] is None):
                    fails.append(("ran_not_ready", "node %d ran at %d with required input %d invalid" % (i, t, s)))
                if nd["allv"][s] and not ev:
                    fails.append(("ran_not_ready", "node %d ran at %d with element %d of an all-valid slot holding no value" % (i, t, s)))
            if nd["us"]:
                exp_now = int(due(i, t))
                if l[4] != exp_now:
                    fails.append(("query_mismatch", "node %d is_scheduled_now=%d at %d but pending %s"
                                  % (i, l[4], t, sorted(pending[i]))))
            # perform the ops of this run in the spec
            opi = 0
            p2 = pos + 1
            for (code, a, b) in script_for(scripts, i, k):
                if code in (1, 2, 3, 4, 5) and nd["us"]:
                    if code == 1:
                        spec_sched(i, t, True, t + a, b)
                    elif code == 2:
                        spec_cancel(i, lambda e: e[1] == b)
                    elif code == 3:
                        if pending[i]:
                            first = min(pending[i])
                            spec_cancel(i, lambda e: e == first)
                    elif code == 4:
                        spec_cancel(i, lambda e: e[1] == b)
                    elif code == 5:
                        spec_cancel(i, lambda e: True)
                    while p2 < L and out[p2][0] in (14, 16):
                        p2 += 1
                    if p2 < L and out[p2][0] == 13 and out[p2][1] == i and out[p2][3] == opi:
                        check_queries(i, t, out[p2], "after op %d of run %d" % (opi, k))
                        p2 += 1
                    else:
                        if not err:
                            fails.append(("trace_shape", "missing 13-line for node %d run %d op %d" % (i, k, opi)))
                elif code == 7:
                    if a > 0:
                        raw_req(i, t + a, t)
                        cur_raw[i] = True
                    elif a == 0 and raw[i] is not None:
                        raw_dropped.add(raw[i])   # schedule_now while being evaluated overrides a later raw request
                        raw[i] = None
                elif code in (9, 10) and 0 <= a < len(nd["ins"]) and nd["role"][a] in (0, 1):
                    actv[i][a] = (code == 10)
                    if nd["role"][a] == 1 and a + 1 < len(nd["ins"]):
                        actv[i][a + 1] = (code == 10)
                elif code == 6 and nd["ho"]:
                    pass
                opi += 1
        elif l[0] == 16:
            i, t, did = l[1], l[2], l[3]
            if did != int(outv[i] is not None):
                fails.append(("invalidate_result", "node %d invalidate at %d reports %d, output valid before: %s" % (i, t, did, outv[i] is not None)))
            if did:
                outv[i] = None
                ever_invalidated.add(i)
                for j in range(n):                # an invalidation notifies the subscribed inputs like a write
                    for s_j, (src, _a, _r) in enumerate(nodes[j]["ins"]):
                        if src == i and actv[j][s_j]:
                            woke[(j, t, s_j)] = True
        elif l[0] == 14:
            i, t, v = l[1], l[2], l[3]
            outv[i] = (v, t)
            emitted_at[(i, t)] = True
            for j in range(n):                    # which inputs are subscribed at the moment of the write
                for s_j, (src, _a, _r) in enumerate(nodes[j]["ins"]):
                    if src == i and actv[j][s_j]:
                        woke[(j, t, s_j)] = True
        pos += 1
    if open_eval is not None:
        finish_eval(*open_eval)
    if not err:
        for i in range(n):
            for e in sorted(pending[i]):
                if start <= e[0] < end:
                    fails.append(("missed_wakeup", "node %d pending %s never honoured (end %d)" % (i, e, end)))
            if raw[i] is not None and start <= raw[i] < end:
                fails.append(("missed_raw", "node %d raw request at %d never honoured" % (i, raw[i])))
        # C03 "exactly when": evaluated and ready => user code ran; active input ticked => evaluated
        for t in cycles:
            evs = evaluated.get(t, set())
            if not evs:
                if any(t in abandoned[i] for i in range(n)):
                    fails.append(("spurious_cycle_abandoned", "cycle at %d evaluated no node; the time is a cancelled / replaced scheduler request" % t))
                elif t not in raw_dropped:
                    fails.append(("empty_cycle", "cycle at %d evaluated no node" % t))
            elif all(not cause.get((i, t)) for i in evs):
                kind = "spurious_cycle_abandoned" if all(t in abandoned[i] for i in evs) else "spurious_cycle"
                fails.append((kind, "cycle at %d: nothing (still) requested it; evaluated nodes %s" % (t, sorted(evs))))
            # C03: an active input ticked => the consumer is evaluated in that cycle
            for i in range(n):
                for s_i, (src, _a, _r) in enumerate(nodes[i]["ins"]):
                    if woke.get((i, t, s_i)) and i not in evs:
                        fails.append(("not_evaluated", "node %d not evaluated at %d although active input from %d ticked" % (i, t, src)))
    # emitted value is the function of the inputs read
    return fails


PROP_KINDS = {
    "C01": {"evaluated_twice", "scan_order", "stale_read", "not_evaluated", "run_without_eval"},
    "C02": {"cycle_order", "cycle_window", "missed_wakeup", "missed_raw", "empty_cycle", "spurious_cycle", "spurious_cycle_abandoned"},
    "C03": {"missed_wakeup", "spurious_eval", "spurious_eval_abandoned", "stale_read", "ran_not_ready", "run_without_eval", "run_index",
            "evaluated_twice", "not_evaluated", "not_run", "emit_value", "build_error", "invalidate_result"},
    "C18": {"query_mismatch", "tag_multi", "missed_wakeup", "spurious_eval_abandoned", "trace_shape"},
}


def shrink(case):
    """Yield smaller variants (delta debugging on script lines, then values)."""
    heads = [l for l in case if l[0] != 3]
    ops = [l for l in case if l[0] == 3]
    for i in range(len(ops)):
        yield heads + ops[:i] + ops[i + 1:]
    # drop the last node when nothing reads it
    nodes = [l for l in case if l[0] == 2]
    if len(nodes) > 1:
        last = len(nodes) - 1
        used = any(l[7 + 3 * s] == last for l in nodes for s in range(l[5]))
        if not used:
            yield [l for l in case if not (l[0] == 2 and l[1] == last) and not (l[0] == 3 and l[1] == last)]
    for idx, l in enumerate(case):
        if l[0] == 1 and l[2] - l[1] > 2:
            yield case[:idx] + [[1, l[1], l[2] - 1]] + case[idx + 1:]
        if l[0] == 3 and l[4] not in (0, 1):
            yield case[:idx] + [l[:4] + [1 if l[4] > 0 else 0] + l[5:]] + case[idx + 1:]
        if l[0] == 2 and l[2] == 1:
            pass
