"""Family `resolve` (property C19): operator overload resolution.

A case is an overload family, registration orders and queries; everything is integers.

Token encodings (prefix form, shared by driver, model and this file)
  scalar type   1 a | 2 n T* | 3 T (tuple[T,...]) | 4 T (set) | 5 K V (map)          atoms: 0 bool 1 int 2 float 3 str 4 int32
                | 7 id n P* (named Bundle `id` with its n declared parent bundles, in declaration order)
  ts type       10 S (TS) | 11 S (TSS) | 12 n T (TSL, n=0 dynamic) | 13 K T (TSD) | 14 period min S (TSW)
                | 15 name n (f T)* (TSB, name 0 = un-named) | 16 T (REF) | 17 (SIGNAL)
  scalar pat    20 v n C* (var + constraints) | 21 S (concrete) | 22 0 | 22 1 P (UnknownTuple) | 23 P (tuple[P,...])
                | 24 n P* (fixed tuple) | 25 P (set) | 26 P P (map)
  ts pat        30 v n C* (var) | 31 T (concrete) | 32 SP (TS) | 33 SP (TSS) | 34 0 n P | 34 1 v n c* P (TSL fixed / size var)
                | 35 SP P (TSD) | 36 any period min SP (TSW) | 37 named name n (f P)* (TSB) | 38 v (TSB schema var)
                | 39 P (REF) | 40 (SIGNAL)
Case lines
  2 label has_out [out-pat] np ((0 ts-pat | 1 scalar-pat) default)*      one overload
      default of a parameter: 0 required | 1 None default | 2 S default value of schema S (taken when the call omits it)
  3 n i*                                                        one registration order (indices into the overload list)
  4 out_required(-1|0|1) has_expected [T] ninit (store var payload)* nhints h* nargs (0 T | 1 S | 2 | 3)*    one query
      arg kinds: 0 time-series of schema T, 1 scalar value of schema S, 2 null source, 3 absent scalar (None)
  7 n (store var payload)*                                      a ResolutionMap bind script (store 0 ts, 1 scalar, 2 size)
  8 S S                                                         probe: bundle_is_a / bundle_inheritance_distance(candidate, base)
Observation lines
  59 k is_a dist      probe k (dist -1 = none)
  56 i rank           static rank of overload i (operator_rank)
  57 k ok*            script k: 1 per accepted bind, 0 per rejected (std::logic_error)
  58 k store var payload      final map of script k (sorted)
  55 q i kind rank    overload i registered ALONE, query q: kind 0 selected / 1 no match / 3 other exception; effective rank
  50 o q kind label rank      order o, query q: 0 selected, 1 no match, 2 ambiguous, 3 other exception
  51 o q store var payload    bindings of the selection (sorted)
  52 o q T            resolved output schema of the selection
  53 o q label rank   tied candidates of an ambiguity (sorted)
  99                  malformed case
"""
import itertools

NAME = "resolve"
DRIVER_SRCS = ["resolve_driver.cpp"]
MODEL_FAMILY = "resolve"
MODE = "diff"
BUDGET = {"quick": 1500, "thorough": 35000}

KINDS = {"crash", "order_dependent", "wrong_selection", "missed_ambiguity", "false_ambiguity", "false_nomatch",
         "false_match", "rank_not_min", "tied_set", "unsound_match", "output_not_substitution", "bind_accepts_rebind",
         "bind_rejects_consistent", "exception_escaped", "malformed_output", "false_reject", "false_accept",
         "inheritance_distance_not_shortest", "inheritance_order_dependent", "effective_rank_unexpected"}
PROP_KINDS = {"C19": set(KINDS) | {"generic_scalar_beats_structured"}}  # S1 is a recorded known finding (known_findings.json C19-S1)

ATOMS = [0, 1, 2, 3, 4]
HASHABLE_ATOMS = [0, 1, 3, 4]

# --------------------------------------------------------------------------- encoding


def enc_sty(s):
    k = s[0]
    if k == "a":
        return [1, s[1]]
    if k == "tup":
        return [2, len(s[1])] + [x for e in s[1] for x in enc_sty(e)]
    if k == "lst":
        return [3] + enc_sty(s[1])
    if k == "set":
        return [4] + enc_sty(s[1])
    if k == "map":
        return [5] + enc_sty(s[1]) + enc_sty(s[2])
    if k == "bun":
        return [7, s[1], len(s[2])] + [x for e in s[2] for x in enc_sty(e)]
    raise ValueError(s)


def enc_tty(t):
    k = t[0]
    if k == "ts":
        return [10] + enc_sty(t[1])
    if k == "tss":
        return [11] + enc_sty(t[1])
    if k == "tsl":
        return [12, t[2]] + enc_tty(t[1])
    if k == "tsd":
        return [13] + enc_sty(t[1]) + enc_tty(t[2])
    if k == "tsw":
        return [14, t[2], t[3]] + enc_sty(t[1])
    if k == "tsb":
        return [15, t[1], len(t[2])] + [x for f, ft in t[2] for x in [f] + enc_tty(ft)]
    if k == "ref":
        return [16] + enc_tty(t[1])
    if k == "sig":
        return [17]
    raise ValueError(t)


def enc_spat(p):
    k = p[0]
    if k == "sv":
        return [20, p[1], len(p[2])] + [x for c in p[2] for x in enc_sty(c)]
    if k == "sc":
        return [21] + enc_sty(p[1])
    if k == "unk0":
        return [22, 0]
    if k == "unk1":
        return [22, 1] + enc_spat(p[1])
    if k == "hom":
        return [23] + enc_spat(p[1])
    if k == "fix":
        return [24, len(p[1])] + [x for c in p[1] for x in enc_spat(c)]
    if k == "pset":
        return [25] + enc_spat(p[1])
    if k == "pmap":
        return [26] + enc_spat(p[1]) + enc_spat(p[2])
    raise ValueError(p)


def enc_tpat(p):
    k = p[0]
    if k == "v":
        return [30, p[1], len(p[2])] + [x for c in p[2] for x in enc_tty(c)]
    if k == "c":
        return [31] + enc_tty(p[1])
    if k == "pts":
        return [32] + enc_spat(p[1])
    if k == "ptss":
        return [33] + enc_spat(p[1])
    if k == "ptsl":
        sz = p[1]
        head = [34, 0, sz[1]] if sz[0] == "n" else [34, 1, sz[1], len(sz[2])] + list(sz[2])
        return head + enc_tpat(p[2])
    if k == "ptsd":
        return [35] + enc_spat(p[1]) + enc_tpat(p[2])
    if k == "ptsw":
        return [36, 1 if p[1] else 0, p[2], p[3]] + enc_spat(p[4])
    if k == "ptsb":
        return [37, 1 if p[1] else 0, p[2], len(p[3])] + [x for f, fp in p[3] for x in [f] + enc_tpat(fp)]
    if k == "bv":
        return [38, p[1]]
    if k == "pref":
        return [39] + enc_tpat(p[1])
    if k == "psig":
        return [40]
    raise ValueError(p)


class Bad(Exception):
    pass


def _next(l, i):
    if i >= len(l):
        raise Bad()
    return l[i], i + 1


def _size(l, i):
    n, i = _next(l, i)
    if n < 0 or n > 1000:
        raise Bad()
    return n, i


def _count(l, i):
    n, i = _next(l, i)
    if n < 0 or n > 16:
        raise Bad()
    return n, i


def dec_sty(l, i):
    tag, i = _next(l, i)
    if tag == 1:
        a, i = _next(l, i)
        if a < 0 or a > 4:
            raise Bad()
        return ("a", a), i
    if tag == 2:
        n, i = _count(l, i)
        xs = []
        for _ in range(n):
            x, i = dec_sty(l, i)
            xs.append(x)
        return ("tup", tuple(xs)), i
    if tag == 3:
        e, i = dec_sty(l, i)
        return ("lst", e), i
    if tag == 4:
        e, i = dec_sty(l, i)
        return ("set", e), i
    if tag == 5:
        k, i = dec_sty(l, i)
        v, i = dec_sty(l, i)
        return ("map", k, v), i
    if tag == 7:
        b, i = _next(l, i)
        if b < 0:
            raise Bad()
        n, i = _count(l, i)
        xs = []
        for _ in range(n):
            x, i = dec_sty(l, i)
            xs.append(x)
        return ("bun", b, tuple(xs)), i
    raise Bad()


def mk_ref(t):
    return t if t[0] == "ref" else ("ref", t)


def dec_tty(l, i):
    tag, i = _next(l, i)
    if tag == 10:
        s, i = dec_sty(l, i)
        return ("ts", s), i
    if tag == 11:
        s, i = dec_sty(l, i)
        return ("tss", s), i
    if tag == 12:
        n, i = _size(l, i)
        e, i = dec_tty(l, i)
        return ("tsl", e, n), i
    if tag == 13:
        k, i = dec_sty(l, i)
        v, i = dec_tty(l, i)
        return ("tsd", k, v), i
    if tag == 14:
        p, i = _size(l, i)
        m, i = _size(l, i)
        s, i = dec_sty(l, i)
        return ("tsw", s, p, m), i
    if tag == 15:
        nm, i = _next(l, i)
        if nm < 0:
            raise Bad()
        n, i = _count(l, i)
        fs = []
        for _ in range(n):
            f, i = _next(l, i)
            t, i = dec_tty(l, i)
            fs.append((f, t))
        return ("tsb", nm, tuple(fs)), i
    if tag == 16:
        t, i = dec_tty(l, i)
        return mk_ref(t), i
    if tag == 17:
        return ("sig",), i
    raise Bad()


def dec_spat(l, i):
    tag, i = _next(l, i)
    if tag == 20:
        v, i = _next(l, i)
        n, i = _count(l, i)
        cs = []
        for _ in range(n):
            c, i = dec_sty(l, i)
            cs.append(c)
        return ("sv", v, tuple(cs)), i
    if tag == 21:
        s, i = dec_sty(l, i)
        return ("sc", s), i
    if tag == 22:
        h, i = _next(l, i)
        if h == 0:
            return ("unk0",), i
        if h != 1:
            raise Bad()
        c, i = dec_spat(l, i)
        return ("unk1", c), i
    if tag == 23:
        c, i = dec_spat(l, i)
        return ("hom", c), i
    if tag == 24:
        n, i = _count(l, i)
        xs = []
        for _ in range(n):
            x, i = dec_spat(l, i)
            xs.append(x)
        return ("fix", tuple(xs)), i
    if tag == 25:
        c, i = dec_spat(l, i)
        return ("pset", c), i
    if tag == 26:
        k, i = dec_spat(l, i)
        v, i = dec_spat(l, i)
        return ("pmap", k, v), i
    raise Bad()


def dec_tpat(l, i):
    tag, i = _next(l, i)
    if tag == 30:
        v, i = _next(l, i)
        n, i = _count(l, i)
        cs = []
        for _ in range(n):
            c, i = dec_tty(l, i)
            cs.append(c)
        return ("v", v, tuple(cs)), i
    if tag == 31:
        t, i = dec_tty(l, i)
        return ("c", t), i
    if tag == 32:
        s, i = dec_spat(l, i)
        return ("pts", s), i
    if tag == 33:
        s, i = dec_spat(l, i)
        return ("ptss", s), i
    if tag == 34:
        mode, i = _next(l, i)
        if mode == 0:
            n, i = _size(l, i)
            e, i = dec_tpat(l, i)
            return ("ptsl", ("n", n), e), i
        if mode != 1:
            raise Bad()
        v, i = _next(l, i)
        n, i = _count(l, i)
        cs = []
        for _ in range(n):
            c, i = _size(l, i)
            cs.append(c)
        e, i = dec_tpat(l, i)
        return ("ptsl", ("zv", v, tuple(cs)), e), i
    if tag == 35:
        k, i = dec_spat(l, i)
        v, i = dec_tpat(l, i)
        return ("ptsd", k, v), i
    if tag == 36:
        a, i = _next(l, i)
        p, i = _size(l, i)
        m, i = _size(l, i)
        if a not in (0, 1):
            raise Bad()
        s, i = dec_spat(l, i)
        return (("ptsw", True, 0, 0, s) if a == 1 else ("ptsw", False, p, m, s)), i
    if tag == 37:
        named, i = _next(l, i)
        nm, i = _next(l, i)
        if named not in (0, 1) or nm < 0:
            raise Bad()
        n, i = _count(l, i)
        fs = []
        for _ in range(n):
            f, i = _next(l, i)
            p, i = dec_tpat(l, i)
            fs.append((f, p))
        return ("ptsb", named == 1, nm, tuple(fs)), i
    if tag == 38:
        v, i = _next(l, i)
        return ("bv", v), i
    if tag == 39:
        p, i = dec_tpat(l, i)
        return ("pref", p), i
    if tag == 40:
        return ("psig",), i
    raise Bad()


def decode_case(case):
    """-> dict(ovs=[(label, has_out, out, params)], orders, queries, scripts) or None when malformed."""
    ovs, orders, queries, scripts, probes = [], [], [], [], []
    try:
        for l in case:
            tag = l[0]
            i = 1
            if tag == 2:
                label, i = _next(l, i)
                ho, i = _next(l, i)
                out = None
                if ho == 1:
                    out, i = dec_tpat(l, i)
                elif ho != 0:
                    raise Bad()
                n, i = _count(l, i)
                ps = []
                ds = []
                for _ in range(n):
                    kind, i = _next(l, i)
                    if kind == 0:
                        p, i = dec_tpat(l, i)
                        ps.append(("in", p))
                    elif kind == 1:
                        p, i = dec_spat(l, i)
                        ps.append(("sc", p))
                    else:
                        raise Bad()
                    dk, i = _next(l, i)
                    if dk == 0:
                        ds.append(None)
                    elif dk == 1:
                        ds.append(("null",) if kind == 0 else ("absent",))
                    elif dk == 2:
                        dv, i = dec_sty(l, i)
                        ds.append(("sc", dv))
                    else:
                        raise Bad()
                ovs.append((label, ho == 1, out, ps, ds))
            elif tag == 3:
                n, i = _count(l, i)
                o = []
                for _ in range(n):
                    x, i = _next(l, i)
                    if x < 0:
                        raise Bad()
                    o.append(x)
                orders.append(o)
            elif tag == 4:
                oreq, i = _next(l, i)
                he, i = _next(l, i)
                if oreq not in (-1, 0, 1) or he not in (0, 1):
                    raise Bad()
                exp = None
                if he == 1:
                    exp, i = dec_tty(l, i)
                n, i = _count(l, i)
                init = []
                for _ in range(n):
                    b, i = dec_bind(l, i)
                    init.append(b)
                n, i = _count(l, i)
                hints = []
                for _ in range(n):
                    h, i = _size(l, i)
                    hints.append(h)
                n, i = _count(l, i)
                args = []
                for _ in range(n):
                    kind, i = _next(l, i)
                    if kind == 0:
                        t, i = dec_tty(l, i)
                        args.append(("ts", t))
                    elif kind == 1:
                        s, i = dec_sty(l, i)
                        args.append(("sc", s))
                    elif kind == 2:
                        args.append(("null",))
                    elif kind == 3:
                        args.append(("absent",))
                    else:
                        raise Bad()
                queries.append({"oreq": oreq, "expected": exp, "init": init, "hints": hints, "args": args})
            elif tag == 8:
                c, i = dec_sty(l, i)
                b, i = dec_sty(l, i)
                probes.append((c, b))
            elif tag == 7:
                n, i = _count(l, i)
                ops = []
                for _ in range(n):
                    b, i = dec_bind(l, i)
                    ops.append(b)
                scripts.append(ops)
            else:
                raise Bad()
            if i != len(l):
                raise Bad()
        for o in orders:
            for x in o:
                if x >= len(ovs):
                    raise Bad()
    except (Bad, IndexError):
        return None
    return {"ovs": ovs, "orders": orders, "queries": queries, "scripts": scripts, "probes": probes}


def dec_bind(l, i):
    store, i = _next(l, i)
    v, i = _next(l, i)
    if store == 0:
        t, i = dec_tty(l, i)
        return (0, v, t), i
    if store == 1:
        s, i = dec_sty(l, i)
        return (1, v, s), i
    if store == 2:
        n, i = _size(l, i)
        return (2, v, n), i
    raise Bad()


def enc_bind(b):
    return [b[0], b[1]] + (enc_tty(b[2]) if b[0] == 0 else enc_sty(b[2]) if b[0] == 1 else [b[2]])


# --------------------------------------------------------------------------- a small reference matcher (oracle side)
# Given the bindings the implementation REPORTS for its selection, check declaratively that every parameter pattern,
# instantiated by those bindings, accepts the supplied argument.  No state is threaded: one substitution for all
# positions, which is exactly "every type variable bound to one type across all positions".


def ancestry(b, acc=None):
    """explicit graph of a bundle term: id -> tuple of parent ids (declaration order)"""
    acc = {} if acc is None else acc
    if b[0] == "bun" and b[1] not in acc:
        acc[b[1]] = tuple(p[1] for p in b[2])
        for p in b[2]:
            ancestry(p, acc)
    return acc


def shortest_distance(c, base):
    """fewest parent edges from bundle c up to bundle base (breadth first); None if base is not an ancestor-or-self"""
    if c[0] != "bun" or base[0] != "bun":
        return None
    g = ancestry(c)
    frontier, seen, d = {c[1]}, {c[1]}, 0
    while frontier:
        if base[1] in frontier:
            return d
        nxt = set()
        for x in frontier:
            for p in g.get(x, ()):
                if p not in seen:
                    seen.add(p)
                    nxt.add(p)
        frontier, d = nxt, d + 1
    return None


def ts_bundle_sub(t, c):
    """TS[Derived] offered where TS[Base] is declared"""
    return t[0] == "ts" and c[0] == "ts" and t[1][0] == "bun" and c[1][0] == "bun" and shortest_distance(t[1], c[1]) is not None


def strip_refs(t):
    while t[0] == "ref":
        t = t[1]
    return t


def deref(t):
    k = t[0]
    if k == "ref":
        return deref(t[1])
    if k == "tsb":
        return ("tsb", t[1], tuple((f, deref(x)) for f, x in t[2]))
    if k == "tsl":
        return ("tsl", deref(t[1]), t[2])
    if k == "tsd":
        return ("tsd", t[1], deref(t[2]))
    return t


def equiv(a, b):
    """structural equality ignoring bundle names"""
    if a[0] != b[0]:
        return False
    k = a[0]
    if k == "tsb":
        return len(a[2]) == len(b[2]) and all(f == g and equiv(x, y) for (f, x), (g, y) in zip(a[2], b[2]))
    if k == "tsl":
        return a[2] == b[2] and equiv(a[1], b[1])
    if k == "tsd":
        return a[1] == b[1] and equiv(a[2], b[2])
    if k == "ref":
        return equiv(a[1], b[1])
    return a == b


def s_inst(sig, p, s):
    k = p[0]
    if k == "sv":
        return sig.get((1, p[1])) == s and (not p[2] or s in p[2])
    if k == "sc":
        return p[1] == s
    if k == "unk0":
        return s[0] in ("lst", "tup")
    if k in ("unk1", "hom"):
        if s[0] == "lst":
            return s_inst(sig, p[1], s[1])
        if s[0] == "tup" and len(s[1]) >= 1 and all(x == s[1][0] for x in s[1]):
            return s_inst(sig, p[1], s[1][0])
        return False
    if k == "fix":
        return s[0] == "tup" and len(s[1]) == len(p[1]) and all(s_inst(sig, q, x) for q, x in zip(p[1], s[1]))
    if k == "pset":
        return s[0] == "set" and s_inst(sig, p[1], s[1])
    if k == "pmap":
        return s[0] == "map" and s_inst(sig, p[1], s[1]) and s_inst(sig, p[2], s[2])
    return False


def size_inst(sig, sz, n):
    if sz[0] == "n":
        return sz[1] == 0 or sz[1] == n
    return sig.get((2, sz[1])) == n and (not sz[2] or n in sz[2])


def t_inst(sig, p, t0, inp):
    """inp: input direction (SIGNAL accepts anything, concrete leaves compare dereferenced)"""
    k = p[0]
    if inp and k == "psig":
        return True
    if k == "pref":
        if inp:
            return t_inst(sig, p[1], t0[1] if t0[0] == "ref" else t0, inp)
        return t0[0] == "ref" and t_inst(sig, p[1], t0[1], inp)
    t = strip_refs(t0)
    if k == "v":
        return sig.get((0, p[1])) == t and (not p[2] or any(equiv(c, t) for c in p[2]))
    if k == "c":
        if inp:
            return p[1][0] == "sig" or equiv(deref(p[1]), deref(t)) or ts_bundle_sub(deref(t), deref(p[1]))
        return equiv(p[1], t)
    if k == "pts":
        if inp and t[0] == "ts" and p[1][0] == "sv":
            b = sig.get((1, p[1][1]))
            if b is not None and b[0] == "bun" and t[1][0] == "bun" and shortest_distance(t[1], b) is not None:
                return True          # a variable already bound to a bundle takes any descendant
        return t[0] == "ts" and s_inst(sig, p[1], t[1])
    if k == "ptss":
        return t[0] == "tss" and s_inst(sig, p[1], t[1])
    if k == "ptsl":
        return t[0] == "tsl" and size_inst(sig, p[1], t[2]) and t_inst(sig, p[2], t[1], inp)
    if k == "ptsd":
        return t[0] == "tsd" and s_inst(sig, p[1], t[1]) and t_inst(sig, p[2], t[2], inp)
    if k == "ptsw":
        return t[0] == "tsw" and s_inst(sig, p[4], t[1]) and (p[1] or (p[2] == t[2] and p[3] == t[3]))
    if k == "ptsb":
        if t[0] != "tsb" or len(t[2]) != len(p[3]):
            return False
        if p[1] and (t[1] == 0 or t[1] != p[2]):
            return False
        return all(f == g and t_inst(sig, q, x, inp) for (f, q), (g, x) in zip(p[3], t[2]))
    if k == "bv":
        b = sig.get((0, p[1]))
        return t[0] == "tsb" and b is not None and equiv(b, t)
    if k == "psig":
        return t[0] == "sig"
    return False


def out_inst(sig, p, t):
    """output direction: a top-level variable takes a requested REF verbatim"""
    if p[0] == "v" and t[0] == "ref":
        b = sig.get((0, p[1]))
        return b is not None and (b == t or equiv(deref(b), deref(t)))
    return t_inst(sig, p, t, False)


def s_subst(sig, p):
    k = p[0]
    if k == "sv":
        return sig.get((1, p[1]))
    if k == "sc":
        return p[1]
    if k in ("unk0", "unk1"):
        return None
    if k == "hom":
        e = s_subst(sig, p[1])
        return None if e is None else ("lst", e)
    if k == "fix":
        xs = [s_subst(sig, q) for q in p[1]]
        return None if any(x is None for x in xs) else ("tup", tuple(xs))
    if k == "pset":
        e = s_subst(sig, p[1])
        return None if e is None else ("set", e)
    if k == "pmap":
        a, b = s_subst(sig, p[1]), s_subst(sig, p[2])
        return None if a is None or b is None else ("map", a, b)
    return None


def t_subst(sig, p):
    k = p[0]
    if k in ("v", "bv"):
        return sig.get((0, p[1]))
    if k == "c":
        return p[1]
    if k == "pts":
        s = s_subst(sig, p[1])
        return None if s is None else ("ts", s)
    if k == "ptss":
        s = s_subst(sig, p[1])
        return None if s is None else ("tss", s)
    if k == "ptsl":
        e = t_subst(sig, p[2])
        n = p[1][1] if p[1][0] == "n" else sig.get((2, p[1][1]))
        return None if e is None or n is None else ("tsl", e, n)
    if k == "ptsd":
        a, b = s_subst(sig, p[1]), t_subst(sig, p[2])
        return None if a is None or b is None else ("tsd", a, b)
    if k == "ptsw":
        s = s_subst(sig, p[4])
        return None if s is None or p[1] else ("tsw", s, p[2], p[3])
    if k == "ptsb":
        fs = [(f, t_subst(sig, q)) for f, q in p[3]]
        return None if any(x is None for _, x in fs) else ("tsb", p[2] if p[1] else 0, tuple(fs))
    if k == "pref":
        x = t_subst(sig, p[1])
        return None if x is None else mk_ref(x)
    if k == "psig":
        return ("sig",)
    return None


NUMERIC = {0, 1, 2, 4}


def value_schema_is(t, v):
    k = t[0]
    if k == "ts":
        return t[1] == v
    if k == "tss":
        return ("set", t[1]) == v
    if k == "tsd":
        return v[0] == "map" and v[1] == t[1] and value_schema_is(t[2], v[2])
    if k == "sig":
        return v == ("a", 0)
    return False


def value_compatible(t, v):
    k = t[0]
    if k == "ts":
        return t[1] == v
    if k == "sig":
        return v == ("a", 0)
    if k == "tsw":
        return v[0] == "lst" and t[2] == 0 and t[1] == v[1]
    if k == "tss":
        return ("set", t[1]) == v
    if k == "tsd":
        return v[0] == "map" and v[1] == t[1] and value_compatible(t[2], v[2])
    if k == "tsl":
        return v[0] == "lst" and value_compatible(t[1], v[1])
    return False


def value_inst(sig, p, v, top):
    """a plain value of schema v promoted to a const source for input pattern p, under bindings sig"""
    k = p[0]
    if k == "pref":
        return top and value_inst(sig, p[1], v, True)
    if k == "v":
        b = sig.get((0, p[1]))
        if b is None:
            return False
        # bound by this value (TS[v]) or by an earlier position and then only compatibility is required
        return (value_compatible(b, v) if top else value_schema_is(b, v)) or b == ("ts", v)
    if k == "c":
        return value_compatible(p[1], v) if top else value_schema_is(p[1], v)
    if k == "pts":
        return s_inst(sig, p[1], v)
    if k == "ptss":
        return v[0] == "set" and s_inst(sig, p[1], v[1])
    if k == "ptsl":
        return v[0] == "lst" and size_inst(sig, p[1], 0) and value_inst(sig, p[2], v[1], False)
    if k == "ptsd":
        return v[0] == "map" and s_inst(sig, p[1], v[1]) and value_inst(sig, p[2], v[2], False)
    if k == "ptsw":
        return v[0] == "lst" and (p[1] or p[2] == 0) and s_inst(sig, p[4], v[1])
    if k == "psig":
        return v == ("a", 0)
    return False


def s_collect(sig, p, s):
    """first-occurrence bindings of a scalar pattern against a schema (no checking: arg_inst verifies afterwards)"""
    k = p[0]
    if k == "sv":
        sig.setdefault((1, p[1]), s)
    elif k in ("unk1", "hom"):
        if s[0] == "lst":
            s_collect(sig, p[1], s[1])
        elif s[0] == "tup" and len(s[1]) >= 1:
            s_collect(sig, p[1], s[1][0])
    elif k == "fix":
        if s[0] == "tup":
            for q, x in zip(p[1], s[1]):
                s_collect(sig, q, x)
    elif k == "pset":
        if s[0] == "set":
            s_collect(sig, p[1], s[1])
    elif k == "pmap":
        if s[0] == "map":
            s_collect(sig, p[1], s[1])
            s_collect(sig, p[2], s[2])


def t_collect(sig, p, t0):
    """first-occurrence bindings of an input pattern against a schema"""
    k = p[0]
    if k == "pref":
        t_collect(sig, p[1], t0[1] if t0[0] == "ref" else t0)
        return
    t = strip_refs(t0)
    if k == "v":
        sig.setdefault((0, p[1]), t)
    elif k == "bv":
        if t[0] == "tsb":
            sig.setdefault((0, p[1]), t)
    elif k in ("pts", "ptss"):
        if t[0] == ("ts" if k == "pts" else "tss"):
            s_collect(sig, p[1], t[1])
    elif k == "ptsl":
        if t[0] == "tsl":
            if p[1][0] == "zv":
                sig.setdefault((2, p[1][1]), t[2])
            t_collect(sig, p[2], t[1])
    elif k == "ptsd":
        if t[0] == "tsd":
            s_collect(sig, p[1], t[1])
            t_collect(sig, p[2], t[2])
    elif k == "ptsw":
        if t[0] == "tsw":
            s_collect(sig, p[4], t[1])
    elif k == "ptsb":
        if t[0] == "tsb":
            for (f, q), (g, x) in zip(p[3], t[2]):
                t_collect(sig, q, x)


def defaults_of(ov):
    return list(ov[4]) if len(ov) > 4 else [None] * len(ov[3])


def normalize(ov, args):
    """the positional call in declared parameter order with omitted trailing parameters defaulted, and the number of
    defaults used; None when the call does not fit (too many arguments / a required parameter omitted)"""
    ds = defaults_of(ov)
    if len(args) > len(ds):
        return None
    tail = ds[len(args):]
    if any(d is None for d in tail):
        return None
    return list(args) + tail, len(tail)


def reference_match(ov, q):
    """Does the overload accept the query?  None when the query uses a feature this reference does not cover."""
    label, has_out, outp, ps = ov[:4]
    if q["init"] or q["hints"] or q["expected"] is not None:
        return None
    nz = normalize(ov, q["args"])
    if nz is None:
        return False
    nargs = nz[0]
    if q["oreq"] != -1 and (q["oreq"] == 1) != has_out:
        return False
    sig = {}
    for (pk, p), a in zip(ps, nargs):
        if pk == "in" and a[0] == "sc":
            return None                       # scalar -> const promotion: not covered
        if pk == "in" and a[0] == "ts":
            t_collect(sig, p, a[1])
        elif pk == "sc" and a[0] == "sc" and p[0] != "sc":
            s_collect(sig, p, a[1])
    if not all(arg_inst(sig, p, a) for p, a in zip(ps, nargs)):
        return False
    return not has_out or t_subst(sig, outp) is not None


def _bundle_ids(p, acc):
    if isinstance(p, tuple):
        if p and p[0] == "bun":
            acc.add(p[1])
        for x in p:
            _bundle_ids(x, acc)


def _mirror_canon(t, keep, seen):
    """a type with every bundle that no overload names replaced by the SET of its parents plus the ordinal of its
    first occurrence in the query (so a consistent exchange of a bundle and its mirror - same parents declared in
    another order - gives the same canonical query, while (L, L) and (L, mirror L) stay different)"""
    if isinstance(t, tuple):
        if t and t[0] == "bun" and t[1] not in keep:
            if t[1] not in seen:
                seen[t[1]] = len(seen)
            return ("bun*", tuple(sorted(str(_mirror_canon(p, keep, {})) for p in t[2])), seen[t[1]])
        return tuple(_mirror_canon(x, keep, seen) for x in t)
    return t


def expected_adjustment(ov, q):
    """(rank adjustment the property statement implies for an accepted call, uses inheritance?) or None if not covered:
    one per default used, one per coerced scalar, the SHORTEST inheritance distance per concrete TS[Base] leaf"""
    if q["init"] or q["hints"]:
        return None
    nz = normalize(ov, q["args"])
    if nz is None:
        return None
    nargs, adj = nz
    inh = False
    for (pk, p), a in zip(ov[3], nargs):
        if pk == "in" and a[0] == "sc":
            return None
        if pk == "in" and a[0] == "ts" and p[0] == "c":
            e, t = deref(p[1]), deref(a[1])
            if not equiv(e, t) and e[0] == "ts" and t[0] == "ts" and e[1][0] == "bun" and t[1][0] == "bun":
                d = shortest_distance(t[1], e[1])
                if d is not None:
                    adj += d
                    inh = True
        if pk == "sc" and a[0] == "sc" and p[0] == "sc" and p[1] != a[1]:
            adj += 1
    return adj, inh


def arg_inst(sig, param, arg):
    pk, p = param
    ak = arg[0]
    if pk == "in":
        if ak == "null":
            return True
        if ak == "ts":
            return t_inst(sig, p, arg[1], True)
        if ak == "sc":
            return value_inst(sig, p, arg[1], True)
        return False
    if ak == "absent":
        return p[0] == "sv"
    if ak != "sc":
        return False
    if p[0] == "sc":
        return p[1] == arg[1] or (p[1][0] == "a" and arg[1][0] == "a" and p[1][1] in NUMERIC and arg[1][1] in NUMERIC)
    return s_inst(sig, p, arg[1])


# --------------------------------------------------------------------------- reading the implementation's output


def parse_out(impl_out):
    r = {"solo": {}, "res": {}, "scripts": {}, "malformed": False, "static": {}, "probes": {}}
    for l in impl_out:
        tag = l[0]
        if tag == 99 or tag == 98:
            r["malformed"] = True
        elif tag == 55:
            r["solo"][(l[1], l[2])] = (l[3], l[4])
        elif tag == 56:
            r["static"][l[1]] = l[2]
        elif tag == 59:
            r["probes"][l[1]] = (l[2], l[3])
        elif tag == 50:
            r["res"][(l[1], l[2])] = {"kind": l[3], "label": l[4], "rank": l[5], "binds": {}, "out": None, "tied": []}
        elif tag == 51:
            r["res"][(l[1], l[2])]["binds"][(l[3], l[4])] = l[5:]
        elif tag == 52:
            r["res"][(l[1], l[2])]["out"] = l[3:]
        elif tag == 53:
            r["res"][(l[1], l[2])]["tied"].append((l[3], l[4]))
        elif tag == 57:
            r["scripts"].setdefault(l[1], {"ok": None, "map": {}})["ok"] = l[2:]
        elif tag == 58:
            r["scripts"].setdefault(l[1], {"ok": None, "map": {}})["map"][(l[2], l[3])] = l[4:]
    return r


def _sig_of(binds):
    sig = {}
    for (store, v), toks in binds.items():
        if store == 0:
            sig[(0, v)] = dec_tty(toks, 0)[0]
        elif store == 1:
            sig[(1, v)] = dec_sty(toks, 0)[0]
        else:
            sig[(2, v)] = toks[0]
    return sig


def oracle(prop, case, impl_out):
    if isinstance(impl_out, dict):
        return [("crash", str(impl_out)[:200])]
    spec = decode_case(case)
    out = parse_out(impl_out)
    if spec is None:
        return [] if out["malformed"] else [("malformed_output", "malformed case not reported as such")]
    if out["malformed"]:
        return [("malformed_output", "well-formed case reported malformed")]
    fl = []
    # ---- ResolutionMap::bind_*: a second, different binding is rejected; the same binding again is accepted
    for k, ops in enumerate(spec["scripts"]):
        got = out["scripts"].get(k)
        if got is None or got["ok"] is None or len(got["ok"]) != len(ops):
            fl.append(("malformed_output", "script %d" % k))
            continue
        cur = {}
        for (store, v, payload), ok in zip(ops, got["ok"]):
            key = (store, v)
            if key in cur and cur[key] != payload:
                if ok:
                    fl.append(("bind_accepts_rebind", "script %d var %s" % (k, key)))
            else:
                if not ok:
                    fl.append(("bind_rejects_consistent", "script %d var %s" % (k, key)))
                cur.setdefault(key, payload)
        want = {key: (enc_tty(p) if key[0] == 0 else enc_sty(p) if key[0] == 1 else [p]) for key, p in cur.items()}
        if got["map"] != want and not any(f[0].startswith("bind_") for f in fl):
            fl.append(("bind_accepts_rebind", "script %d final map differs from first-binding-wins" % k))
    ovs = spec["ovs"]
    nq = len(spec["queries"])
    # ---- each candidate alone: it matches iff a consistent assignment of its variables exists (reference matcher)
    for i, ov in enumerate(ovs):
        for q in range(nq):
            want = reference_match(ov, spec["queries"][q])
            got = out["solo"].get((q, i))
            if want is None or got is None or got[0] not in (0, 1):
                continue
            if want and got[0] == 1:
                fl.append(("false_reject", "overload %d accepts query %d (a consistent assignment exists) but is rejected" % (ov[0], q)))
            elif not want and got[0] == 0:
                fl.append(("false_accept", "overload %d matches query %d but no consistent assignment exists" % (ov[0], q)))
    # ---- direct probes: bundle_inheritance_distance is the SHORTEST number of parent edges, bundle_is_a = reachable
    for k, (c, b) in enumerate(spec["probes"]):
        got = out["probes"].get(k)
        if got is None:
            fl.append(("malformed_output", "missing probe %d" % k))
            continue
        d = shortest_distance(c, b)
        if c[0] != "bun" or b[0] != "bun":
            continue
        if got[1] != (-1 if d is None else d) or got[0] != (0 if d is None else 1):
            fl.append(("inheritance_distance_not_shortest", "bundle %d -> %d: is_a %d distance %d, shortest path %s"
                       % (c[1], b[1], got[0], got[1], d)))
    # ---- each candidate alone: effective rank = static rank + defaults used + coercions + inheritance distances
    for i, ov in enumerate(ovs):
        for q in range(nq):
            got = out["solo"].get((q, i))
            if got is None or got[0] != 0 or i not in out["static"]:
                continue
            exp = expected_adjustment(ov, spec["queries"][q])
            if exp is None:
                continue
            adj, uses_inheritance = exp
            if got[1] - out["static"][i] != adj:
                fl.append(("inheritance_distance_not_shortest" if uses_inheritance else "effective_rank_unexpected",
                           "overload %d query %d: effective rank %d, static %d, expected adjustment %d"
                           % (ov[0], q, got[1], out["static"][i], adj)))
    # ---- swapping the declaration order of a bundle's parents changes nothing: queries that differ only by a
    #      leaf bundle and its mirror (same parents, other order; neither named by any overload) get the same verdict
    named_in_ovs = set()
    for ov in ovs:
        _bundle_ids(ov[2], named_in_ovs)
        for _, pp in ov[3]:
            _bundle_ids(pp, named_in_ovs)
    canon = {}
    for q in range(nq):
        qq = spec["queries"][q]
        seen_b = {}
        key = (qq["oreq"], tuple(_mirror_canon(a, named_in_ovs, seen_b) for a in qq["args"]),
               _mirror_canon(qq["expected"], named_in_ovs, seen_b), tuple(_mirror_canon(b, named_in_ovs, seen_b) for b in qq["init"]),
               tuple(qq["hints"]))
        canon.setdefault(key, []).append(q)
    for qs in canon.values():
        if len(qs) < 2 or len({str(spec["queries"][q]["args"]) for q in qs}) < 2:
            continue
        for o in range(len(spec["orders"])):
            views = {}
            for q in qs:
                r = out["res"].get((o, q))
                if r is not None:
                    views[q] = (r["kind"], r["label"], r["rank"], sorted(r["tied"]))
            if len(set(map(str, views.values()))) > 1:
                fl.append(("inheritance_order_dependent", "queries %s differ only in the parent declaration order of a leaf bundle "
                           "but resolve differently in order %d: %s" % (qs, o, views)))
                break
    # ---- per order: the outcome is determined by which candidates match alone and their effective ranks
    for o, order in enumerate(spec["orders"]):
        for q in range(nq):
            res = out["res"].get((o, q))
            if res is None:
                fl.append(("malformed_output", "missing result o=%d q=%d" % (o, q)))
                continue
            solos = [(i, out["solo"].get((q, i), (None, None))) for i in order]
            if any(s[0] is None for _, s in solos):
                fl.append(("malformed_output", "missing solo result q=%d" % q))
                continue
            if any(s[0] == 3 for _, s in solos):
                if res["kind"] != 3:
                    fl.append(("exception_escaped", "a candidate raises alone but the family resolution did not o=%d q=%d" % (o, q)))
                continue
            if res["kind"] == 3:
                fl.append(("exception_escaped", "non-resolution exception o=%d q=%d" % (o, q)))
                continue
            matching = [(i, s[1]) for i, s in solos if s[0] == 0]
            if not matching:
                if res["kind"] != 1:
                    fl.append(("false_match", "no candidate matches alone, outcome kind %d o=%d q=%d" % (res["kind"], o, q)))
                continue
            if res["kind"] == 1:
                fl.append(("false_nomatch", "candidates %s match alone o=%d q=%d" % ([ovs[i][0] for i, _ in matching], o, q)))
                continue
            best = min(r for _, r in matching)
            at_best = [i for i, r in matching if r == best]
            if len(at_best) == 1:
                i = at_best[0]
                if res["kind"] == 2:
                    fl.append(("false_ambiguity", "unique best %d at rank %d o=%d q=%d" % (ovs[i][0], best, o, q)))
                elif res["label"] != ovs[i][0]:
                    fl.append(("wrong_selection", "selected %d, unique most specific is %d (rank %d) o=%d q=%d"
                               % (res["label"], ovs[i][0], best, o, q)))
                elif res["rank"] != best:
                    fl.append(("rank_not_min", "selected rank %d, best rank %d o=%d q=%d" % (res["rank"], best, o, q)))
            else:
                if res["kind"] != 2:
                    fl.append(("missed_ambiguity", "best rank %d shared by %s, selected %d o=%d q=%d"
                               % (best, [ovs[i][0] for i in at_best], res["label"], o, q)))
                elif sorted(res["tied"]) != sorted((ovs[i][0], best) for i in at_best):
                    fl.append(("tied_set", "tied %s expected %s o=%d q=%d"
                               % (res["tied"], sorted((ovs[i][0], best) for i in at_best), o, q)))
            # ---- the selection really matches, one binding per variable, output = substitution
            if res["kind"] == 0:
                cands = [ovs[i] for i in order if ovs[i][0] == res["label"]]
                try:
                    sig = _sig_of(res["binds"])
                except Bad:
                    fl.append(("malformed_output", "bindings o=%d q=%d" % (o, q)))
                    continue
                args = spec["queries"][q]["args"]
                ok = False
                for cand in cands:
                    label, has_out, outp, ps = cand[:4]
                    nz = normalize(cand, args)
                    if nz is None:
                        continue
                    if all(arg_inst(sig, p, a) for p, a in zip(ps, nz[0])):
                        ok = True
                        if has_out:
                            want = t_subst(sig, outp)
                            if want is None or res["out"] != enc_tty(want):
                                fl.append(("output_not_substitution", "output %s, substitution %s o=%d q=%d"
                                           % (res["out"], None if want is None else enc_tty(want), o, q)))
                            exp = spec["queries"][q]["expected"]
                            if exp is not None and not out_inst(sig, outp, exp):
                                fl.append(("unsound_match", "output pattern of %d does not accept the requested output under the reported bindings o=%d q=%d"
                                           % (label, o, q)))
                        break
                if not ok:
                    fl.append(("unsound_match", "selected %d does not accept the arguments under its reported bindings o=%d q=%d"
                               % (res["label"], o, q)))
    # ---- order independence on the implementation alone
    groups = {}
    for o, order in enumerate(spec["orders"]):
        groups.setdefault(tuple(sorted(order)), []).append(o)
    for g in groups.values():
        for q in range(nq):
            seen = None
            for o in g:
                res = out["res"].get((o, q))
                if res is None:
                    continue
                key = (res["kind"], res["label"], res["rank"], sorted(res["binds"].items()), res["out"], sorted(res["tied"]))
                if seen is None:
                    seen = (o, key)
                elif seen[1] != key:
                    fl.append(("order_dependent", "orders %d and %d differ on query %d: %s vs %s" % (seen[0], o, q, seen[1][:3], key[:3])))
                    break
    fl += findings(case, impl_out)
    # de-duplicate kinds, keep first detail
    seen, res = set(), []
    for k, d in fl:
        if k not in seen:
            seen.add(k)
            res.append((k, d))
    return res


FINDING_KINDS = {"generic_scalar_beats_structured"}


def findings(case, impl_out):
    """S1 (docs/notes-resolve.md): the selected candidate has a bare unconstrained scalar variable where an
    otherwise identical matching candidate has a structured (strictly more specific) scalar pattern."""
    if isinstance(impl_out, dict):
        return []
    spec = decode_case(case)
    if spec is None:
        return []
    out = parse_out(impl_out)
    res = []
    for o, order in enumerate(spec["orders"]):
        for q in range(len(spec["queries"])):
            r = out["res"].get((o, q))
            if r is None or r["kind"] != 0:
                continue
            sel = [spec["ovs"][i] for i in order if spec["ovs"][i][0] == r["label"]]
            if len(sel) != 1:
                continue
            sps = sel[0][3]
            for i in order:
                ov = spec["ovs"][i]
                if ov[0] == r["label"] or out["solo"].get((q, i), (1, 0))[0] != 0 or len(ov[3]) != len(sps):
                    continue
                if defaults_of(ov) != defaults_of(sel[0]):
                    continue
                diff = [k for k in range(len(sps)) if sps[k] != ov[3][k]]
                if len(diff) != 1:
                    continue
                k = diff[0]
                if sps[k][0] != ov[3][k][0]:
                    continue
                d = _first_diff(sps[k][1], ov[3][k][1])
                if d is None:
                    continue
                a, b = d
                if isinstance(a, tuple) and isinstance(b, tuple) and a and b and a[0] == "sv" and not a[2] and \
                        b[0] in ("pset", "pmap", "hom", "fix", "unk1"):
                    occ = [x for _, pp in sps for x in _all_vars(pp) if x == ("sc", a[1])]
                    if len(occ) == 1:
                        res.append(("generic_scalar_beats_structured",
                                    "selected %d (bare ~v%d) over matching %d (structured %s) o=%d q=%d"
                                    % (r["label"], a[1], ov[0], b[0], o, q)))
                        return res
    return res


def _first_diff(a, b):
    """the sub-patterns at which two patterns first differ (None if equal)"""
    if a == b:
        return None
    if isinstance(a, tuple) and isinstance(b, tuple) and len(a) == len(b) and a:
        head_ok = a[0] == b[0] and a[0] not in ("sv", "v", "zv", "sc", "c", "bv") if isinstance(a[0], str) else True
        if head_ok:
            diffs = [(x, y) for x, y in zip(a, b) if x != y]
            if len(diffs) == 1:
                return _first_diff(*diffs[0])
    return (a, b)


def nontrivial(case, impl_out):
    if isinstance(impl_out, dict):
        return False
    out = parse_out(impl_out)
    per_q = {}
    for (q, i), (kind, rank) in out["solo"].items():
        if kind == 0:
            per_q[q] = per_q.get(q, 0) + 1
    return any(n >= 2 for n in per_q.values())


def stats(case, impl_out):
    st = {"cases": 1, "overloads": 0, "queries": 0, "orders": 0, "resolutions": 0, "selected": 0, "no_match": 0,
          "ambiguous": 0, "other_exception": 0, "malformed": 0, "competing_matches": 0, "selected_with_bindings": 0,
          "selected_with_output": 0, "bind_script_ops": 0, "bind_rejections": 0, "crash": 0}
    if isinstance(impl_out, dict):
        st["crash"] = 1
        return st
    for l in case:
        if l and l[0] == 2:
            st["overloads"] += 1
        elif l and l[0] == 3:
            st["orders"] += 1
        elif l and l[0] == 4:
            st["queries"] += 1
    toks = [x for l in case for x in l]
    st["ref_tokens"] = toks.count(16) + toks.count(39)
    out = parse_out(impl_out)
    if out["malformed"]:
        st["malformed"] = 1
    for r in out["res"].values():
        st["resolutions"] += 1
        st[{0: "selected", 1: "no_match", 2: "ambiguous"}.get(r["kind"], "other_exception")] += 1
        if r["kind"] == 0 and r["binds"]:
            st["selected_with_bindings"] += 1
        if r["kind"] == 0 and r["out"] is not None:
            st["selected_with_output"] += 1
    per_q = {}
    for (q, i), (kind, rank) in out["solo"].items():
        if kind == 0:
            per_q[q] = per_q.get(q, 0) + 1
    st["competing_matches"] = sum(1 for n in per_q.values() if n >= 2)
    for s in out["scripts"].values():
        if s["ok"]:
            st["bind_script_ops"] += len(s["ok"])
            st["bind_rejections"] += s["ok"].count(0)
    st["scalar_value_args"] = sum(1 for l in case if l and l[0] == 4 for _ in [0]) and _count_scalar_args(case)
    st["finding_S1_generic_scalar_beats_structured"] = 1 if findings(case, impl_out) else 0
    spec = decode_case(case)
    if spec is not None:
        seen = set()

        def walk(p):
            if isinstance(p, tuple):
                if p and isinstance(p[0], str):
                    seen.add(p[0])
                    if p[0] in ("v", "sv", "zv") and len(p) > 2 and p[2]:
                        seen.add("constrained_" + p[0])
                    if p[0] == "ptsb" and p[1]:
                        seen.add("named_ptsb")
                for x in p:
                    walk(x)
        for ov_ in spec["ovs"]:
            _, ho, outp, ps = ov_[:4]
            if any(d is not None for d in defaults_of(ov_)):
                seen.add("defaulted_parameter")
            for _, pp in ps:
                walk(pp)
            vs = [x for _, pp in ps for x in _all_vars(pp)]
            if len(vs) != len(set(vs)):
                seen.add("repeated_variable")
        for k in seen:
            st["cases_with_pat_" + k] = 1
        if any(q["expected"] is not None for q in spec["queries"]):
            st["cases_with_requested_output"] = 1
        if any(q["init"] for q in spec["queries"]):
            st["cases_with_initial_resolution"] = 1
        if any(q["hints"] for q in spec["queries"]):
            st["cases_with_size_hints"] = 1
        if any(a[0] == "ts" and _mentions(a[1], "ref") for q in spec["queries"] for a in q["args"]):
            st["cases_with_ref_argument"] = 1
        if any(a[0] == "ts" and _mentions(a[1], "tsb") for q in spec["queries"] for a in q["args"]):
            st["cases_with_bundle_argument"] = 1
    return st


def _mentions(t, tag):
    if isinstance(t, tuple):
        return (len(t) > 0 and t[0] == tag) or any(_mentions(x, tag) for x in t)
    return False


def _all_vars(p):
    out = []
    if isinstance(p, tuple):
        if p and p[0] in ("v", "bv"):
            out.append(("ts", p[1]))
        elif p and p[0] == "sv":
            out.append(("sc", p[1]))
        elif p and p[0] == "zv":
            out.append(("sz", p[1]))
        for x in p:
            out += _all_vars(x)
    return out


def _count_scalar_args(case):
    spec = decode_case(case)
    if spec is None:
        return 0
    return sum(1 for q in spec["queries"] for a in q["args"] if a[0] == "sc")


# --------------------------------------------------------------------------- generator


class Ctx:
    """Case-level state: named bundles must keep one field list per name within a process."""

    def __init__(self, rng):
        self.rng = rng
        self.named = {}      # name id -> fields


def gen_atom(rng, hashable=False):
    return ("a", rng.choice(HASHABLE_ATOMS if hashable else [1, 1, 1, 3, 3, 2, 0, 4]))


def gen_sty(rng, depth=0):
    r = rng.random()
    if depth >= 2 or r < 0.6:
        return gen_atom(rng)
    if r < 0.72:
        n = rng.choice([1, 2, 2, 3])
        if rng.random() < 0.4:
            e = gen_sty(rng, depth + 1)
            return ("tup", tuple(e for _ in range(n)))
        return ("tup", tuple(gen_sty(rng, depth + 1) for _ in range(n)))
    if r < 0.82:
        return ("lst", gen_sty(rng, depth + 1))
    if r < 0.91:
        return ("set", gen_atom(rng, True))
    return ("map", gen_atom(rng, True), gen_sty(rng, depth + 1))


def gen_tty(ctx, depth=0, allow_ref=True):
    rng = ctx.rng
    r = rng.random()
    if depth >= 3 or r < 0.42:
        return ("ts", gen_sty(rng, 0 if depth < 2 else 2))
    if r < 0.50:
        return ("tss", gen_atom(rng, True))
    if r < 0.63:
        return ("tsl", gen_tty(ctx, depth + 1), rng.choice([0, 1, 2, 2, 3]))
    if r < 0.73:
        return ("tsd", gen_atom(rng, True), gen_tty(ctx, depth + 1))
    if r < 0.78:
        p = rng.choice([1, 2, 3])
        return ("tsw", gen_atom(rng), p, rng.randint(0, p))
    if r < 0.87:
        if ctx.named and rng.random() < 0.35:
            nm = rng.choice(sorted(ctx.named))
            return ("tsb", nm, ctx.named[nm])
        n = rng.choice([1, 2, 2, 3])
        fs = tuple((f + 1, gen_tty(ctx, depth + 2)) for f in range(n))
        if rng.random() < 0.35:
            nm = len(ctx.named) + 1
            ctx.named[nm] = fs
            return ("tsb", nm, fs)
        return ("tsb", 0, fs)
    if r < 0.96 and allow_ref:
        return mk_ref(gen_tty(ctx, depth + 1, False))
    return ("sig",)


class OvCtx:
    """Per-overload variable tables: concrete value -> variable id, so equal sub-terms can share a variable."""

    def __init__(self, rng):
        self.rng = rng
        self.ts, self.sc, self.sz = {}, {}, {}

    def var(self, table, key, share=0.75, clash=0.06):
        rng = self.rng
        if key in table and rng.random() < share:
            return table[key]
        if table and rng.random() < clash:
            return rng.choice(sorted(table.values()))          # deliberately inconsistent re-use
        v = rng.randint(1, 5)
        table.setdefault(key, v)
        return v


def gen_spat(oc, s, depth=0):
    rng = oc.rng
    if s in oc.sc and rng.random() < 0.35:
        return ("sv", oc.sc[s], ())
    r = rng.random()
    if r < 0.30:
        cons = ()
        if rng.random() < 0.15:
            cons = tuple(rng.sample([s, gen_atom(rng), gen_atom(rng)], rng.choice([1, 2])))
        return ("sv", oc.var(oc.sc, s), cons)
    if r < 0.55 or depth > 2:
        return ("sc", s)
    k = s[0]
    if k == "tup":
        hom = len(s[1]) >= 1 and all(x == s[1][0] for x in s[1])
        r2 = rng.random()
        if hom and r2 < 0.3:
            return ("hom", gen_spat(oc, s[1][0], depth + 1))
        if hom and r2 < 0.45:
            return ("unk1", gen_spat(oc, s[1][0], depth + 1))
        if r2 < 0.55:
            return ("unk0",)
        return ("fix", tuple(gen_spat(oc, x, depth + 1) for x in s[1]))
    if k == "lst":
        r2 = rng.random()
        if r2 < 0.6:
            return ("hom", gen_spat(oc, s[1], depth + 1))
        if r2 < 0.8:
            return ("unk1", gen_spat(oc, s[1], depth + 1))
        return ("unk0",)
    if k == "set":
        return ("pset", gen_spat(oc, s[1], depth + 1))
    if k == "map":
        return ("pmap", gen_spat(oc, s[1], depth + 1), gen_spat(oc, s[2], depth + 1))
    return ("sc", s)


def gen_size(oc, n):
    rng = oc.rng
    r = rng.random()
    if r < 0.4:
        return ("n", n)
    if r < 0.55:
        return ("n", 0)
    cons = ()
    if rng.random() < 0.2:
        cons = tuple(sorted(set(rng.sample([n, 1, 2, 3, 4], 2))))
    return ("zv", oc.var(oc.sz, n), cons)


def gen_tpat(oc, t, depth=0, for_output=False):
    """generalise the concrete schema t into a pattern that (usually) accepts it"""
    rng = oc.rng
    key0 = t if for_output else strip_refs(t)
    if key0 in oc.ts and rng.random() < 0.4:
        return ("v", oc.ts[key0], ())          # the same schema was already generalised to a variable: repeat it
    r = rng.random()
    if not for_output and r < 0.04:
        return ("psig",)
    if r < 0.22:
        cons = ()
        if rng.random() < 0.15:
            cons = tuple(rng.sample([strip_refs(t), ("ts", ("a", 1)), ("ts", ("a", 3))], rng.choice([1, 2])))
        key = t if for_output else strip_refs(t)
        return ("v", oc.var(oc.ts, key), cons)
    if r < 0.36 or depth > 3:
        if for_output and _has_named(t):
            return ("v", oc.var(oc.ts, t), ())
        return ("c", t if rng.random() < 0.8 else strip_refs(t))
    k = t[0]
    if k == "ref":
        if rng.random() < 0.55:
            return ("pref", gen_tpat(oc, t[1], depth + 1, for_output))
        if for_output:
            return ("pref", gen_tpat(oc, t[1], depth + 1, True))
        return gen_tpat(oc, t[1], depth + 1)
    if not for_output and rng.random() < 0.07:
        return ("pref", gen_tpat(oc, t, depth + 1))
    if k == "ts":
        return ("pts", gen_spat(oc, t[1]))
    if k == "tss":
        return ("ptss", gen_spat(oc, t[1], 2) if for_output else gen_spat(oc, t[1]))
    if k == "tsl":
        return ("ptsl", gen_size(oc, t[2]), gen_tpat(oc, t[1], depth + 1, for_output))
    if k == "tsd":
        return ("ptsd", gen_spat(oc, t[1], 2) if for_output else gen_spat(oc, t[1]), gen_tpat(oc, t[2], depth + 1, for_output))
    if k == "tsw":
        if rng.random() < 0.3 and not for_output:
            return ("ptsw", True, 0, 0, gen_spat(oc, t[1]))
        return ("ptsw", False, t[2], t[3], gen_spat(oc, t[1]))
    if k == "tsb":
        if rng.random() < 0.3:
            return ("bv", oc.var(oc.ts, t))
        if for_output and (t[1] != 0 or _has_named(t)):
            return ("v", oc.var(oc.ts, t), ())
        named = t[1] != 0 and rng.random() < 0.6
        return ("ptsb", named, t[1] if named else 0, tuple((f, gen_tpat(oc, x, depth + 1, for_output)) for f, x in t[2]))
    if k == "sig":
        return ("psig",) if not for_output else ("c", t)
    return ("c", t)


def _has_named(t):
    k = t[0]
    if k == "tsb":
        return t[1] != 0 or any(_has_named(x) for _, x in t[2])
    if k in ("tsl", "ref"):
        return _has_named(t[1])
    if k == "tsd":
        return _has_named(t[2])
    return False


def _scalar_vars(p, acc):
    k = p[0]
    if k == "sv":
        acc.add(p[1])
    elif k in ("unk1", "hom", "pset"):
        _scalar_vars(p[1], acc)
    elif k == "fix":
        for q in p[1]:
            _scalar_vars(q, acc)
    elif k == "pmap":
        _scalar_vars(p[1], acc)
        _scalar_vars(p[2], acc)


def gen_overload(rng, label, seed_args, kinds, want_out):
    """an overload obtained by generalising one seed argument tuple"""
    oc = OvCtx(rng)
    ps = []
    for a, kind in zip(seed_args, kinds):
        if a[0] == "ts":
            if kind == "mixed" and rng.random() < 0.3:
                ps.append(("sc", ("sv", oc.var(oc.sc, ("a", 1)), ())))
            else:
                ps.append(("in", gen_tpat(oc, a[1])))
        elif a[0] == "sc":
            if kind == "mixed" and rng.random() < 0.5:
                r = rng.random()
                if r < 0.4:
                    ps.append(("in", ("pts", gen_spat(oc, a[1]))))
                elif r < 0.6:
                    ps.append(("in", ("c", ("ts", a[1]))))
                elif r < 0.8:
                    ps.append(("in", ("v", oc.var(oc.ts, ("ts", a[1])), ())))
                else:
                    ps.append(("in", ("pref", ("pts", gen_spat(oc, a[1])))))
            else:
                ps.append(("sc", gen_spat(oc, a[1])))
        else:
            ps.append(("in", ("v", rng.randint(1, 5), ())) if kind != "scalar" else ("sc", ("sv", rng.randint(1, 5), ())))
    out = None
    if want_out:
        r = rng.random()
        ts_seeds = [a[1] for a in seed_args if a[0] == "ts"]
        if r < 0.65 and ts_seeds:
            out = gen_tpat(oc, rng.choice(ts_seeds), 0, True)
        elif r < 0.8 and oc.sc:
            s = rng.choice(sorted(oc.sc, key=str))
            out = ("pts", ("sv", oc.sc[s], ()))
        elif r < 0.9:
            out = ("c", ("ts", gen_atom(rng)))
        else:
            out = ("v", rng.randint(1, 6), ())          # often unbound: "output type could not be resolved"
    return (label, out is not None, out, ps)


def specialise(rng, ov, seed_args):
    """a strictly more specific sibling: one variable occurrence replaced by what the seed has there (critical pair)"""
    label, has_out, out, ps = ov[:4]
    if len(ps) != len(seed_args) or len(ov) > 4:
        return None
    idx = [i for i, (pk, p) in enumerate(ps) if seed_args[i][0] in ("ts", "sc")]
    if not idx:
        return None
    i = rng.choice(idx)
    pk, p = ps[i]
    a = seed_args[i]
    oc = OvCtx(rng)
    if pk == "in" and a[0] == "ts":
        q = ("c", a[1]) if rng.random() < 0.5 else gen_tpat(oc, a[1], 1)
    elif pk == "sc" and a[0] == "sc":
        q = ("sc", a[1]) if rng.random() < 0.5 else gen_spat(oc, a[1], 1)
    else:
        return None
    nps = list(ps)
    nps[i] = (pk, q)
    return (label, has_out, out, nps)


def rename_vars(rng, ov):
    """same shape, variables renamed: ties in rank with the original"""
    label, has_out, out, ps = ov[:4]
    dflt = defaults_of(ov)
    perm = dict(zip(range(0, 8), rng.sample(range(0, 8), 8)))

    def rs(p):
        k = p[0]
        if k == "sv":
            return ("sv", perm.get(p[1], p[1]), p[2])
        if k in ("unk1", "hom", "pset"):
            return (k, rs(p[1]))
        if k == "fix":
            return ("fix", tuple(rs(q) for q in p[1]))
        if k == "pmap":
            return ("pmap", rs(p[1]), rs(p[2]))
        return p

    def rt(p):
        k = p[0]
        if k == "v":
            return ("v", perm.get(p[1], p[1]), p[2])
        if k == "bv":
            return ("bv", perm.get(p[1], p[1]))
        if k in ("pts", "ptss"):
            return (k, rs(p[1]))
        if k == "ptsl":
            sz = p[1]
            if sz[0] == "zv":
                sz = ("zv", perm.get(sz[1], sz[1]), sz[2])
            return ("ptsl", sz, rt(p[2]))
        if k == "ptsd":
            return ("ptsd", rs(p[1]), rt(p[2]))
        if k == "ptsw":
            return ("ptsw", p[1], p[2], p[3], rs(p[4]))
        if k == "ptsb":
            return ("ptsb", p[1], p[2], tuple((f, rt(q)) for f, q in p[3]))
        if k == "pref":
            return ("pref", rt(p[1]))
        return p

    return (label, has_out, rt(out) if out is not None else None, [(pk, rt(p) if pk == "in" else rs(p)) for pk, p in ps], dflt)


def _default_param(rng):
    """one defaulted trailing parameter: (param, default)"""
    r = rng.random()
    a = rng.choice([("a", 1), ("a", 1), ("a", 3), ("a", 2), ("a", 0)])
    if r < 0.6:
        return ("sc", ("sc", a)), ("sc", a)                       # k: int = 1
    if r < 0.7:
        return ("sc", ("sc", a)), ("sc", rng.choice([("a", 4), ("a", 0), ("a", 3)]))   # default coerced (or not) to the declared type
    if r < 0.8:
        return ("sc", ("sv", rng.randint(1, 5), ())), ("sc", a)   # k: ~T = value
    if r < 0.9:
        return ("sc", ("sv", rng.randint(1, 5), ())), ("absent",)  # k: ~T = None
    if r < 0.95:
        return ("in", ("v", rng.randint(1, 5), ())), ("null",)     # ts: ~X = None  (unwired input)
    return ("in", ("pts", ("sc", a))), ("sc", a)                   # ts: TS[int] = 1 (const promotion)


def with_defaults(rng, ov, n_extra, default_last=False):
    """ov plus n_extra trailing defaulted parameters (optionally also defaulting its last own parameter)"""
    label, has_out, out, ps = ov[:4]
    ds = defaults_of(ov)
    ps = list(ps)
    if default_last and ps and ds[-1] is None and ps[-1][0] == "sc" and ps[-1][1][0] == "sc":
        ds[-1] = ("sc", ps[-1][1][1])
    for _ in range(n_extra):
        pr, d = _default_param(rng)
        ps.append(pr)
        ds.append(d)
    return (label, has_out, out, ps, ds)


def gen_arg(ctx, kind):
    rng = ctx.rng
    if kind == "ts":
        r = rng.random()
        if r < 0.04:
            return ("null",)
        if r < 0.09:
            return ("sc", gen_atom(rng))
        if r < 0.12:
            return ("sc", rng.choice([("set", gen_atom(rng, True)), ("map", gen_atom(rng, True), gen_atom(rng)),
                                      ("lst", gen_atom(rng)), ("tup", (gen_atom(rng), gen_atom(rng)))]))
        return ("ts", gen_tty(ctx))
    if kind == "scalar":
        r = rng.random()
        if r < 0.06:
            return ("absent",)
        if r < 0.10:
            return ("ts", ("ts", gen_atom(rng)))
        return ("sc", gen_sty(rng))
    r = rng.random()          # mixed
    if r < 0.6:
        return ("sc", gen_atom(rng))
    return ("ts", ("ts", gen_atom(rng)) if rng.random() < 0.7 else gen_tty(ctx))


def mutate_arg(ctx, a, kind):
    rng = ctx.rng
    if a[0] == "ts":
        t = a[1]
        if t[0] == "tsb" and t[1] != 0 and rng.random() < 0.5:
            return ("ts", ("tsb", 0, t[2]))          # the un-named twin of a named bundle: equivalent, not identical
        if t[0] == "ref" and t[1][0] == "tsb" and t[1][1] != 0 and rng.random() < 0.5:
            return ("ts", ("ref", ("tsb", 0, t[1][2])))
        if t[0] == "tsb" and t[1] == 0 and rng.random() < 0.5:
            fs = list(t[2])
            if len(fs) >= 2 and rng.random() < 0.5:
                fs[0], fs[1] = (fs[1][0], fs[0][1]), (fs[0][0], fs[1][1])      # swap two field NAMES, types stay in place
            else:
                j = rng.randrange(len(fs))
                fs[j] = (fs[j][0] + 5, fs[j][1])                               # rename one field
            return ("ts", ("tsb", 0, tuple(fs)))
        if t[0] == "ts" and t[1][0] == "tup" and len(t[1][1]) >= 2 and rng.random() < 0.5:
            return ("ts", ("ts", _spoil_tuple(rng, t[1])))
        r = rng.random()
        if r < 0.3:
            return ("ts", mk_ref(t) if t[0] != "ref" else t[1])
        if r < 0.45 and t[0] == "tsl":
            return ("ts", ("tsl", t[1], rng.choice([0, 1, 2, 3, 4])))
        if r < 0.6 and t[0] == "ts" and t[1][0] == "a":
            return ("ts", ("ts", gen_atom(rng)))
        if r < 0.7 and t[0] == "ts":
            return ("ts", ("tss", gen_atom(rng, True)))
        if r < 0.8 and t[0] == "tsb" and t[1] == 0 and len(t[2]) > 1:
            return ("ts", ("tsb", 0, t[2][:-1]))
        if r < 0.88 and t[0] == "tsb" and t[1] != 0:
            return ("ts", ("tsb", 0, t[2]))          # the un-named twin of a named bundle
    elif a[0] == "sc":
        s = a[1]
        if s[0] == "tup" and len(s[1]) >= 2 and rng.random() < 0.4:
            return ("sc", _spoil_tuple(rng, s))
        r = rng.random()
        if r < 0.35 and s[0] == "a":
            return ("sc", gen_atom(rng))
        if r < 0.5 and s[0] == "tup" and len(s[1]) >= 1:
            return ("sc", ("lst", s[1][0]))
        if r < 0.6 and s[0] == "lst":
            return ("sc", ("tup", (s[1], s[1])))
    return gen_arg(ctx, kind)


def _spoil_tuple(rng, s):
    """an almost homogeneous tuple: the first fields agree, a later one differs"""
    xs = list(s[1])
    other = ("a", 3) if xs[0] != ("a", 3) else ("a", 1)
    if rng.random() < 0.5:
        return ("tup", tuple(xs[:2]) + (other,))
    return ("tup", (xs[0], xs[0], other))


def enc_arg(a):
    if a[0] == "ts":
        return [0] + enc_tty(a[1])
    if a[0] == "sc":
        return [1] + enc_sty(a[1])
    return [2] if a[0] == "null" else [3]


def enc_overload(ov):
    label, has_out, out, ps = ov[:4]
    l = [2, label, 1 if has_out else 0]
    if has_out:
        l += enc_tpat(out)
    l.append(len(ps))
    for (pk, p), d in zip(ps, defaults_of(ov)):
        l += [0] + enc_tpat(p) if pk == "in" else [1] + enc_spat(p)
        l += [0] if d is None else [1] if d[0] in ("null", "absent") else [2] + enc_sty(d[1])
    return l


def enc_query(q):
    l = [4, q["oreq"], 1 if q["expected"] is not None else 0]
    if q["expected"] is not None:
        l += enc_tty(q["expected"])
    l.append(len(q["init"]))
    for b in q["init"]:
        l += enc_bind(b)
    l.append(len(q["hints"]))
    l += q["hints"]
    l.append(len(q["args"]))
    for a in q["args"]:
        l += enc_arg(a)
    return l


def gen_script(ctx):
    rng = ctx.rng
    ops = []
    pool = {0: [gen_tty(ctx) for _ in range(3)], 1: [gen_sty(rng) for _ in range(3)], 2: [0, 1, 2, 3]}
    for _ in range(rng.randint(2, 8)):
        store = rng.choice([0, 0, 1, 1, 2])
        ops.append((store, rng.randint(1, 3), rng.choice(pool[store])))
    return [7, len(ops)] + [x for b in ops for x in enc_bind(b)]


def simple_subst_guess(rng, ov, args):
    """a plausible requested output for a query: substitute by a throw-away reference match"""
    label, has_out, out, ps = ov[:4]
    if not has_out:
        return None
    ts_args = [a[1] for a in args if a[0] == "ts"]
    if not ts_args:
        return None
    t = rng.choice(ts_args)
    r = rng.random()
    if r < 0.25:
        return mk_ref(t)
    if r < 0.35:
        return strip_refs(t)
    return t


def malformed(rng, case):
    c = [list(l) for l in case]
    r = rng.random()
    i = rng.randrange(len(c))
    if r < 0.3 and len(c[i]) > 2:
        c[i] = c[i][:rng.randint(1, len(c[i]) - 1)]          # truncated line
    elif r < 0.5:
        c[i] = c[i] + [rng.choice([0, 1, 17, 40])]              # trailing token
    elif r < 0.65:
        c[i][0] = rng.choice([0, 1, 5, 6, 8, 9])                # unknown line tag
    elif r < 0.8:
        j = rng.randrange(len(c[i]))
        c[i][j] = rng.choice([-5, 18, 19, 27, 41, 77])          # unknown token
    else:
        c.append([3, 2, 0, 97])                                 # order index out of range
    # keep only mutations that make the case syntactically malformed: a mutation that leaves it well formed may
    # e.g. give one bundle name two field lists, which the type registry (not the resolver) refuses
    return c if decode_case(c) is None else case


def _demo_hierarchy():
    """the hierarchy of seeded change C19w3-inheritance-distance-first-path"""
    instrument = ("bun", 1, ())
    tradable = ("bun", 2, (instrument,))
    derivative = ("bun", 3, (tradable,))
    option = ("bun", 4, (derivative,))
    record = ("bun", 5, ())
    reportable = ("bun", 6, (record,))
    regulated = ("bun", 7, (reportable,))
    listed = ("bun", 8, (tradable, regulated))
    return [instrument, tradable, derivative, option, record, reportable, regulated, listed], (listed, option)


def _random_hierarchy(rng):
    nodes = [("bun", 1, ())]
    if rng.random() < 0.5:
        nodes.append(("bun", 2, ()))
    for _ in range(rng.randint(3, 7)):
        k = 1 if rng.random() < 0.65 or len(nodes) < 2 else rng.choice([2, 2, 3])
        ps = rng.sample(nodes, min(k, len(nodes)))
        nodes.append(("bun", len(nodes) + 1, tuple(ps)))
    # the leaf's parents: prefer two nodes with a common ancestor at different distances (a diamond)
    best = None
    for _ in range(12):
        ps = rng.sample(nodes, min(rng.choice([2, 2, 3]), len(nodes)))
        probe = ("bun", 0, tuple(ps))
        g = ancestry(probe)
        shared = [a for a in g if a != 0 and sum(1 for p in ps if shortest_distance(p, ("bun", a, ())) is not None) >= 2]
        uneven = [a for a in shared if len({shortest_distance(p, ("bun", a, ())) for p in ps
                                            if shortest_distance(p, ("bun", a, ())) is not None}) >= 2]
        if uneven:
            best = ps
            break
        best = best or ps
    return nodes, tuple(best)


def gen_inheritance(rng, tier):
    """nominal bundle inheritance with diamonds: overloads on several ancestors TS[Base_i], called with TS[Derived];
    the derived bundle and its mirror (same parents declared in the other order) must resolve alike, by shortest distance"""
    nodes, parents = _demo_hierarchy() if rng.random() < 0.25 else _random_hierarchy(rng)
    n0 = len(nodes)
    leaf = ("bun", n0 + 1, tuple(parents))
    mirror = ("bun", n0 + 2, tuple(reversed(parents)))
    if len(enc_sty(leaf)) > 300:
        nodes, parents = _demo_hierarchy()
        n0 = len(nodes)
        leaf, mirror = ("bun", n0 + 1, tuple(parents)), ("bun", n0 + 2, tuple(reversed(parents)))
    by_id = {b[1]: b for b in nodes}
    anc = sorted(a for a in ancestry(leaf) if a != leaf[1])
    far = sorted(anc, key=lambda a: -shortest_distance(leaf, by_id[a]))

    def ts(b):
        return ("ts", b)
    extra = rng.random() < 0.3          # a second, ordinary parameter shared by all overloads
    nov = rng.randint(2, 4)
    ovs = []
    picks = rng.sample(anc, min(nov, len(anc)))
    if rng.random() < 0.6 and len(far) >= 2:
        picks[0] = far[0]               # an ancestor strictly behind the shared node
        picks[-1] = far[1] if far[1] != far[0] else picks[-1]
    for k, a in enumerate(picks):
        r = rng.random()
        b = by_id[a]
        if r < 0.7:
            pat = ("c", ts(b))
        elif r < 0.82:
            pat = ("c", ("ref", ts(b)))
        elif r < 0.9:
            pat = ("pref", ("c", ts(b)))
        else:
            pat = ("pts", ("sc", b))     # exact bundle only
        ps = [("in", pat)] + ([("in", ("c", ("ts", ("a", 1))))] if extra else [])
        ovs.append((k + 1, False, None, ps))
    r = rng.random()
    if r < 0.2:
        ovs.append((len(ovs) + 1, False, None, [("in", ("pts", ("sv", 1, ())))] + ([("in", ("c", ("ts", ("a", 1))))] if extra else [])))
    elif r < 0.3:
        ovs.append((len(ovs) + 1, False, None, [("in", ("v", 1, ()))] + ([("in", ("c", ("ts", ("a", 1))))] if extra else [])))
    elif r < 0.4 and not extra:
        # a variable bound to a bundle takes any descendant at a later position (and only then)
        ovs = [(1, False, None, [("in", ("pts", ("sv", 1, ()))), ("in", ("pts", ("sv", 1, ())))]),
               (2, False, None, [("in", ("c", ts(by_id[rng.choice(anc)]))), ("in", ("v", 2, ()))])]
    two = len(ovs[0][3]) == 2 and not extra
    queries = []

    def q(*types):
        args = [("ts", t) for t in types] + ([("ts", ("ts", ("a", 1)))] if extra else [])
        queries.append({"oreq": -1, "expected": None, "init": [], "hints": [], "args": args})
    mids = rng.sample(nodes, min(2, len(nodes)))
    if two:
        b = by_id[rng.choice(anc)]
        for x, y in ((ts(b), ts(leaf)), (ts(leaf), ts(b)), (ts(b), ts(mirror)), (ts(leaf), ts(leaf)), (ts(leaf), ts(mirror))):
            q(x, y)
    else:
        q(ts(leaf))
        q(ts(mirror))
        if rng.random() < 0.5:
            q(("ref", ts(leaf)))
            q(("ref", ts(mirror)))
        for m in mids:
            q(ts(m))
        if rng.random() < 0.3:
            q(("tsl", ts(leaf), 2))
    n = len(ovs)
    ident = list(range(n))
    if n <= 3 or tier == "thorough":
        orders = [list(p) for p in itertools.permutations(ident)]
    else:
        orders = [ident, ident[::-1]] + [rng.sample(ident, n) for _ in range(3)]
    allb = nodes + [leaf, mirror]
    probes = [[8] + enc_sty(c) + enc_sty(b) for c in (leaf, mirror) for b in allb]
    probes += [[8] + enc_sty(c) + enc_sty(b) for c in rng.sample(nodes, min(3, len(nodes))) for b in rng.sample(allb, min(4, len(allb)))]
    return [enc_overload(o) for o in ovs] + [[3, len(o)] + o for o in orders] + [enc_query(x) for x in queries] + probes


def gen(rng, tier, prop):
    if rng.random() < 0.12:
        return gen_inheritance(rng, tier)
    ctx = Ctx(rng)
    arity = rng.choice([1, 1, 2, 2, 2, 3])
    kinds = [rng.choices(["ts", "scalar", "mixed"], [80, 12, 8])[0] for _ in range(arity)]
    nseeds = rng.randint(1, 3)
    seeds = [[gen_arg(ctx, k) for k in kinds] for _ in range(nseeds)]
    for sd in seeds:          # equal argument types at two positions invite a repeated variable
        if arity >= 2 and rng.random() < 0.4:
            i, j = rng.sample(range(arity), 2)
            if kinds[i] == kinds[j]:
                sd[j] = sd[i]
    nov = rng.randint(2, 6 if tier == "quick" else 5)
    with_out = rng.random() < 0.55
    ovs = []
    label = 0
    twin = None
    if arity >= 2 and kinds[0] == "ts" and kinds[1] == "ts" and rng.random() < 0.12:
        # repeated variable against nominally different, structurally identical bundles: f(~T, ~T) must not accept
        # (named B, un-named twin of B); a TSB schema variable and a concrete leaf (both compare structurally) may
        nm = len(ctx.named) + 1
        fs = tuple((f + 1, ("ts", gen_atom(rng))) for f in range(rng.choice([1, 2])))
        ctx.named[nm] = fs
        b = ("tsb", nm, fs)
        for sd in seeds:
            sd[0], sd[1] = ("ts", b), ("ts", b)
        twin = (("ts", b), ("ts", ("tsb", 0, fs)))
        rest = [("in", gen_tpat(OvCtx(rng), sd_a[1])) if sd_a[0] == "ts" else ("sc", ("sv", 9, ())) for sd_a in seeds[0][2:]]
        v = rng.randint(1, 5)
        ovs = [(1, False, None, [("in", ("v", v, ())), ("in", ("v", v, ()))] + rest),
               (2, False, None, [("in", ("bv", v)), ("in", ("bv", v))] + rest)]
        if rng.random() < 0.5:
            ovs.append((3, False, None, [("in", ("c", b)), ("in", ("v", v, ()))] + rest))
        label = len(ovs)
        with_out = False
    # critical pair for scalar parameters: a bare scalar variable against a structured pattern of the same position
    comp = [(si, i) for si, sd in enumerate(seeds) for i, a in enumerate(sd) if a[0] == "sc" and a[1][0] != "a"]
    if comp and rng.random() < 0.5:
        si, i = rng.choice(comp)
        base = gen_overload(rng, 1, seeds[si], kinds, with_out and rng.random() < 0.5)
        v = seeds[si][i][1]
        shape = {"set": ("pset", ("sv", 7, ())), "lst": ("hom", ("sv", 7, ())), "map": ("pmap", ("sv", 7, ()), ("sv", 8, ())),
                 "tup": ("fix", tuple(("sv", 7 + j, ()) for j in range(len(v[1]))) if v[0] == "tup" else ())}[v[0]]
        g = list(base[3])
        g[i] = ("sc", ("sv", 6, ()))
        sp = list(base[3])
        sp[i] = ("sc", shape)
        ovs = [(1, base[1], base[2], g), (2, base[1], base[2], sp)]
        label = 2
    comp_ts = [(si, i) for si, sd in enumerate(seeds) for i, a in enumerate(sd)
               if a[0] == "ts" and a[1][0] == "ts" and a[1][1][0] in ("map", "tup", "set", "lst")]
    if not ovs and comp_ts and rng.random() < 0.5:
        si, i = rng.choice(comp_ts)
        base = gen_overload(rng, 1, seeds[si], kinds, with_out and rng.random() < 0.5)
        v = seeds[si][i][1][1]
        shape = {"set": ("pset", ("sv", 7, ())), "lst": ("hom", ("sv", 7, ())), "map": ("pmap", ("sv", 7, ()), ("sv", 8, ())),
                 "tup": ("fix", tuple(("sv", 7 + j, ()) for j in range(len(v[1]))) if v[0] == "tup" else ())}[v[0]]
        g = list(base[3])
        g[i] = ("in", ("pts", ("sv", 6, ())))
        sp = list(base[3])
        sp[i] = ("in", ("pts", shape))
        ovs = [(1, base[1], base[2], g), (2, base[1], base[2], sp)]
        label = 2
    while len(ovs) < nov:
        label += 1
        seed = rng.choice(seeds)
        r = rng.random()
        if ovs and r < 0.22:
            base = rng.choice(ovs)
            sp = specialise(rng, base, seed)
            ov = sp if sp is not None else gen_overload(rng, label, seed, kinds, with_out)
            ov = (label,) + tuple(ov[1:])
        elif ovs and r < 0.34:
            ov = rename_vars(rng, rng.choice(ovs))
            ov = (label,) + tuple(ov[1:])
        elif r < 0.40:
            k2 = kinds + ["ts"] if rng.random() < 0.5 or arity == 1 else kinds[:-1]      # arity mismatch
            s2 = (seed + [gen_arg(ctx, "ts")])[:len(k2)]
            ov = gen_overload(rng, label, s2, k2, with_out)
        elif ovs and r < 0.58:
            # defaults ladder: a sibling of an earlier overload with 1-3 more defaulted trailing parameters; each default
            # it falls back on costs 1, so for a call that omits them the shorter sibling must win - in every order
            base = rng.choice(ovs)
            ov = with_defaults(rng, (label,) + tuple(base[1:]), rng.choice([1, 1, 2, 3]), rng.random() < 0.3)
        else:
            ov = gen_overload(rng, label, seed, kinds, with_out and rng.random() < 0.9)
            if rng.random() < 0.2:
                ov = with_defaults(rng, ov, rng.choice([1, 1, 2]), rng.random() < 0.3)
        ovs.append(ov)
    max_params = max(len(o[3]) for o in ovs)
    queries = []
    nq = rng.randint(1, 6)
    for _ in range(nq):
        base = rng.choice(seeds)
        r = rng.random()
        if r < 0.45:
            args = list(base)
        elif r < 0.85:
            args = list(base)
            j = rng.randrange(len(args))
            args[j] = mutate_arg(ctx, args[j], kinds[j])
        else:
            args = [gen_arg(ctx, k) for k in kinds]
        if twin is not None and rng.random() < 0.6:
            args = list(base)
            i0, i1 = (0, 1) if rng.random() < 0.5 else (1, 0)
            args[i0], args[i1] = twin[0], twin[1]
        if rng.random() < 0.04:
            args = args[:-1] if rng.random() < 0.5 and len(args) > 1 else args + [gen_arg(ctx, "ts")]
        elif max_params > len(args) and rng.random() < 0.4:
            # supply some of the defaulted trailing parameters explicitly
            for _ in range(rng.randint(1, max_params - len(args))):
                args = args + [("sc", rng.choice([("a", 1), ("a", 1), ("a", 3), ("a", 2), ("a", 0), ("a", 4)])) if rng.random() < 0.9
                               else gen_arg(ctx, "scalar")]
        q = {"oreq": -1, "expected": None, "init": [], "hints": [], "args": args}
        r = rng.random()
        if r < 0.10:
            q["oreq"] = rng.choice([0, 1])
        if with_out and rng.random() < 0.25:
            q["expected"] = simple_subst_guess(rng, rng.choice(ovs), args)
        if rng.random() < 0.08:
            q["init"] = [_rand_bind(ctx) for _ in range(rng.randint(1, 2))]
        if rng.random() < 0.06:
            q["hints"] = [rng.choice([0, 1, 2, 3]) for _ in range(rng.randint(1, 2))]
        zv = sorted(_size_vars_of(ovs))
        if zv and rng.random() < 0.12:
            v = rng.choice(zv)
            n1 = rng.choice([1, 2, 3])
            q["init"] = q["init"] + [(2, v, n1)]
            q["hints"] = [rng.choice([n1, n1, 1, 2, 3])] + ([rng.choice([1, 2, 3])] if rng.random() < 0.3 else [])
        queries.append(q)
    n = len(ovs)
    ident = list(range(n))
    if n <= 3 or (tier == "thorough" and (n <= 4 or (n == 5 and len(queries) <= 2))):
        orders = [list(p) for p in itertools.permutations(ident)]      # every registration order
    else:
        orders = [ident, ident[::-1]]
        for _ in range(3 if tier == "quick" else 10):
            p = ident[:]
            rng.shuffle(p)
            orders.append(p)
    r = rng.random()
    if r < 0.08:
        orders.append(ident + [rng.choice(ident)])            # one overload registered twice
    elif r < 0.14:
        orders.append(rng.sample(ident, rng.randint(0, n - 1)))   # a sub-family (possibly empty)
    case = [enc_overload(o) for o in ovs] + [[3, len(o)] + o for o in orders] + [enc_query(q) for q in queries]
    if rng.random() < 0.25:
        case.append(gen_script(ctx))
    if rng.random() < 0.03:
        case = malformed(rng, case)
    return case


def _size_vars_of(ovs):
    acc = set()

    def walk(p):
        if not isinstance(p, tuple):
            return
        if p and p[0] == "zv":
            acc.add(p[1])
        for x in p:
            if isinstance(x, tuple):
                walk(x)
    for ov_ in ovs:
        out, ps = ov_[2], ov_[3]
        walk(out)
        for _, p in ps:
            walk(p)
    return acc


def _rand_bind(ctx):
    rng = ctx.rng
    store = rng.choice([0, 1, 1, 2])
    if store == 0:
        return (0, rng.randint(1, 5), gen_tty(ctx, 2))
    if store == 1:
        return (1, rng.randint(1, 5), gen_atom(rng))
    return (2, rng.randint(1, 5), rng.choice([1, 2, 3]))


# --------------------------------------------------------------------------- shrinking


def shrink(case):
    ov_idx = [i for i, l in enumerate(case) if l and l[0] == 2]
    # drop one overload (re-index the orders)
    for k, li in enumerate(ov_idx):
        c = []
        for j, l in enumerate(case):
            if j == li:
                continue
            if l and l[0] == 3:
                idx = [x for x in l[2:] if x != k]
                idx = [x - 1 if x > k else x for x in idx]
                c.append([3, len(idx)] + idx)
            else:
                c.append(l)
        yield c
    # drop one query / order / script line
    for j, l in enumerate(case):
        if l and l[0] in (3, 4, 7, 8):
            yield case[:j] + case[j + 1:]
    # drop the last parameter of every overload together with the last argument of every query
    spec = decode_case(case)
    if spec is not None and spec["ovs"] and all(len(o[3]) > 1 for o in spec["ovs"]) and all(len(q["args"]) > 1 for q in spec["queries"]):
        for pos in range(len(spec["ovs"][0][3])):
            if not all(len(o[3]) == len(spec["ovs"][0][3]) for o in spec["ovs"]):
                break
            if not all(len(q["args"]) == len(spec["ovs"][0][3]) for q in spec["queries"]):
                break
            c = []
            it_ov = iter(spec["ovs"])
            it_q = iter(spec["queries"])
            for l in case:
                if l[0] == 2:
                    o = next(it_ov)
                    dd = defaults_of(o)
                    c.append(enc_overload((o[0], o[1], o[2], o[3][:pos] + o[3][pos + 1:], dd[:pos] + dd[pos + 1:])))
                elif l[0] == 4:
                    q = dict(next(it_q))
                    q["args"] = q["args"][:pos] + q["args"][pos + 1:]
                    c.append(enc_query(q))
                else:
                    c.append(l)
            yield c
    # remove output patterns
    if spec is not None and any(o[1] for o in spec["ovs"]):
        it_ov = iter(spec["ovs"])
        c = []
        for l in case:
            if l[0] == 2:
                o = next(it_ov)
                c.append(enc_overload((o[0], False, None, o[3], defaults_of(o))))
            elif l[0] == 4:
                c.append(l)
            else:
                c.append(l)
        yield c


# --------------------------------------------------------------------------- exhaustive small space (thorough tier)

_INT, _STR = ("a", 1), ("a", 3)
_TSI, _TSS_ = ("ts", _INT), ("ts", _STR)
_ENUM_PATS = [
    ("v", 1, ()), ("c", _TSI), ("pts", ("sv", 1, ())), ("pts", ("sc", _INT)), ("pref", ("v", 1, ())),
    ("pref", ("pts", ("sv", 1, ()))), ("psig",), ("ptsl", ("zv", 1, ()), ("v", 1, ())),
    ("ptsl", ("n", 2), ("pts", ("sv", 1, ()))), ("ptsl", ("n", 0), ("c", _TSI)), ("c", ("ref", _TSI)),
    ("v", 1, (_TSI,)),
]
_ENUM_ARGS = [_TSI, _TSS_, ("ref", _TSI), ("tsl", _TSI, 2), ("ref", ("tsl", ("ref", _TSI), 2)), ("tsl", _TSS_, 3), ("sig",)]
_ENUM_P2 = [("v", 1, ()), ("v", 2, ()), ("c", _TSI), ("pts", ("sv", 1, ())), ("pts", ("sv", 2, ())), ("pref", ("v", 1, ()))]
_ENUM_A2 = [(_TSI, _TSI), (_TSI, _TSS_), (("ref", _TSI), _TSI), (_TSS_, ("ref", _TSS_))]


def enumerate_cases(prop):
    """every family of two one-parameter overloads over a 12-pattern vocabulary against 7 argument types, and every
    family of two two-parameter overloads over a 6-pattern vocabulary (repeated variables) against 4 argument pairs;
    both registration orders"""
    def q1(t):
        return {"oreq": -1, "expected": None, "init": [], "hints": [], "args": [("ts", t)]}
    for a in _ENUM_PATS:
        for b in _ENUM_PATS:
            ovs = [(1, True, a if a[0] != "psig" else ("c", _TSI), [("in", a)]), (2, True, b if b[0] != "psig" else ("c", _TSI), [("in", b)])]
            yield [enc_overload(o) for o in ovs] + [[3, 2, 0, 1], [3, 2, 1, 0]] + [enc_query(q1(t)) for t in _ENUM_ARGS]
    tuples = [(x, y) for x in _ENUM_P2 for y in _ENUM_P2]
    for i, (a1, a2) in enumerate(tuples):
        for (b1, b2) in tuples[i:]:
            ovs = [(1, False, None, [("in", a1), ("in", a2)]), (2, False, None, [("in", b1), ("in", b2)])]
            qs = [{"oreq": -1, "expected": None, "init": [], "hints": [], "args": [("ts", x), ("ts", y)]} for x, y in _ENUM_A2]
            yield [enc_overload(o) for o in ovs] + [[3, 2, 0, 1], [3, 2, 1, 0]] + [enc_query(q) for q in qs]
    # families of three candidates with 0-3 defaulted trailing scalar parameters, in all six registration orders
    dint, dstr = (("sc", ("sc", _INT)), ("sc", _INT)), (("sc", ("sc", _STR)), ("sc", _STR))
    dvar, dnone = (("sc", ("sv", 5, ())), ("sc", _INT)), (("sc", ("sv", 5, ())), ("absent",))
    shapes = [[], [dint], [dint, dint], [dint, dint, dint], [dstr], [dvar], [dnone], [dint, dstr]]
    lead = [("in", ("c", _TSI)), ("in", ("pts", ("sv", 1, ())))]

    def cand(label, first, extra):
        return (label, True, ("c", _TSI), [first] + [e[0] for e in extra], [None] + [e[1] for e in extra])
    calls = [[("ts", _TSI)], [("ts", _TSI), ("sc", _INT)], [("ts", _TSI), ("sc", _INT), ("sc", _INT)], [("ts", _TSI), ("sc", _STR)],
             [("ts", _TSS_)], [("ts", _TSI), ("sc", _INT), ("sc", _INT), ("sc", _INT)]]
    qs = [{"oreq": 1, "expected": None, "init": [], "hints": [], "args": a} for a in calls]
    perms = [list(p) for p in itertools.permutations(range(3))]
    for first in lead:
        for trio in itertools.combinations(range(len(shapes)), 3):
            ovs = [cand(k + 1, first, shapes[i]) for k, i in enumerate(trio)]
            yield [enc_overload(o) for o in ovs] + [[3, 3] + o for o in perms] + [enc_query(q) for q in qs]
