"""Family `nestw`: one generated sub-graph body wired through the public WIRING layer (Wiring, wire<>, nested_<G>,
passive(), tsl_element) inlined (variant 0) and nested at depth 1 and 2 behind the same scripted sources.  C09 at
the wiring level: structured boundary arguments (a TSL<TS<Int>,2> and a TS<Int>), passive call-site arguments,
interning of the child's nodes.

Case lines
  1 start end
  2 src t v          source src (0 = xs[0], 1 = xs[1], 2 = y) emits v at time t
  3 op a b k         body node: 1 scale(k) a | 2 neg a | 3 add a b | 4 sub a b | 5 acc(running sum) a |
                                6 add a passive(b) | 7 sub a passive(b);   refs: 0 xs[0], 1 xs[1], 2 y, 3+j = body node j
  5 op k             node of the unary chain run inside a switch_ branch (variants 3 inlined / 4 nested_<>): 1 scale(k) |
                     2 neg | 5 acc | 8 echo_mod (passes its input on only when it reads as MODIFIED);  source 3 = the
                     switch key (the branch is the case key == 1), source 2 (y) is the branch argument
  4 mask             call-site tags: bit 1 = y passed as passive(y)  (bit 0 = passive(xs): the tag does not survive
                     tsl_element, so it has no effect in either form; not generated)
Observation lines (driver)
  30 variant t v     the sink after variant (0 inlined, 1 nested_<G>, 2 nested_<Wrap<G>>) saw v at t
  31 variant         the variant's run completed          39 variant   it threw        38 1   the case crashed
The model side is an ACCEPTOR (PIPE): coq/Nestw.v run_nestw answers [[1]] iff every variant completed and the three
streams are equal.  The oracle below additionally computes the expected stream with a reference interpreter.
"""
NAME = "nestw"
DRIVER_SRCS = ["nestw_driver.cpp"]
MODEL_FAMILY = "nestw"
PIPE = True
BUDGET = {"quick": 150, "thorough": 1500}


def gen(rng, tier, prop):
    start = rng.randint(1, 3)
    end = start + rng.randint(6, 12 if tier == "quick" else 20)
    case = [[1, start, end]]
    for src in range(3):
        times = sorted(rng.sample(range(start, end), rng.randint(1, min(6, end - start))))
        if src < 2 and rng.random() < 0.8 and start not in times:
            times = [start] + times
        for t in times:
            case.append([2, src, t, rng.randint(-5, 20) if src != 1 else rng.choice([100, 200, 300, 400])])
    nb = rng.randint(1, 5)
    for j in range(nb):
        refs = list(range(3 + j))
        r = rng.random()
        if r < 0.3:
            case.append([3, 1, rng.choice(refs), 0, rng.choice([1, 10, 10, -2, 3])])
        elif r < 0.4:
            case.append([3, 2, rng.choice(refs), 0, 0])
        elif r < 0.5:
            case.append([3, 5, rng.choice(refs), 0, 0])
        else:
            a, b = rng.choice(refs), rng.choice(refs)
            case.append([3, rng.choice([3, 4, 4, 6, 7]), a, b, 0])
    # the shape of seed C09w3: the same node type applied to two elements of ONE structured boundary argument
    if rng.random() < 0.3:
        k = rng.choice([10, 10, 3])
        case = [l for l in case if l[0] != 3] + [[3, 1, 0, 0, k], [3, 1, 1, 0, k], [3, rng.choice([4, 3]), 3, 4, 0]]
    mask = 0 if rng.random() < 0.6 else 2
    # every node needs one active input (the wiring layer rejects a node whose inputs are all passive)
    for (_3, op, a, b, k) in [l for l in case if l[0] == 3]:
        ins = [(a, False)] if op in (1, 2, 5) else [(a, False), (b, op in (6, 7))]
        if all(p or (r == 2 and mask & 2) for r, p in ins):
            mask = 0
    case.append([4, mask])
    # variants 3 / 4: a unary chain inside a switch_ branch that is activated MID-RUN (key source 3 ticks 1 at tk)
    if rng.random() < 0.6:
        tk = rng.randint(start, end - 2)
        case.append([2, 3, tk, 1])
        for _ in range(rng.randint(1, 3)):
            op = rng.choice([8, 8, 1, 2, 5])
            case.append([5, op, rng.choice([2, 3, 10]) if op == 1 else 0])
    return case


def parse(case):
    start, end, script, body, mask = 1, 12, {0: {}, 1: {}, 2: {}, 3: {}}, [], 0
    for l in case:
        if l[0] == 1:
            start, end = l[1], l[2]
        elif l[0] == 2:
            script[l[1]][l[2]] = l[3]
        elif l[0] == 3:
            body.append(tuple(l[1:5]))
        elif l[0] == 4:
            mask = l[1]
    return start, end, script, body or [(1, 0, 0, 1)], mask


def reference(case, mask=None):
    """The sub-graph's meaning: plain dataflow over the three boundary ports, evaluated once per engine cycle in
    rank order; a node runs when an ACTIVE input ticked in this cycle and all its inputs are valid."""
    start, end, script, body, m = parse(case)
    mask = m if mask is None else mask
    val = {}          # ref -> (value, time)
    acc = {}
    out = []
    times = sorted(t for s in script.values() for t in s if start <= t < end)
    for t in sorted(set(times)):
        for src in range(3):
            if t in script[src]:
                val[src] = (script[src][t], t)
        for j, (op, a, b, k) in enumerate(body):
            ins = [a] if op in (1, 2, 5) else [a, b]
            active = []
            for pos, r in enumerate(ins):
                passive = (op in (6, 7) and pos == 1) or (r == 2 and mask & 2)   # a tag on the TSL port does not survive tsl_element
                if not passive:
                    active.append(r)
            if not all(r in val for r in ins):
                continue
            if not any(val[r][1] == t for r in active):
                continue
            x = val[a][0]
            y = val[b][0] if len(ins) > 1 else 0
            if op == 1:
                v = x * k
            elif op == 2:
                v = -x
            elif op in (3, 6):
                v = x + y
            elif op in (4, 7):
                v = x - y
            else:
                acc[j] = acc.get(j, 0) + x
                v = acc[j]
            val[3 + j] = (v, t)
        last = 3 + len(body) - 1
        if last in val and val[last][1] == t:
            out.append((t, val[last][0]))
    return out


def sw_body(case):
    return [(l[1], l[2]) for l in case if l[0] == 5]


def reference_switch(case):
    """The branch of key 1 comes to life when the key first ticks 1 (at tk, mid-run): its argument is SAMPLED (reads as
    modified if it holds a value), the chain runs once, and afterwards on every tick of the argument."""
    start, end, script, _b, _m = parse(case)
    chain = sw_body(case)
    keys = sorted(t for t, v in script[3].items() if start <= t < end and v == 1)
    if not chain or not keys:
        return []
    tk = keys[0]
    out, acc, val = [], {}, None
    for t in sorted(set([tk] + [t for t in script[2] if start <= t < end])):
        if t in script[2]:
            val = script[2][t]
        if t < tk or val is None:
            continue
        if t != tk and t not in script[2]:
            continue
        x = val
        for j, (op, k) in enumerate(chain):
            if op == 1:
                x = x * k
            elif op == 2:
                x = -x
            elif op == 5:
                acc[j] = acc.get(j, 0) + x
                x = acc[j]
        out.append((t, x))
    return out


def streams(out):
    res = {0: [], 1: [], 2: [], 3: [], 4: []}
    done = set()
    for l in out:
        if l[0] == 30:
            res.setdefault(l[1], []).append((l[2], l[3]))
        elif l[0] == 31:
            done.add(l[1])
    return res, done


def oracle(prop, case, out):
    if not isinstance(out, list):
        return [("crash", str(out))]
    if any(l[0] == 38 for l in out):
        return [("crash", "the driver's child process died on this case")]
    st, done = streams(out)
    fails = []
    for v in (0, 1, 2):
        if v not in done:
            fails.append(("wire_variant_failed", "variant %d did not complete" % v))
    if fails:
        return fails
    _s, _e, _sc, _b, mask = parse(case)
    ref = reference(case)
    if st[0] != ref:
        k = next((x for x in range(max(len(ref), len(st[0]))) if x >= len(ref) or x >= len(st[0]) or ref[x] != st[0][x]), 0)
        fails.append(("wire_inlined_wrong", "inlined stream differs from the reference meaning at element %d: %s vs %s"
                      % (k, st[0][k:k + 1], ref[k:k + 1])))
    if sw_body(case):
        for v in (3, 4):
            if v not in done:
                fails.append(("wire_variant_failed", "switch variant %d did not complete" % v))
        refs = reference_switch(case)
        if 3 in done and st[3] != refs:
            fails.append(("wire_switch_inlined_wrong", "body inlined in the switch_ branch: %s, reference %s" % (st[3][:4], refs[:4])))
        if 3 in done and 4 in done and st[4] != st[3]:
            k = next((x for x in range(max(len(st[4]), len(st[3]))) if x >= len(st[4]) or x >= len(st[3]) or st[4][x] != st[3][x]), 0)
            fails.append(("nested_in_switch_differs", "body wrapped in nested_<> inside the switch_ branch (a nested node starting mid-run) "
                          "differs from the same body inlined in the branch at element %d: %s vs %s" % (k, st[4][k:k + 1], st[3][k:k + 1])))
    ref_active = reference(case, mask=0) if mask else None
    for v in (1, 2):
        if st[v] != st[0]:
            k = next((x for x in range(max(len(st[v]), len(st[0]))) if x >= len(st[v]) or x >= len(st[0]) or st[v][x] != st[0][x]), 0)
            if mask and st[v] == ref_active and ref_active != ref:
                # KF-passive-arg-nested-C09: passive(x) passed to nested_<G> tags the owner's slot only; the child's
                # consumers stay active.  Recognised only when the nested stream is EXACTLY the meaning with no passive tag.
                fails.append(("passive_arg_ignored_when_nested", "call-site mask %d: nested depth %d behaves as if the argument were active "
                              "(element %d: %s, inlined %s)" % (mask, v, k, st[v][k:k + 1], st[0][k:k + 1])))
            else:
                fails.append(("wire_nested_differs", "nested depth %d differs from the inlined stream at element %d: %s vs %s"
                              % (v, k, st[v][k:k + 1], st[0][k:k + 1])))
    return fails


PROP_KINDS = {"C09": {"wire_variant_failed", "wire_inlined_wrong", "wire_nested_differs", "passive_arg_ignored_when_nested",
                      "wire_switch_inlined_wrong", "nested_in_switch_differs"}}


def nontrivial(case, out):
    if not isinstance(out, list):
        return False
    st, done = streams(out)
    return len(st[0]) >= 2 and len(done) == 3


def stats(case, out):
    _s, _e, script, body, mask = parse(case)
    st, done = streams(out) if isinstance(out, list) else ({0: []}, set())
    return {"body_nodes": len(body), "passive_call_args": int(mask != 0), "ticks_inlined": len(st[0]),
            "same_type_on_two_elements": int(len(body) >= 2 and body[0][0] == body[1][0] == 1 and {body[0][1], body[1][1]} == {0, 1}),
            "stateful": sum(1 for b in body if b[0] == 5), "passive_inner": sum(1 for b in body if b[0] in (6, 7))}


def agree(case, impl_out, model_out):
    # the acceptor says whether the three streams are equal; inequality is judged (and classified) by the oracle
    return isinstance(model_out, list) and model_out in ([[1]], [[0]]) and \
        (model_out == [[1]]) == (isinstance(impl_out, list) and not [f for f in oracle("C09", case, impl_out)
                                                                       if f[0] in ("wire_nested_differs", "passive_arg_ignored_when_nested",
                                                                                   "wire_variant_failed", "crash", "nested_in_switch_differs")])


def shrink(case):
    body = [l for l in case if l[0] == 3]
    rest = [l for l in case if l[0] != 3]
    for i, l in enumerate(case):
        if l[0] == 2:
            yield case[:i] + case[i + 1:]
    if len(body) > 1:
        yield rest + body[:-1]
