"""Registry: property id -> Coq property file, correspondence families, budgets.
One JSON file per property under gen/props.d/."""
import json
import os

_D = os.path.join(os.path.dirname(os.path.abspath(__file__)), "props.d")
PROPS = {f[:-5]: json.load(open(os.path.join(_D, f))) for f in sorted(os.listdir(_D)) if f.endswith(".json")}
