"""Registry: property id -> Coq property file, correspondence families, budgets."""

PROPS = {
    "C18": {
        "coq": "Props/C18.v",
        "families": ["core"],
        "budget": {"core": {"quick": 600, "thorough": 20000}},
        "assumptions": ["wall-clock alarms (on_wall_clock=true) are outside this model; they belong to C17"],
    },
}
