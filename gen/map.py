"""Family `map` (property C10): the real map_ over TSD<int, TS<int>> inputs, wired with the static DSL
(cxx/map_driver.cpp), under the real simulation executor.  Model: coq/MapSpec.v (run_map), diff mode.

Case lines
  1 start end
  2 body p1 p2 ndict bcast usekey capture [shape]
        shape 0 map_(f, d0[, d1][, b]) | 1 map_(f, d0, no_key(d1)[, b]) | 2 map_(f, b, d0, no_key(d1)) | 3 map_(f, b, no_key(d1), d0)
              4 map_(f, b, d0[, d1]) (broadcast argument in front) | 5 map_ over dynamic lists, the index is the key (sets only,
              an index is appended only at the current length)
        capture 1: exception_time_series(map_(...)) is wired and observed, also for bodies that never fail
        body 0 add p1 | 1 acc | 2 acc;add p1 | 3 timer d=p1 tagged=p2 | 4 timer;acc | 5 acc;boom p1 (capture = 1)
             7 boom p1 (stateless: throws whenever its input is p1, so a key fails repeatedly with identical inputs; capture = 1)
             6 nested: the body is map_(y + x, <whole dict 1, passed through>, x) summed over its elements; ndict = 1,
               dict 1 is the passed-through dictionary (its operations always change it); lines 20 21 24 are omitted
        ndict 1|2 multiplexed dictionaries; bcast 1: a broadcast TS<int> second argument (ndict = 1 only)
        usekey 1: the body takes the key (x := key*1000 + x) and carries a lifecycle probe
  3 dict time code key val [pert]     code 1 set, 2 erase; program order within a cycle = line order
                                      a 7th field marks an operation that exists only in the perturbed twin
  4 time val                          broadcast tick
  9 key                               this case is the twin of the case without line 9 / marked ops, perturbed on `key`
Observation lines (per cycle, only when something happened; keys sorted)
  20 t n      n child graphs started         21 t n      n child graphs stopped
  22 t k..    lifecycle probes first run     23 t k..    lifecycle probes stopped          (usekey only)
  30 t        the map output ticked
  31 t k..    removed keys        32 t k v ..  modified valid elements     33 t k..  modified but invalid elements
  34 t k v .. all valid elements  35 t k..     live element keys (valid or not)            36 t k..  added keys
  37 t k..    the error dictionary ticked: keys whose error element ticked      38 t k..  keys removed from the error dictionary
              (capture = 1; both lines for EVERY tick of the error dictionary, also one with an empty delta)
  24 n        child graphs stopped at shutdown     25 k..  probes stopped at shutdown (usekey only)
  19 code     an exception escaped the run         18 1    the graph could not be built
"""
import random

NAME = "map"
DRIVER_SRCS = ["map_driver.cpp"]
MODEL_FAMILY = "map"
MODE = "diff"
BUDGET = {"quick": 400, "thorough": 30000}

BODIES = [0, 1, 2, 3, 4]


# ---------------------------------------------------------------- generator
_pending_twin = []


def _gen_base(rng, tier):
    quick = tier == "quick"
    start = rng.randint(1, 3)
    ncyc = rng.randint(3, 15 if quick else 40)
    body = rng.choice([0, 1, 1, 2, 3, 3, 3, 4, 4, 5, 5, 7, 7])
    p1 = rng.randint(-3, 9) if body in (0, 2) else rng.choice([1, 1, 2, 2, 3, 4, 5, 0]) if body in (3, 4) else 0
    p2 = rng.randint(0, 1) if body in (3, 4) else 0
    mode = rng.random()
    ndict, bcast = (2, 0) if mode < 0.3 else (1, 1) if mode < 0.5 else (1, 0)
    nested = rng.random() < 0.10
    shape = 0
    if nested:
        body, p1, p2, ndict, bcast = 6, 0, 0, 1, 0
    else:
        r = rng.random()
        if r < 0.12:
            return _gen_lists(rng, tier, start, body, p1, p2)
        if r < 0.26:
            # the second dictionary is a no_key(...) input; in shapes 2 and 3 a broadcast argument precedes the dictionaries
            shape = rng.choice([1, 1, 2, 2, 3])
            ndict = 2
            bcast = 1 if shape in (2, 3) else rng.randint(0, 1)
        elif r < 0.32:
            shape, bcast, ndict = 4, 1, rng.choice([1, 2])
    usekey = 1 if rng.random() < 0.5 else 0
    # the error output is wired and observed also in runs in which nothing fails
    capture = 1 if body in (0, 1, 2, 3, 4) and rng.random() < 0.25 else 0
    if body == 7:
        # stateless failing body: the SAME key fails again and again with identical inputs (consecutive cycles and
        # fail / quiet / fail), alone and together with other failing keys; every failing cycle must tick the error entry
        capture = 1
        if rng.random() < 0.7:
            ndict, bcast, shape, usekey = 1, 0, 0, 0
    burst = rng.random() < (0.12 if quick else 0.2)
    nkeys = rng.randint(1, 6) if not burst else rng.randint(9, 70)
    pool = rng.sample(range(1, 90), nkeys) if rng.random() < 0.7 else list(range(1, nkeys + 1))
    times = []
    t = start + (0 if rng.random() < 0.6 else rng.randint(1, 2))
    for _ in range(ncyc):
        times.append(t)
        t += rng.choice([1, 1, 1, 2, 2, 3])
    end = t + rng.randint(0, 6)
    case = [[1, start, end], [2, body, p1, p2, ndict, bcast, usekey, capture, shape]]
    d1keys = set()
    present = [set() for _ in range(ndict)]
    gone = [set() for _ in range(ndict)]
    for t in times:
        for d in range(ndict):
            if ndict == 2 and rng.random() < 0.35:
                continue
            r = rng.random()
            nops = 0 if r < 0.1 else rng.randint(1, 3) if r < 0.8 else rng.randint(3, 8)
            if burst and rng.random() < 0.3:
                nops = rng.randint(8, 40)
            for _ in range(nops):
                q = rng.random()
                pres, gn = present[d], gone[d]
                if q < 0.30 or not pres:
                    cand = [k for k in pool if k not in pres]
                    if ndict == 2 and rng.random() < 0.5:
                        other = [k for k in present[1 - d] if k not in pres]
                        cand = other or cand
                    if gn and rng.random() < 0.5:
                        cand = [k for k in gn if k not in pres] or cand          # re-add
                    if not cand:
                        continue
                    k = rng.choice(cand)
                    case.append([3, d, t, 1, k, rng.randint(-5, 40)])
                    pres.add(k)
                    gn.discard(k)
                elif q < 0.62:
                    k = rng.choice(sorted(pres))
                    case.append([3, d, t, 1, k, rng.randint(-5, 40)])
                elif q < 0.86:
                    k = rng.choice(sorted(pres))
                    case.append([3, d, t, 2, k, 0])
                    pres.discard(k)
                    gn.add(k)
                elif q < 0.93:
                    k = rng.choice(sorted(pres))                                 # remove and re-add in one cycle
                    case.append([3, d, t, 2, k, 0])
                    case.append([3, d, t, 1, k, rng.randint(-5, 40)])
                else:
                    cand = [k for k in pool if k not in pres]
                    if cand:
                        k = rng.choice(cand)                                     # add and remove in one cycle
                        case.append([3, d, t, 1, k, rng.randint(-5, 40)])
                        case.append([3, d, t, 2, k, 0])
        if nested and rng.random() < 0.45:
            # the passed-through dictionary: only operations that really change it
            touched = set()
            for _ in range(rng.randint(1, 3)):
                if not (d1keys - touched) or rng.random() < 0.6:
                    k = rng.randint(1, 6)
                    if k in touched:
                        continue
                    case.append([3, 1, t, 1, k, rng.randint(0, 30) * 10 + (0 if k not in d1keys else 5)])
                    d1keys.add(k)
                else:
                    k = rng.choice(sorted(d1keys - touched))
                    case.append([3, 1, t, 2, k, 0])
                    d1keys.discard(k)
                touched.add(k)
        if bcast and (rng.random() < 0.3 or (t == times[0] and rng.random() < 0.6)):
            case.append([4, t, rng.randint(-9, 60)])
    if bcast and rng.random() < 0.3:
        case.append([4, end - 1 if end - 1 >= start else start, rng.randint(0, 9)])
    if body == 7:
        fail = rng.randint(0, 9)
        case[1][2] = fail
        for l in case:
            if l[0] == 3 and l[3] == 1 and l[1] == 0:
                l[5] = fail if rng.random() < 0.55 else rng.randint(0, 9)
    if body == 5:
        # failing body (errors captured per key): throw when some key's running sum reaches a value it really reaches
        case[1][7] = 1
        h = parse_case(case)
        h["p1"] = 10 ** 9
        sums = []
        for k, evs in reference(h).items():
            sums += [v for (_, kind, v) in evs if kind == "out"]
        case[1][2] = rng.choice(sums) if sums and rng.random() < 0.9 else rng.randint(0, 50)
    return case


def _gen_lists(rng, tier, start, body, p1, p2):
    """map_ over one or two dynamic lists (the index is the key): grow-only; the lists have different lengths, a pending
    index is filled by the shorter list alone or in the very cycle in which the longer one grows too."""
    quick = tier == "quick"
    nl = rng.choice([1, 2, 2, 2])
    bcast = 1 if rng.random() < 0.25 else 0
    usekey = 1 if rng.random() < 0.4 else 0
    if body in (5, 7):
        body = 1
    ncyc = rng.randint(3, 12 if quick else 30)
    t = start + (0 if rng.random() < 0.6 else rng.randint(1, 2))
    case = [[1, start, 0], [2, body, p1, p2, nl, bcast, usekey, 0, 5]]
    length = [0] * nl
    for _ in range(ncyc):
        both = nl == 2 and rng.random() < 0.35          # both lists grow in this cycle
        for d in range(nl):
            if not both and nl == 2 and rng.random() < 0.4:
                continue
            nops = rng.randint(1, 3) if rng.random() < 0.85 else rng.randint(3, 8)
            touched = set()
            for i in range(nops):
                if length[d] == 0 or (both and i == 0) or rng.random() < 0.4:
                    idx = length[d]
                    length[d] += 1
                else:
                    idx = rng.randrange(length[d])
                if idx in touched:
                    continue
                touched.add(idx)
                case.append([3, d, t, 1, idx, rng.randint(-5, 40)])
        if bcast and rng.random() < 0.35:
            case.append([4, t, rng.randint(-9, 60)])
        t += rng.choice([1, 1, 1, 2, 2, 3])
    case[0][2] = t + rng.randint(0, 6)
    return case


def _twin(rng, case):
    """The same history with one key's stream perturbed (extra ticks, early removal, late arrival)."""
    hdr = parse_case(case)
    if hdr["shape"] == 5:
        return None
    keys = sorted({l[4] for l in case if l[0] == 3 and l[1] < hdr["ndict"]})
    if not keys:
        return None
    pk = rng.choice(keys)
    times = sorted({l[2] for l in case if l[0] == 3})
    out = [l[:] for l in case]
    extra = []
    for t in times:
        if rng.random() < 0.5:
            d = rng.randrange(hdr["ndict"])
            if rng.random() < 0.7:
                extra.append([3, d, t, 1, pk, rng.randint(100, 140), 1])
            else:
                extra.append([3, d, t, 2, pk, 0, 1])
    if not extra:
        extra.append([3, 0, times[0], 1, pk, 123, 1])
    return out + extra + [[9, pk]]


def gen(rng, tier, prop):
    if _pending_twin:
        return _pending_twin.pop()
    case = _gen_base(rng, tier)
    if rng.random() < 0.25:
        tw = _twin(rng, case)
        if tw:
            _pending_twin.append(tw)
    return case


def enumerate_cases(prop):
    """Exhaustive small space (thorough tier): timer bodies, 2 keys, 3 consecutive cycles, every combination of
    {nothing, set, erase} per key and cycle, delays 1..3, untagged and tagged: all interleavings of wake-ups with other keys' ticks,
    removals with pending timers and re-adds within the smallest window."""
    import itertools
    for d, tagged in ((1, 0), (2, 0), (3, 0), (1, 1), (2, 1)):
        for combo in itertools.product(range(3), repeat=6):
            case = [[1, 1, 9], [2, 3, d, tagged, 1, 0, 0, 0]]
            n = 0
            for i, c in enumerate(combo):
                t, k = 1 + i // 2, 5 + i % 2
                if c == 1:
                    case.append([3, 0, t, 1, k, 10 * t + k])
                    n += 1
                elif c == 2:
                    case.append([3, 0, t, 2, k, 0])
            if n >= 2:
                yield case


# ---------------------------------------------------------------- reference semantics (Python, independent of Coq)
def parse_case(case):
    h = dict(start=1, end=10, body=0, p1=0, p2=0, ndict=1, bcast=0, usekey=0, capture=0, shape=0, dops={}, bops={}, pert=None)
    for l in case:
        if l[0] == 1:
            h["start"], h["end"] = l[1], l[2]
        elif l[0] == 2:
            h["body"], h["p1"], h["p2"], h["ndict"], h["bcast"], h["usekey"], h["capture"] = l[1:8]
            h["shape"] = l[8] if len(l) > 8 else 0
        elif l[0] == 3:
            h["dops"].setdefault(l[2], []).append((l[1], l[3], l[4], l[5]))
        elif l[0] == 4:
            h["bops"][l[1]] = l[2]
        elif l[0] == 9:
            h["pert"] = l[1]
    # dictionaries that own keys: a no_key(...) dictionary is de-multiplexed but contributes no keys
    h["nokey"] = h["shape"] in (1, 2, 3)
    h["own"] = 1 if h["nokey"] else h["ndict"]
    return h


# Before commit 8043915 of /repo the evaluation cursor of a child graph stayed on the node that threw after a
# captured error, so the child's next evaluation was lost (DESIGN.md 8.1, property C15).  Repaired; the
# switch (also coq/MapSpec.v [lost_tick_after_error]) keeps the defective behaviour expressible.
C15_LOST_TICK = False


class Inst:
    """A fresh instance of the mapped body of the driver's vocabulary, run alone."""

    def __init__(self, h, key):
        self.h, self.key = h, key
        b = h["body"]
        self.stages = {0: ["add"], 1: ["acc"], 2: ["acc", "add"], 3: ["timer"], 4: ["timer", "acc"], 5: ["acc", "boom"], 7: ["boom"]}.get(b, ["add0"])
        self.km = None
        self.add2 = None
        self.acc = 0
        self.last = 0
        self.pend = []
        self.skip = False
        self.err = False
        self.outs = [None] * len(self.stages)

    def next_wake(self):
        return self.pend[0] if self.pend else None

    def step(self, t, first, args):
        """args: list of (value or None, modified).  Returns output value or None; sets self.err."""
        h = self.h
        self.err = False
        if self.skip:
            # graph.cpp evaluate_impl resumes at the node that threw (DESIGN.md 8.1, property C15): the
            # child's next evaluation evaluates nothing of this chain
            self.skip = False
            return None
        x = args[0]
        if h["usekey"]:
            if x[0] is not None and (x[1] or first):
                self.km = self.key * 1000 + x[0]
                x = (self.km, True)
            else:
                x = (self.km, False)
        if h["body"] == 6:
            (sm, ms), (n, mn) = args[1], args[2]
            if sm is None or x[0] is None:
                return None
            if first or ms or mn or (x[1] and n > 0):
                return sm + n * x[0]
            return None
        if len(args) >= 2:
            ys = args[1:]
            if x[0] is not None and all(y[0] is not None for y in ys) and (x[1] or any(y[1] for y in ys)):
                self.add2 = x[0] + sum(y[0] for y in ys)
                x = (self.add2, True)
            else:
                x = (self.add2, False)
        for i, sg in enumerate(self.stages):
            v, m = x
            ran = False
            if sg in ("add", "add0"):
                if v is not None and m:
                    self.outs[i] = v + (h["p1"] if sg == "add" else 0)
                    ran = True
            elif sg == "acc":
                if v is not None and m:
                    self.acc += v
                    self.outs[i] = self.acc
                    ran = True
            elif sg == "timer":
                due = bool(self.pend) and self.pend[0] <= t
                if v is not None and (m or due):
                    woke = bool(self.pend) and self.pend[0] == t
                    if woke:
                        self.outs[i] = self.last + 500
                        ran = True
                    self.pend = [w for w in self.pend if w > t]
                    if m:
                        self.last = v
                        if h["p1"] > 0:
                            w = t + h["p1"]
                            if h["p2"]:
                                self.pend = [w]
                            elif w not in self.pend:
                                self.pend = sorted(self.pend + [w])
            elif sg == "boom":
                if v is not None and m:
                    if v == h["p1"]:
                        self.err = True
                        self.skip = C15_LOST_TICK
                        return None
                    self.outs[i] = v
                    ran = True
            x = (self.outs[i], ran)
        return x[0] if x[1] else None


def whole_dict_args(h, t):
    """The passed-through dictionary 1 at time t as (sum, modified), (count, modified); invalid until it ticked."""
    d, valid, mod = {}, False, False
    for tt in sorted(h["dops"]):
        if tt > t:
            break
        for (di, c, k, v) in h["dops"][tt]:
            if di != 1:
                continue
            mod = mod or tt == t
            if c == 1:
                d[k], valid = v, True
            elif c == 2:
                d.pop(k, None)
    if not valid:
        return [(None, False), (None, False)]
    return [(sum(d.values()), mod), (len(d), mod)]


def reference(h):
    """Per key, per life: the output stream of a fresh instance fed that key's own element stream.
    Returns (cycles, per_key) where cycles is the sorted list of script times < end and per_key maps
    key -> list of events (t, kind, value): kind in start, stop, out, removed."""
    nd = h["own"]
    times = sorted(t for t in set(h["dops"]) | set(h["bops"]) if h["start"] <= t < h["end"])
    keys = sorted({op[2] for ops in h["dops"].values() for op in ops})
    # broadcast value timeline
    per_key = {}
    for k in keys:
        evs = []
        vals = [None] * nd
        side = None
        inst = None
        valid = False
        bc = None
        ti = 0
        t_prev = h["start"] - 1
        while True:
            nt = times[ti] if ti < len(times) else None
            wk = inst.next_wake() if inst else None
            cand = [x for x in (nt, wk) if x is not None and x > t_prev]
            if not cand:
                break
            t = min(cand)
            if t >= h["end"]:
                break
            mods = [False] * nd
            bmod = False
            smod = False
            if nt is not None and nt == t:
                ti += 1
                for (d, c, kk, v) in h["dops"].get(t, []):
                    if kk == k and d == 1 and h["nokey"]:
                        side, smod = (v, True) if c == 1 else (None, False)
                    if kk != k or d >= nd:
                        continue
                    if c == 1:
                        vals[d], mods[d] = v, True
                    elif c == 2:
                        vals[d], mods[d] = None, False
                if t in h["bops"]:
                    bc, bmod = h["bops"][t], True
            live = any(v is not None for v in vals)
            if inst is not None and not live:
                evs.append((t, "stop", 0))
                if valid:
                    evs.append((t, "removed", 0))
                inst, valid = None, False
            elif live:
                first = inst is None
                if first:
                    inst = Inst(h, k)
                    evs.append((t, "start", 0))
                args = [(vals[d], mods[d]) for d in range(nd)]
                if h["nokey"]:
                    args.append((side, smod))
                if h["bcast"]:
                    args.append((bc, bmod))
                if h["body"] == 6:
                    args += whole_dict_args(h, t)
                wake = inst.next_wake() is not None and inst.next_wake() <= t
                if first or any(a[0] is not None and a[1] for a in args) or wake:
                    o = inst.step(t, first, args)
                    if inst.err:
                        evs.append((t, "err", 0))
                    if o is not None:
                        evs.append((t, "out", o))
                        valid = True
            t_prev = t
        if inst is not None:
            evs.append((None, "final", 0))
        per_key[k] = evs
    return per_key


def observed(out):
    """impl_out -> per key event list in the same vocabulary as reference(); plus per-cycle tables."""
    cyc = {}
    for l in out:
        if l[0] in (20, 21, 22, 23, 30, 31, 32, 33, 34, 35, 36, 37, 38):
            cyc.setdefault(l[1], {})[l[0]] = l[2:]
    fin = {l[0]: l[1:] for l in out if l[0] in (24, 25, 19, 18)}
    return cyc, fin


def per_key_streams(out):
    """key -> list of (t, kind, value) from lines 32 (out) and 31 (removed)."""
    res = {}
    for l in out:
        if l[0] == 32:
            for i in range(2, len(l) - 1, 2):
                res.setdefault(l[i], []).append((l[1], "out", l[i + 1]))
        elif l[0] == 31:
            for k in l[2:]:
                res.setdefault(k, []).append((l[1], "removed", 0))
        elif l[0] == 37:
            for k in l[2:]:
                res.setdefault(k, []).append((l[1], "err", 0))
    return res


_PAIR = {}


def _canon(case):
    return "\n".join(" ".join(map(str, l)) for l in case)


def oracle(prop, case, out):
    if not isinstance(out, list):
        return [("crash", str(out)[:300])]
    fails = []
    h = parse_case(case)
    if any(l[0] in (18, 19) for l in out):
        return [("escaped_exception", "an exception escaped a run without failing bodies: %s" % [l for l in out if l[0] in (18, 19)])]
    ref = reference(h)
    cyc, fin = observed(out)
    # ---- expected per-cycle tables from the per-key solo runs
    exp = {}
    for k, evs in ref.items():
        for (t, kind, v) in evs:
            if t is None:
                continue
            exp.setdefault(t, {"start": [], "stop": [], "out": [], "removed": [], "err": []})[kind].append((k, v))
    live, valid = set(), {}
    err_entries = set()
    first_set = min([t for t, ops in h["dops"].items() if h["start"] <= t < h["end"] and any(o[1] == 1 and o[0] < h["own"] for o in ops)], default=None)
    for t in sorted(set(exp) | set(cyc) | ({first_set} if first_set is not None else set())):
        e = exp.get(t, {"start": [], "stop": [], "out": [], "removed": [], "err": []})
        o = cyc.get(t, {})
        for k, _ in e["stop"]:
            live.discard(k)
            valid.pop(k, None)
        for k, _ in e["start"]:
            live.add(k)
        for k, v in e["out"]:
            valid[k] = v
        # key-set mirroring / lifecycle
        if h["body"] != 6 and (o.get(20, [0])[0] != len(e["start"]) or o.get(21, [0])[0] != len(e["stop"])):
            fails.append(("lifecycle_mismatch", "t=%d: %s child starts / %s stops, the key set history implies %d / %d (keys +%s -%s)"
                          % (t, o.get(20, [0])[0], o.get(21, [0])[0], len(e["start"]), len(e["stop"]),
                             sorted(k for k, _ in e["start"]), sorted(k for k, _ in e["stop"]))))
        if h["usekey"]:
            if sorted(o.get(22, [])) != sorted(k for k, _ in e["start"]) or sorted(o.get(23, [])) != sorted(k for k, _ in e["stop"]):
                fails.append(("lifecycle_mismatch", "t=%d: probes started %s stopped %s, expected %s / %s"
                              % (t, o.get(22, []), o.get(23, []), sorted(k for k, _ in e["start"]), sorted(k for k, _ in e["stop"]))))
        # the output dictionary becomes valid (possibly empty) in the cycle the key set becomes known
        # the error dictionary: ticks exactly when some key's child raised (those keys) or a key that HAS an error entry
        # is removed (removed = that key); the removal of a key that never failed must be invisible on it
        exp_emod = sorted(k for k, _ in e["err"])
        exp_erem = sorted(k for k, _ in e["stop"] if k in err_entries)
        for k, _ in e["stop"]:
            err_entries.discard(k)
        err_entries.update(exp_emod)
        if h["capture"]:
            eticked = 37 in o or 38 in o
            if eticked and not exp_emod and not exp_erem:
                fails.append(("error_dict_spurious_tick", "t=%d: the error dictionary ticked (modified %s, removed %s) although no child raised "
                              "and no key with an error entry was removed (keys removed in this cycle: %s)"
                              % (t, o.get(37, []), o.get(38, []), sorted(k for k, _ in e["stop"]))))
            elif sorted(o.get(37, [])) != exp_emod or sorted(o.get(38, [])) != exp_erem:
                fails.append(("error_mismatch", "t=%d: error dictionary delta modified %s removed %s, the keys' own streams give modified %s removed %s"
                              % (t, o.get(37, []), o.get(38, []), exp_emod, exp_erem)))
        ticked = bool(e["start"] or e["stop"] or e["out"]) or t == first_set
        if h["shape"] == 5:
            ticked = bool(e["out"])       # a list output grows silently; it ticks with its elements
        if ticked != (30 in o):
            fails.append(("tick_mismatch", "t=%d: map output %s, expected %s" % (t, "ticked" if 30 in o else "silent", "a tick" if ticked else "silence")))
        if 30 in o:
            got_mod = dict(zip(o.get(32, [])[0::2], o.get(32, [])[1::2]))
            exp_mod = dict(e["out"])
            for k in sorted(set(got_mod) | set(exp_mod)):
                if k not in exp_mod:
                    fails.append(("spurious_output", "t=%d: key %d ticked %d but its own stream gives no tick here" % (t, k, got_mod[k])))
                elif k not in got_mod:
                    fails.append(("missing_output", "t=%d: key %d should tick %d (own stream, fresh instance) but did not" % (t, k, exp_mod[k])))
                elif got_mod[k] != exp_mod[k]:
                    fails.append(("value_mismatch", "t=%d: key %d ticked %d, a fresh instance run alone on its stream gives %d" % (t, k, got_mod[k], exp_mod[k])))
            if sorted(o.get(31, [])) != sorted(k for k, _ in e["removed"]):
                fails.append(("keyset_mismatch", "t=%d: removed keys %s, expected %s" % (t, o.get(31, []), sorted(k for k, _ in e["removed"]))))
            if o.get(33):
                fails.append(("invalid_published", "t=%d: modified elements without a valid value: %s" % (t, o.get(33))))
            got_all = dict(zip(o.get(34, [])[0::2], o.get(34, [])[1::2]))
            if got_all != valid:
                fails.append(("keyset_mismatch", "t=%d: output value %s, expected exactly the valid children %s" % (t, got_all, valid)))
            if sorted(o.get(35, [])) != sorted(live):
                fails.append(("keyset_mismatch", "t=%d: live element keys %s, input key set %s" % (t, o.get(35, []), sorted(live))))
    if h["body"] != 6 and 24 in fin and fin[24][0] != len(live):
        fails.append(("lifecycle_mismatch", "shutdown stopped %d children, %d keys were live" % (fin[24][0], len(live))))
    if h["usekey"] and 25 in fin and sorted(fin[25]) != sorted(live):
        fails.append(("lifecycle_mismatch", "shutdown stopped probes %s, live keys %s" % (fin[25], sorted(live))))
    # ---- isolation, metamorphic: the twin differs only in key `pert`'s stream
    if h["pert"] is None:
        _PAIR[_canon(case)] = out
    else:
        base = [l[:6] for l in case if not (l[0] == 9 or (l[0] == 3 and len(l) > 6))]
        bout = _PAIR.get(_canon(base))
        if bout is not None:
            a, b = per_key_streams(bout), per_key_streams(out)
            for k in sorted(set(a) | set(b)):
                if k != h["pert"] and a.get(k, []) != b.get(k, []):
                    fails.append(("isolation", "perturbing key %d's stream changed key %d's output stream: %s -> %s"
                                  % (h["pert"], k, a.get(k, [])[:6], b.get(k, [])[:6])))
    return fails


PROP_KINDS = {"C10": {"lifecycle_mismatch", "tick_mismatch", "spurious_output", "missing_output", "value_mismatch",
                      "keyset_mismatch", "invalid_published", "isolation", "escaped_exception", "error_mismatch",
                      "error_dict_spurious_tick"},
              # C15 (captured errors tick once, where they happen, under that key only) as far as the map family observes it
              "C15": {"error_mismatch", "error_dict_spurious_tick", "escaped_exception", "missing_output", "value_mismatch"}}


def nontrivial(case, out):
    if not isinstance(out, list):
        return False
    return sum(1 for l in out if l[0] == 32 and len(l) > 2) >= 2 and any(l[0] == 21 for l in out)


def stats(case, out):
    h = parse_case(case)
    ops = [op for ops in h["dops"].values() for op in ops]
    keys = {op[2] for op in ops if op[0] < h["ndict"]}
    st = {"cycles": len(set(h["dops"]) | set(h["bops"])), "ops": len(ops), "keys": len(keys),
          "sets": sum(1 for o in ops if o[1] == 1), "erases": sum(1 for o in ops if o[1] == 2),
          "two_dicts": int(h["ndict"] == 2), "bcast": int(h["bcast"]), "usekey": int(h["usekey"]),
          "body_%d" % h["body"]: 1, "shape_%d" % h["shape"]: 1, "capture": int(h["capture"]), "nested": int(h["body"] == 6), "twin": int(h["pert"] is not None), "many_keys": int(len(keys) >= 9)}
    if isinstance(out, list):
        st["starts"] = sum(l[2] for l in out if l[0] == 20)
        st["stops"] = sum(l[2] for l in out if l[0] == 21)
        st["out_ticks"] = sum((len(l) - 2) // 2 for l in out if l[0] == 32)
        st["removals"] = sum(len(l) - 2 for l in out if l[0] == 31)
        st["captured_errors"] = sum(len(l) - 2 for l in out if l[0] == 37)
        if h["capture"]:
            rep = 0
            for evs in reference(h).values():
                n = 0
                for (_, kind, _) in evs:
                    if kind == "err":
                        n += 1
                        rep += int(n == 2)
                    elif kind == "stop":
                        n = 0
            st["keys_failing_repeatedly"] = rep
        ref = reference(h)
        readd = sum(1 for evs in ref.values() if sum(1 for e in evs if e[1] == "start") >= 2)
        st["keys_readded"] = readd
        st["timer_wakes"] = sum(1 for l in out if l[0] == 32 and len(l) > 2) if h["body"] in (3, 4) else 0
        st["max_live"] = max([len(l) - 2 for l in out if l[0] == 35] + [0])
    return st


def shrink(case):
    idx = [i for i, l in enumerate(case) if l[0] in (3, 4)]
    # halves first, then single lines
    n = len(idx)
    if n > 4:
        for part in (idx[: n // 2], idx[n // 2:]):
            drop = set(part)
            yield [l for i, l in enumerate(case) if i not in drop]
    for i in idx:
        yield case[:i] + case[i + 1:]
    for i, l in enumerate(case):
        if l[0] == 1 and l[2] - l[1] > 2:
            yield case[:i] + [[1, l[1], l[2] - 1]] + case[i + 1:]
        if l[0] == 2 and l[6]:
            yield case[:i] + [l[:6] + [0] + l[7:]] + case[i + 1:]
        if l[0] == 3 and l[3] == 1 and l[5] not in (0, 1):
            yield case[:i] + [l[:5] + [1] + l[6:]] + case[i + 1:]
