"""Family `mesh` (property C01): the real stdlib::mesh_ (src/hgraph/runtime/mesh_node.cpp) over TSD<int, TS<int>>
inputs, wired with the static DSL (cxx/mesh_driver.cpp), under the real simulation executor.
Model: coq/Mesh.v (run_mesh), diff mode.

Program (fixed; the data is the case)
  mesh_(Body, val, link1, link2 [, __keys__ = keys]);   Body(key, val, l1, l2):
      tag(key); seen = probe(key, val); d1 = mesh_ref(l1); d2 = mesh_ref(l2); out = comb(key, seen, d1, d2)
      comb = (val + 3*d1 + 7*d2) mod 1000003, an invalid input counts 0
Case lines
  1 start end
  2 explicit_keys            1: the key set is the separate TSS source (which = 3), else the union of the dict key sets
  3 which t op key val       which 0 val | 1 link1 | 2 link2 | 3 key set;  op 1 set/add, 2 erase/remove
Observation lines (in order of occurrence inside a root cycle)
  10 t                  a root cycle in which something below happened
  11 k                  child graph of k: a fresh evaluation begins        16 k   child graph of k: evaluation ended
  15 k w                mesh_subscribe node w (1|2) of k evaluated
  12 k v                probe of k evaluated
  13 k vv v d1v d1 d2v d2 out     comb of k evaluated (validity flags and values read, result)
  30 k v ..             mesh output: modified valid elements   31 k ..  removed keys
  34 k v ..             all valid elements                      35 k ..  live keys
  19 code               the run stopped with an exception: 3 dependency cycle, 4 failed to settle, 1 other
  18 1                  the graph could not be built
"""
import random

NAME = "mesh"
DRIVER_SRCS = ["mesh_driver.cpp"]
MODEL_FAMILY = "mesh"
MODE = "diff"
BUDGET = {"quick": 150, "thorough": 5000}
MOD = 1000003


def comb(v, d1, d2):
    return (v + 3 * d1 + 7 * d2) % MOD


# ---------------------------------------------------------------- generator
def _acyclic_target(rng, order, k, pool_extra, p_extra=0.12):
    """a key later than k in `order` (so the link graph is acyclic), or an on-demand key outside the value keys"""
    i = order.index(k)
    later = order[i + 1:]
    if pool_extra and (not later or rng.random() < p_extra):
        return rng.choice(pool_extra)
    return rng.choice(later) if later else None


def gen(rng, tier, prop):
    quick = tier == "quick"
    r = rng.random()
    if r < 0.03:
        return _gen_malformed(rng)
    nkeys = rng.choice([2, 3, 3, 4, 4, 5, 5, 6] if quick else [2, 3, 4, 4, 5, 5, 6, 7, 8])
    keys = rng.sample(range(1, 12), nkeys) if rng.random() < 0.5 else list(range(1, nkeys + 1))
    order = keys[:]
    rng.shuffle(order)                    # links go from earlier to later in this order
    extra = [k for k in (0, 20, 21) if rng.random() < 0.3]     # on-demand only keys (never in val)
    explicit = 1 if rng.random() < 0.25 else 0
    ncyc = rng.randint(2, 6 if quick else 9)
    start = rng.randint(1, 2)
    times, t = [], start + rng.randint(0, 1)
    for _ in range(ncyc):
        times.append(t)
        t += rng.choice([1, 1, 2])
    end = t + 1 if rng.random() < 0.93 else times[-1]         # sometimes the window cuts the last cycle off
    case = [[1, start, end], [2, explicit]]
    cyc_p = 0.04 if rng.random() < 0.3 else 0.0           # chance that a link ignores the order (may close a cycle)
    two = rng.random() < 0.5                              # use the second link dictionary
    val, l1, l2, ks = {}, {}, {}, set()
    dicts = [val, l1, l2]

    def setd(which, t, k, v):
        case.append([3, which, t, 1, k, v])
        dicts[which][k] = v

    def erased(which, t, k):
        case.append([3, which, t, 2, k, 0])
        dicts[which].pop(k, None)

    def pick_target(k, which=1):
        other = dicts[3 - which].get(k)
        for _ in range(4):
            j = rng.choice(keys + extra) if rng.random() < cyc_p else _acyclic_target(rng, order, k, extra)
            if j is not None and j != other:
                return j
        return None

    first = True
    for t in times:
        if first:
            init = [k for k in keys if rng.random() < 0.8] or keys[:1]
            for k in init:
                setd(0, t, k, rng.randint(0, 9))
            for k in init:
                if rng.random() < 0.75:
                    j = pick_target(k)
                    if j is not None:
                        setd(1, t, k, j)
                if two and rng.random() < 0.4:
                    j = pick_target(k, 2)
                    if j is not None:
                        setd(2, t, k, j)
            if explicit:
                for k in keys:
                    if rng.random() < 0.8:
                        case.append([3, 3, t, 1, k, 0])
                        ks.add(k)
            first = False
            continue
        # value ticks: the interesting event is WHICH keys tick together
        present = sorted(val)
        m = rng.random()
        if m < 0.15:
            tick = []
        elif m < 0.45:
            tick = rng.sample(present, 1) if present else []
        elif m < 0.85:
            tick = rng.sample(present, min(len(present), rng.randint(2, 3))) if present else []
        else:
            tick = present
        for k in sorted(tick):
            setd(0, t, k, rng.randint(0, 99))
        q = rng.random()
        if q < 0.25:                                  # retarget / create a link
            k = rng.choice(keys)
            which = 2 if two and rng.random() < 0.4 else 1
            j = pick_target(k, which)
            if j is not None:
                setd(which, t, k, j)
        elif q < 0.33:                                # drop a link
            which = 2 if two and rng.random() < 0.4 else 1
            if dicts[which]:
                erased(which, t, rng.choice(sorted(dicts[which])))
        elif q < 0.41:                                # a new value key
            cand = [k for k in keys if k not in val]
            if cand:
                setd(0, t, rng.choice(cand), rng.randint(0, 9))
        if explicit and rng.random() < 0.3:
            cand = [k for k in keys if k not in ks]
            if cand:
                k = rng.choice(cand)
                case.append([3, 3, t, 1, k, 0])
                ks.add(k)
    return case


def _gen_malformed(rng):
    case = [[1, 1, 4]]
    for _ in range(rng.randint(0, 4)):
        case.append([rng.randint(0, 5)] + [rng.randint(0, 4) for _ in range(rng.randint(0, 6))])
    return case


def enumerate_cases(prop):
    """chains / diamonds over 3-4 keys x every subset of value keys ticking together in the second cycle"""
    shapes = [
        {2: [1], 3: [2]},                      # chain 3 -> 2 -> 1
        {1: [2], 2: [3]},                      # chain 1 -> 2 -> 3 (slots against ranks)
        {2: [1], 3: [2], 4: [3]},              # chain of four
        {2: [1], 3: [1], 4: [2, 3]},           # diamond
        {1: [3], 2: [3], 4: [1, 2]},           # diamond, other slot order
        {3: [1, 2]},                           # fan-in
        {2: [1], 3: [1]},                      # fan-out
    ]
    for sh in shapes:
        keys = sorted(set(sh) | {j for js in sh.values() for j in js})
        for mask in range(1, 1 << len(keys)):
            case = [[1, 1, 6], [2, 0]]
            for k in keys:
                case.append([3, 0, 1, 1, k, k])
            for k, js in sorted(sh.items()):
                for w, j in enumerate(js):
                    case.append([3, 1 + w, 1, 1, k, j])
            for i, k in enumerate(keys):
                if mask >> i & 1:
                    case.append([3, 0, 2, 1, k, 10 + k])
            case.append([3, 0, 4, 1, keys[0], 50])
            yield case


# ---------------------------------------------------------------- parsing
def parse_case(case):
    h = {"start": 1, "end": 10, "explicit": 0, "ops": {}}
    for l in case:
        if not l:
            continue
        if l[0] == 1 and len(l) >= 3:
            h["start"], h["end"] = l[1], l[2]
        elif l[0] == 2 and len(l) >= 2:
            h["explicit"] = l[1]
        elif l[0] == 3 and len(l) >= 6 and 0 <= l[1] <= 3:
            h["ops"].setdefault(l[2], []).append((l[1], l[3], l[4], l[5]))
    return h


def cycles_of(out):
    """[(t, events, sink)] ; events = [(code, key, rest...)], sink = {30: {...}, 31: [...], 34: {...}, 35: [...]}; error code"""
    cyc, err, cur = [], None, None
    for l in out:
        c = l[0]
        if c == 10:
            cur = {"t": l[1], "ev": [], "sink": {}}
            cyc.append(cur)
        elif c in (18, 19):
            err = (c, l[1] if len(l) > 1 else 0)
        elif cur is None:
            continue
        elif c in (11, 12, 13, 15, 16):
            cur["ev"].append(tuple(l))
        elif c in (30, 34):
            cur["sink"][c] = dict(zip(l[1::2], l[2::2]))
        elif c in (31, 35):
            cur["sink"][c] = list(l[1:])
    return cyc, err


# ---------------------------------------------------------------- oracle (the property on the implementation's trace)
def _cyclic(edges):
    color = {}

    def dfs(u):
        color[u] = 1
        for v in edges.get(u, ()):
            if color.get(v) == 1:
                return True
            if color.get(v) is None and dfs(v):
                return True
        color[u] = 2
        return False
    return any(color.get(u) is None and dfs(u) for u in list(edges))


def _edges(dicts, requested):
    """links of the instances that exist: the requested keys and whatever they reach (on-demand instances are
    bound to the dictionary elements of their key as well)"""
    e, todo, seen = {}, list(requested), set()
    while todo:
        k = todo.pop()
        if k in seen:
            continue
        seen.add(k)
        for w in (1, 2):
            j = dicts[w].get(k)
            if j is not None:
                e.setdefault(k, set()).add(j)
                todo.append(j)
    return e


def oracle(prop, case, out):
    """C01 on the trace of the real node, no model involved:
       (a) no user node of a child runs twice in an engine cycle (pauses and re-entries included);
       (b) a child's comb never runs before the comb of a child it reads through mesh_ref in the same cycle, the
           value it reads is that child's current value, and at the end of every cycle every reader holds the
           current value of what it references (a reference that ticked re-evaluates its readers);
       (c) the run stops with the dependency-cycle error exactly when the link graph of the requested keys is
           cyclic (a cycle that only exists between the old and the new links of one engine cycle is reported
           too: `transient_cycle_report`, informational)."""
    if isinstance(out, dict):
        return [("crash", str(out)[:200])]
    fails = []
    h = parse_case(case)
    cyc, err = cycles_of(out)
    if err and err[0] == 18:
        return [("build_error", "")]
    if h["start"] < 1 or h["end"] <= h["start"] or h["end"] > 1000000:
        return [] if err == (19, 1) else [("run_error", "window not rejected")]
    dicts = [{}, {}, {}]
    requested = set()
    tick_t = [{}, {}, {}]              # (which, key) -> last time the source element ticked
    cur_out = {}                       # key -> last comb result (the element's current value)
    last_read = {}                     # key -> {w: (target, valid, value)} of its latest comb evaluation
    bycycle = {c["t"]: c for c in cyc}
    err_t = cyc[-1]["t"] if (cyc and err and err[0] == 19) else None
    times = sorted(t for t in set(h["ops"]) | set(bycycle) if h["start"] <= t < h["end"])      # the engine stops before end_time
    cyclic_at = None
    prev_edges = {}
    for t in times:
        for (which, op, k, v) in h["ops"].get(t, []):
            if which == 3:
                if op == 1:
                    requested.add(k)
                elif op == 2:
                    requested.discard(k)
                continue
            if op == 1:
                dicts[which][k] = v
                tick_t[which][k] = t
            elif op == 2 and k in dicts[which]:
                del dicts[which][k]
                tick_t[which][k] = t
        if not h["explicit"]:
            requested = set(dicts[0]) | set(dicts[1]) | set(dicts[2])
        edges = _edges(dicts, requested)
        if cyclic_at is None and _cyclic(edges):
            cyclic_at = t
        if err_t == t and err[1] == 3 and cyclic_at is None:
            both = {k: set(v) | prev_edges.get(k, set()) for k, v in edges.items()}
            for k, v in prev_edges.items():
                both.setdefault(k, set()).update(v)
            fails.append(("transient_cycle_report" if _cyclic(both) else "spurious_cycle_report",
                          "t=%d dependency cycle reported; links at the end of the cycle %s" % (t, sorted((k, sorted(v)) for k, v in edges.items()))))
        prev_edges = edges
        c = bycycle.get(t)
        if c is None:
            continue
        live = set(c["sink"].get(35, []))
        for k in c["sink"].get(31, []):
            cur_out.pop(k, None)
            last_read.pop(k, None)
        nprobe, ncomb, comb_at = {}, {}, {}
        for i, e in enumerate(c["ev"]):
            code, k = e[0], e[1]
            if code == 12:
                nprobe[k] = nprobe.get(k, 0) + 1
                if nprobe[k] == 2:
                    fails.append(("evaluated_twice", "t=%d key=%d probe ran twice" % (t, k)))
            elif code == 13:
                ncomb[k] = ncomb.get(k, 0) + 1
                if ncomb[k] == 2:
                    fails.append(("evaluated_twice", "t=%d key=%d comb ran twice" % (t, k)))
                vv, v, d1v, d1, d2v, d2, r = e[2:9]
                if r != comb(v, d1, d2):
                    fails.append(("value_mismatch", "t=%d key=%d out %d != f(%d,%d,%d)" % (t, k, r, v, d1, d2)))
                for w, (dv, d) in ((1, (d1v, d1)), (2, (d2v, d2))):
                    j = dicts[w].get(k)
                    if dv and j is not None and j in cur_out and cur_out[j] != d:
                        fails.append(("wrong_mesh_read", "t=%d key=%d read %d from key %d whose value was %d" % (t, k, d, j, cur_out[j])))
                comb_at[k] = i
                cur_out[k] = r
                last_read[k] = {1: (dicts[1].get(k), d1v, d1), 2: (dicts[2].get(k), d2v, d2)}
        for k, i in comb_at.items():
            for w in (1, 2):
                j = dicts[w].get(k)
                if j is not None and j in comb_at and comb_at[j] > i:
                    fails.append(("dependency_not_settled", "t=%d key %d evaluated (event %d) before key %d (event %d) which it reads through link%d"
                                  % (t, k, i, j, comb_at[j], w)))
        if err_t == t:
            continue                       # the cycle was abandoned by the exception
        allv = c["sink"].get(34, {})
        for k in sorted(live):
            lr = last_read.get(k)
            if lr is None:
                continue
            for w in (1, 2):
                j = dicts[w].get(k)
                tgt, dv, d = lr[w]
                if j is None:
                    continue
                if j != tgt:
                    if tick_t[w].get(k) == t:
                        fails.append(("retarget_not_reevaluated", "t=%d key %d link%d now %d but its comb last read key %s" % (t, k, w, j, tgt)))
                        lr[w] = (j, dv, d)
                    continue
                if j in allv and (not dv or d != allv[j]):
                    fails.append(("stale_mesh_read", "t=%d key %d holds %s of key %d (link%d) whose value is %d at the end of the cycle"
                                  % (t, k, d if dv else "nothing", j, w, allv[j])))
                    lr[w] = (j, 1, allv[j])          # reported once, where it arises
        for k, v in allv.items():
            if k in cur_out and cur_out[k] != v:
                fails.append(("output_mismatch", "t=%d key %d element %d but its comb wrote %d" % (t, k, v, cur_out[k])))
    if err and err[0] == 19:
        if err[1] == 4:
            fails.append(("failed_to_settle", "mesh_ failed to settle within the cycle (t=%s)" % err_t))
        elif err[1] != 3:
            fails.append(("run_error", "exception code %d" % err[1]))
        elif cyclic_at is not None and err_t != cyclic_at:
            fails.append(("cycle_not_reported", "link graph cyclic from t=%d, error reported at t=%s" % (cyclic_at, err_t)))
    elif cyclic_at is not None:
        fails.append(("cycle_not_reported", "link graph of the requested keys is cyclic at t=%d but the run went on" % cyclic_at))
    return fails


PROP_KINDS = {"C01": {"evaluated_twice", "dependency_not_settled", "stale_mesh_read", "retarget_not_reevaluated",
                      "wrong_mesh_read", "value_mismatch", "output_mismatch", "cycle_not_reported",
                      "spurious_cycle_report", "failed_to_settle", "run_error", "build_error"}}
# `transient_cycle_report` is informational (docs/notes-mesh.md, observation O1)


def agree(case, impl_out, model_out):
    # [[99]]: the model met a re-creation of an instance whose slot is still pending erase (not modelled)
    return model_out == [[99]] or impl_out == model_out


def nontrivial(case, out):
    if isinstance(out, dict):
        return False
    cyc, err = cycles_of(out)
    # some cycle evaluated at least two children of which one reads the other
    for c in cyc:
        if sum(1 for e in c["ev"] if e[0] == 13) >= 2 and any(e[0] == 15 for e in c["ev"]):
            return True
    return False


def stats(case, out):
    if isinstance(out, dict):
        return {"crash": 1}
    cyc, err = cycles_of(out)
    s = {"cycles": len(cyc), "child_evals": 0, "subscribe_evals": 0, "pauses": 0, "multi_child_cycles": 0,
         "cycle_errors": 1 if err and err[1] == 3 else 0, "other_errors": 1 if err and err[1] != 3 else 0}
    for c in cyc:
        n13 = sum(1 for e in c["ev"] if e[0] == 13)
        s["child_evals"] += n13
        s["subscribe_evals"] += sum(1 for e in c["ev"] if e[0] == 15)
        if n13 >= 2:
            s["multi_child_cycles"] += 1
        # a subscribe node evaluated twice in one cycle = a pause and a resume
        seen = {}
        for e in c["ev"]:
            if e[0] == 15:
                seen[(e[1], e[2])] = seen.get((e[1], e[2]), 0) + 1
        s["pauses"] += sum(v - 1 for v in seen.values() if v > 1)
    return s


def shrink(case):
    head = [l for l in case if not l or l[0] != 3]
    ops = [l for l in case if l and l[0] == 3]
    for i in range(len(ops)):
        yield head + ops[:i] + ops[i + 1:]
    ts = sorted({l[2] for l in ops})
    for t in ts[1:]:
        yield head + [l for l in ops if l[2] != t]
    for i, l in enumerate(ops):
        if l[1] == 0 and l[3] == 1 and l[5] > 1:
            yield head + ops[:i] + [l[:5] + [1]] + ops[i + 1:]


if __name__ == "__main__":
    import subprocess, sys, os, glob
    n = int(sys.argv[1]) if len(sys.argv) > 1 else 200
    seed = int(sys.argv[2]) if len(sys.argv) > 2 else 1
    rng = random.Random(seed)
    cases = list(enumerate_cases("C01")) if n == 0 else [gen(rng, "quick", "C01") for _ in range(n)]
    path = "/var/tmp/hgv-mesh-scratch/batch.txt"
    with open(path, "w") as f:
        for c in cases:
            for l in c:
                f.write(" ".join(map(str, l)) + "\n")
            f.write("#\n")
    drv = sorted(glob.glob(os.path.join(os.path.dirname(__file__), "..", ".cache", "bin", "mesh_driver-*")))[-1]
    drv = os.environ.get("MESH_DRV", drv)
    env = dict(os.environ, LD_LIBRARY_PATH="/venv/lib/python3.12/site-packages/pyarrow")
    p = subprocess.run([drv, path], capture_output=True, text=True, env=env, timeout=600)
    outs, cur = [], []
    for s in p.stdout.splitlines():
        if s.startswith("#"):
            outs.append(cur)
            cur = []
        else:
            cur.append([int(x) for x in s.split()])
    print("rc", p.returncode, "cases", len(cases), "outs", len(outs))
    kinds = {}
    for c, o in zip(cases, outs):
        for k, d in oracle("C01", c, o):
            kinds.setdefault(k, []).append((c, d))
    for k, v in sorted(kinds.items()):
        print(k, len(v), v[0][1])
    tot = {}
    for c, o in zip(cases, outs):
        for k, v in stats(c, o).items():
            tot[k] = tot.get(k, 0) + v
    print(tot, "nontrivial", sum(1 for c, o in zip(cases, outs) if nontrivial(c, o)))
    if len(sys.argv) > 3:
        k = sys.argv[3]
        for c, d in kinds.get(k, [])[:3]:
            print(d)
            print("\n".join(" ".join(map(str, l)) for l in c))
            print("--")
