"""Family `rank`: wiring programs run through the real `Wiring` API (cxx/rank_driver.cpp) in several
admissible statement orders; the proved model (coq/Rank.v, coq/Intern.v, coq/RankRun.v) is an
ACCEPTOR fed `case ++ [[-1]] ++ implementation output`.  Serves C01 (ranking half) and C06.

Case format (lines of integers; a statement's label is its position among the statement lines):
  [1, end_time, exec]
  [2, label, kind, def, uniq, out_ty, has_sc, nsc, sc...]      node statement
        kind 0 pull source, 1 compute, 2 sink, 3 push source, 4 feedback source, 5 feedback sink,
             6 nested_<SinkAndOutG>(x) (a sub-graph with a counting sink and x+1 as output), 7 try_except_<SinkG>(x),
             8 wire<PlusOne>(x): a STATIC node (its instances share one process-wide runtime node type),
             9 wire<RsSink>(x): an OUTPUT-LESS static node that declares RecordableState (a journal-style sink)
  [3, label, slot, flags, ntp, tp..., SRC]                      one input of the node statement above
        flags bit 0: rank_dependency, bit 1: the source port carries the passive marker (`passive(port)`)
        SRC := 0 ref npath path.. | 1 ph npath path.. | 2 | 3 k SRC*k   (peered/delayed/null/structural)
               | 6 ref opt the hidden ERROR output of node ref (exception_time_series(port, options): activates error
                           capture on the producing instance, then reads its error output); opt bit 0 =
                           capture_values, opt >> 1 = extra trace_back_depth
  [14, label, code]                                             an extra FLOAT scalar field of the node statement above:
                                                                0 -> 0.0, 1 -> -0.0, 2 -> 1.5, 3 -> -1.5
  [4, label, ty]                                                delayed_binding placeholder
  [5, label, ph, ref, npath, path..]                            bind placeholder ph to node ref's port
  [6, label, a, b]                                              add_rank_dependency(node a, depends_on b)
  [10, label, path, ref]                                        register_service_rank_anchor(path, node ref)
  [11, label, path, ref, receive]                               register_service_client_rank(path, kind, node ref, receive)
        (at finish: a receiving client is ranked after the path's anchor, a sending client before it;
         at run time senders hand a value to the anchor and the anchor to receivers out of band, within the cycle)
  [8, k, labels...]                                             k-th statement order
  [12, cl, child, def, out_ty, has_sc, nsc, sc...]              node statement cl of SUB-GRAPH wiring `child` (a separate
                                                                Wiring of kind SubGraph, wired after the parent's statements;
                                                                odd orders wire a child's statements in reverse)
  [13, cl, child, slot, kind, ref, elem]                        its inputs: kind 0 child-local node ref, 4 declared boundary
                                                                argument #ref (elem >= 0: element elem of a TSL argument),
                                                                5 outer port of PARENT statement ref, captured
        (lines 12/13 are not modelled in Coq - the decoder skips them; they are judged by the oracle only)
Implementation output per order k:
  [20,k,code] 0 built, 1 cycle, 2 push-source dependency, 3 unbound placeholder, 4 self dependency,
              6 inadmissible order, 8 rebind, 9 passive marker on every active input, 10 anchor conflict, 5 other
  [27,k,creator,active slots...]  active-input list of each compiled native node with inputs
  [28,k,child,err,cl,rep(cl),...] interning map of each sub-graph wiring
  [29,k,same]                     1 iff two more builds of the same wiring in this process (allocations in
                                  between) compiled the same node order
  [30,k,creators...]              compiled nodes that capture errors
  [31,k,creator,depth,values]     the ErrorCaptureOptions in force on such a node's type
  [23,k,rep(label)...]  label of the statement whose node each node statement was merged into (-1: not a node)
  [21,k,n,creator label of node 0..n-1]     [22,k,src,srckind,tgt,nsp,sp..,ntp,tp..] compiled edges
  [24,k,sink label,t1,v1,...] stream seen by each sink   [25,k,creator,evals,...]   [26,k,1] run error
"""
import random

NAME = "rank"
DRIVER_SRCS = ["rank_driver.cpp"]
MODEL_FAMILY = "rank"
PIPE = True
BUDGET = {"quick": 300, "thorough": 4000}

PROP_KINDS = {
    # C03 at the wiring level: a passive-marked input must not be among the node's active inputs (it alone
    # never runs the node), for the node of EVERY statement that carries the marker
    "C03": {"passive_marker_not_in_key", "passive_marker_ignored"},
    "C01": {"order", "dep_order", "verdict", "push_prefix", "perm", "edges", "handover", "order_not_canonical"},
    "C06": {"merge", "sink_merged", "streams", "evals", "perm", "verdict_varies", "count_varies", "passive_marker_not_in_key", "passive_marker_ignored", "handover", "order_not_canonical", "subgraph_merge",
            "signed_zero_merged", "sink_body_merged_through_wrapper", "error_capture_options"},
    "C09": {"subgraph_merge", "sink_body_merged_through_wrapper"},
}


# --------------------------------------------------------------------------- program <-> case
def enc_src(s):
    if s[0] == "e":
        return [6, s[1], s[2] if isinstance(s[2], int) else 0]
    if s[0] == "p":
        return [0, s[1], len(s[2])] + list(s[2])
    if s[0] == "d":
        return [1, s[1], len(s[2])] + list(s[2])
    if s[0] == "n":
        return [2]
    out = [3, len(s[1])]
    for c in s[1]:
        out += enc_src(c)
    return out


def dec_src(l, p):
    k = l[p]
    if k == 6:
        return ("e", l[p + 1], l[p + 2]), p + 3
    if k in (0, 1):
        n = l[p + 2]
        return ("p" if k == 0 else "d", l[p + 1], tuple(l[p + 3:p + 3 + n])), p + 3 + n
    if k == 2:
        return ("n",), p + 1
    n = l[p + 1]
    p += 2
    cs = []
    for _ in range(n):
        c, p = dec_src(l, p)
        cs.append(c)
    return ("s", tuple(cs)), p


def encode(prog, orders, end_time=12, exe=1):
    case = [[1, end_time, exe]]
    for lab, st in enumerate(prog):
        if st["t"] == "node":
            case.append([2, lab, st["kind"], st["def"], st["uniq"], st["out"], st["has_sc"], len(st["sc"])] + list(st["sc"]))
            if st.get("fsc", -1) >= 0:
                case.append([14, lab, st["fsc"]])
            for slot, i in enumerate(st["ins"]):
                case.append([3, lab, slot, i["rank"] + 2 * i.get("passive", 0), len(i["tp"])] + list(i["tp"]) + enc_src(i["src"]))
        elif st["t"] == "place":
            case.append([4, lab, st["ty"]])
        elif st["t"] == "bind":
            case.append([5, lab, st["ph"], st["ref"], len(st["path"])] + list(st["path"]))
        elif st["t"] == "dep":
            case.append([6, lab, st["a"], st["b"]])
        elif st["t"] == "anchor":
            case.append([10, lab, st["path"], st["ref"]])
        elif st["t"] == "client":
            case.append([11, lab, st["path"], st["ref"], st["recv"]])
    for k, o in enumerate(orders):
        case.append([8, k] + list(o))
    return case


def decode(case):
    prog, orders, end_time, exe = [], [], 12, 0
    for l in case:
        if l[0] == 1:
            end_time, exe = l[1], l[2]
        elif l[0] == 2:
            prog.append({"t": "node", "kind": l[2], "def": l[3], "uniq": l[4], "out": l[5], "has_sc": l[6],
                         "sc": tuple(l[8:8 + l[7]]), "fsc": -1, "ins": []})
        elif l[0] == 14 and prog and prog[-1]["t"] == "node":
            prog[-1]["fsc"] = l[2]
        elif l[0] == 3 and prog and prog[-1]["t"] == "node":
            n = l[4]
            s, _ = dec_src(l, 5 + n)
            prog[-1]["ins"].append({"rank": l[3] & 1, "passive": 1 if l[3] >= 2 else 0, "tp": tuple(l[5:5 + n]), "src": s})
        elif l[0] == 4:
            prog.append({"t": "place", "ty": l[2]})
        elif l[0] == 5:
            prog.append({"t": "bind", "ph": l[2], "ref": l[3], "path": tuple(l[5:5 + l[4]])})
        elif l[0] == 6:
            prog.append({"t": "dep", "a": l[2], "b": l[3]})
        elif l[0] == 10:
            prog.append({"t": "anchor", "path": l[2], "ref": l[3]})
        elif l[0] == 11:
            prog.append({"t": "client", "path": l[2], "ref": l[3], "recv": l[4]})
        elif l[0] == 8:
            orders.append(list(l[2:]))
    return prog, orders, end_time, exe


def child_lines(case):
    return [l for l in case if l[0] in (12, 13)]


def with_children(case, lines):
    head = [l for l in case if l[0] not in (8, 12, 13)]
    return head + [list(l) for l in lines] + [l for l in case if l[0] == 8]


def decode_children(case):
    """{child: {cl: dict(def,out,has_sc,sc,ins=[(kind,ref)])}}"""
    ch = {}
    for l in case:
        if l[0] == 12:
            ch.setdefault(l[2], {})[l[1]] = {"def": l[3], "out": 2 if l[4] == 2 else 1, "has_sc": l[5], "sc": tuple(l[7:7 + l[6]]), "ins": []}
    for l in case:
        if l[0] == 13 and l[2] in ch and l[1] in ch[l[2]]:
            ch[l[2]][l[1]]["ins"].append((l[4], l[5], l[6] if len(l) > 6 else -1))
    return ch


def gen_children(rng, prog):
    """sub-graph wirings whose statements read declared arguments and captured outer ports: the same
    definition applied to argument #i and to the captured port that gets capture index i must not merge"""
    outer = [l for l, st in enumerate(prog) if is_node(st) and st["out"] == 1 and st["kind"] in (0, 1) and not st["uniq"]]
    if not outer:
        return []
    lines = []
    for child in range(rng.choice([1, 1, 2])):
        nargs = rng.choice([1, 2, 3])
        caps = rng.sample(outer, min(len(outer), rng.choice([1, 2, 3])))
        cl = 0
        stmts = []
        for d in rng.sample(range(3, 8), rng.choice([1, 2])):
            hs, sc = _scalars(rng)
            for i in range(max(nargs, len(caps))):
                if i < nargs:
                    stmts.append((d, hs, sc, [(4, i)]))
                if i < len(caps):
                    stmts.append((d, hs, sc, [(5, caps[i])]))
            if rng.random() < 0.6:                                      # the same definition on different ELEMENTS of one
                for e in range(rng.choice([2, 3])):                     # structured (TSL) argument, and on the whole argument slot
                    stmts.append((d, hs, sc, [(4, nargs, e)]))
                if rng.random() < 0.5:
                    stmts.append((d, hs, sc, [(4, nargs, 0)]))          # exact copy of element 0: merges
                if rng.random() < 0.5:
                    stmts.append((d, hs, sc, [(4, nargs, 1), (4, nargs, 0)]))
                    stmts.append((d, hs, sc, [(4, nargs, 0), (4, nargs, 1)]))
            if rng.random() < 0.5:
                stmts.append((d, hs, sc, [(4, 0)]))                  # exact copy: merges
            if rng.random() < 0.5:
                stmts.append((d, hs, sc, [(5, caps[0])]))             # exact copy: merges
            if rng.random() < 0.5:
                stmts.append((d, hs, sc, [(4, 0), (5, caps[0])]))
                stmts.append((d, hs, sc, [(5, caps[0]), (4, 0)]))
        rng.shuffle(stmts)
        leaves = len(stmts)
        for (d, hs, sc, ins) in stmts:
            lines.append([12, cl, child, d, 1, hs, len(sc)] + list(sc))
            for slot, inp in enumerate(ins):
                lines.append([13, cl, child, slot, inp[0], inp[1], inp[2] if len(inp) > 2 else -1])
            cl += 1
        if leaves >= 2 and rng.random() < 0.6:                        # a consumer of two child-local nodes
            a, b = rng.sample(range(leaves), 2)
            lines.append([12, cl, child, 3, 1, 0, 0])
            lines.append([13, cl, child, 0, 0, a, -1])
            lines.append([13, cl, child, 1, 0, b, -1])
    return lines


def src_refs(s):
    """(peer labels, placeholder labels) mentioned in a source."""
    if s[0] in ("p", "e"):
        return [s[1]], []
    if s[0] == "d":
        return [], [s[1]]
    if s[0] == "n":
        return [], []
    ps, hs = [], []
    for c in s[1]:
        a, b = src_refs(c)
        ps += a
        hs += b
    return ps, hs


def stmt_needs(st):
    """labels that must have been executed before this statement"""
    if st["t"] == "node":
        out = []
        for i in st["ins"]:
            a, b = src_refs(i["src"])
            out += a + b
        return out
    if st["t"] == "bind":
        return [st["ph"], st["ref"]]
    if st["t"] == "dep":
        return [st["a"], st["b"]]
    if st["t"] in ("anchor", "client"):
        return [st["ref"]]
    return []


def random_order(rng, prog):
    n = len(prog)
    needs = [set(x for x in stmt_needs(st) if 0 <= x < n) for st in prog]
    done, order = set(), []
    avail = [i for i in range(n) if not needs[i]]
    pending = [i for i in range(n) if needs[i]]
    while avail:
        i = avail.pop(rng.randrange(len(avail)))
        order.append(i)
        done.add(i)
        still = []
        for j in pending:
            if needs[j] <= done:
                avail.append(j)
            else:
                still.append(j)
        pending = still
    return order + pending  # pending non-empty only for malformed programs


# --------------------------------------------------------------------------- generator
def _scalars(rng):
    if rng.random() < 0.25:
        return 0, ()
    return 1, tuple(rng.randrange(0, 3) for _ in range(rng.choice([1, 1, 2, 3])))


def _node(kind, d, out, has_sc=0, sc=(), ins=(), uniq=0):
    return {"t": "node", "kind": kind, "def": d, "uniq": uniq, "out": out, "has_sc": has_sc, "sc": tuple(sc), "fsc": -1,
            "ins": [dict(i) for i in ins]}


def _inp(src, rank=1, tp=(), passive=0):
    return {"rank": rank, "passive": passive, "tp": tuple(tp), "src": src}


def gen_program(rng, tier, prop):
    prog = []
    vals = []          # labels of value-producing node statements
    ty = {}            # label -> out type

    def add(st):
        prog.append(st)
        l = len(prog) - 1
        if st["t"] == "node" and st["out"] != 0 and st["kind"] not in (5, 6, 7, 8):
            vals.append(l)
            ty[l] = 2 if st["out"] == 2 else 1
        return l

    def pick_src(pool=None):
        pool = pool or vals
        r = rng.random()
        if r < 0.12 and len(pool) >= 2:
            a = rng.choice(pool)
            same = [x for x in pool if ty[x] == ty[a]]
            k = rng.choice([2, 2, 3])
            cs = [("p", rng.choice(same), ()) for _ in range(k)]
            if ty[a] == 1 and rng.random() < 0.4:
                cs[rng.randrange(len(cs) - 1)] = ("n",)     # an omitted leaf BEFORE a produced one
            if rng.random() < 0.25:
                cs = [("s", tuple(cs)), ("s", tuple(("p", rng.choice(same), ()) for _ in range(k)))]
            return ("s", tuple(cs))
        if r < 0.15:
            return ("n",)
        return ("p", rng.choice(pool), ())

    big = tier == "thorough"
    n_target = rng.choice([2, 3, 4, 5, 6, 8, 10, 14, 20, 30, 40] if big else [2, 3, 4, 5, 6, 8, 10, 14, 20, 28, 40])
    shape = rng.choice(["chain", "diamond", "fan", "layered", "layered", "random"])
    feats = set()
    r = rng.random()
    if r < 0.10:
        feats.add("push")
    if rng.random() < 0.20:
        feats.add(rng.choice(["feedback", "rankfree"]))
    if rng.random() < 0.10:
        feats.add("dep")
    if rng.random() < 0.15:
        feats.add("dep_back")      # explicit dependency AGAINST the insertion order (acyclic)
    if rng.random() < 0.20:
        feats.add("forward")       # consumer wired before its producer through a delayed_binding placeholder
    if rng.random() < 0.15:
        feats.add(rng.choice(["cyc_self", "cyc_2", "cyc_long", "cyc_dep", "cyc_dep_merge"]))
    if rng.random() < (0.25 if prop == "C01" else 0.12):
        feats.add("service")
    if rng.random() < 0.25:
        feats.add("errport")
    if rng.random() < 0.25:
        feats.add("passive_deep")
    if rng.random() < 0.15:
        feats.add("wrapper")
    if rng.random() < 0.04:
        feats.add(rng.choice(["unbound", "rebind", "selfdep", "pushdep", "unbound_free", "allpassive"]))
    dup_rate = 0.35 if prop == "C06" else 0.15

    # sources
    ns = max(1, min(6, n_target // 4 + rng.randrange(0, 2)))
    for _ in range(ns):
        hs, sc = _scalars(rng)
        add(_node(0, rng.randrange(0, 3), rng.choice([1, 1, 1, 2]), hs, sc))
    if "push" in feats:
        for _ in range(rng.choice([1, 2])):
            add(_node(3, 0, rng.choice([1, 2])))
            if rng.random() < 0.5:     # interleave an ordinary source so the prefix is not the insertion prefix
                hs, sc = _scalars(rng)
                add(_node(0, rng.randrange(0, 3), 1, hs, sc))
    fb = None
    if "feedback" in feats:
        fb = add(_node(4, 0, rng.choice([1, 1, 2])))
    ph_fwd = None
    if "forward" in feats:
        ph_fwd = add({"t": "place", "ty": 1})
        ty[ph_fwd] = 1
    fwd_users = []
    ph_free = None
    if "rankfree" in feats:
        ph_free = add({"t": "place", "ty": 1})
        ty[ph_free] = 1

    def compute(ins, d=None, out=None):
        hs, sc = _scalars(rng)
        return add(_node(1, rng.randrange(3, 8) if d is None else d, rng.choice([1, 1, 1, 2]) if out is None else out, hs, sc, ins))

    n_comp = max(1, n_target - len(prog) - max(1, n_target // 5))
    made = []
    free_users = []
    for j in range(n_comp):
        if shape == "chain":
            pool = made[-1:] or vals
            ins = [_inp(("p", rng.choice(pool), ()))]
            if rng.random() < 0.3:
                ins.append(_inp(pick_src()))
        elif shape == "diamond":
            if j % 3 == 2 and len(made) >= 2:
                ins = [_inp(("p", made[-1], ())), _inp(("p", made[-2], ()))]
            else:
                base = made[-(j % 3) - 1:][:1] or vals
                ins = [_inp(("p", rng.choice(base if j % 3 else (made[-1:] or vals)), ()))]
        elif shape == "fan":
            if j == n_comp - 1 and len(made) >= 2:
                ins = [_inp(("p", x, ())) for x in rng.sample(made, min(len(made), rng.choice([3, 4, 6])))]
            else:
                ins = [_inp(("p", rng.choice(vals[:ns]), ()))]
        elif shape == "layered":
            width = max(2, int(n_comp ** 0.5))
            layer = j // width
            pool = made[max(0, (layer - 1) * width):layer * width] or vals
            ins = [_inp(pick_src(pool)) for _ in range(rng.choice([1, 2, 2, 3]))]
        else:
            ins = [_inp(pick_src()) for _ in range(rng.choice([1, 1, 2, 3]))]
        if fb is not None and rng.random() < 0.3:
            ins.append(_inp(("p", fb, ())))
        if ph_free is not None and rng.random() < 0.3:
            ins.append(_inp(("d", ph_free, ()), rank=0))
            free_users.append(len(prog))
        if ph_fwd is not None and rng.random() < 0.25:
            r2 = rng.random()
            ins.append(_inp(("s", (("n",), ("d", ph_fwd, ()))) if r2 < 0.3 else
                            ("s", (("d", ph_fwd, ()), ("d", ph_fwd, ()))) if r2 < 0.45 else ("d", ph_fwd, ())))
            fwd_users.append(len(prog))
        if rng.random() < 0.2:        # explicit target path equal to the slot: same key as the implicit one
            k = rng.randrange(len(ins))
            if ins[k]["src"][0] != "s" or True:
                ins[k]["tp"] = (k,)
        if sum(1 for i in ins if i["rank"]) >= 2 and rng.random() < 0.08:
            cand = [i for i in ins if i["rank"] and i["src"][0] == "p"]
            if cand:
                rng.choice(cand)["passive"] = 1
        l = compute(ins)
        made.append(l)
        # duplicated sub-expressions and critical pairs
        if rng.random() < dup_rate:
            st = prog[l]
            c = _node(1, st["def"], st["out"], st["has_sc"], st["sc"], st["ins"])
            how = rng.choice(["same", "same", "same", "signzero", "fscalar", "scalar", "swap", "type", "def", "tp", "uniq", "rank", "hassc", "nsc", "input",
                              "passive", "passive"])
            if how == "scalar" and c["sc"]:
                k = rng.randrange(len(c["sc"]))
                sc = list(c["sc"])
                sc[k] += 1
                c["sc"] = tuple(sc)
            elif how == "swap" and len(c["ins"]) >= 2:
                c["ins"][0], c["ins"][1] = c["ins"][1], c["ins"][0]
                for i in c["ins"]:
                    i["tp"] = ()
            elif how == "type":
                c["out"] = 3 - (2 if c["out"] == 2 else 1)
            elif how == "def":
                c["def"] = 3 + (c["def"] - 3 + 1) % 5
            elif how == "tp":
                for k, i in enumerate(c["ins"]):
                    i["tp"] = (k,) if not i["tp"] else ()
            elif how == "uniq":
                c["uniq"] = 1
            elif how == "rank" and c["ins"] and c["ins"][-1]["src"][0] == "p" and c["ins"][-1]["rank"] == 1:
                # same node but the last input declared rank-free: a different key.  The order the flag no
                # longer enforces is pinned by an explicit dependency below, otherwise the value read would
                # legitimately depend on the insertion-order tie-break.
                c["ins"][-1]["rank"] = 0
                pin = c["ins"][-1]["src"][1]
            elif how in ("signzero", "fscalar"):
                # the pair differs ONLY in a float scalar: 0.0 vs -0.0 (IEEE-equal, different reciprocals) / 1.5 vs -1.5
                a, b = (0, 1) if how == "signzero" else (2, 3)
                if rng.random() < 0.5:
                    a, b = b, a
                st["fsc"], c["fsc"] = a, b
            elif how == "passive":
                # the pair differs ONLY in the passive marker of one input (and keeps another input active)
                act = [k for k, i in enumerate(c["ins"]) if i["rank"] and not i.get("passive")]
                if len(act) >= 2:
                    k = rng.choice(act)
                    (c if rng.random() < 0.5 else st)["ins"][k]["passive"] = 1
                else:
                    how = "same"
            elif how == "hassc" and c["has_sc"] == 0:
                c["has_sc"], c["sc"] = 1, (0,)
            elif how == "nsc" and c["sc"]:
                c["sc"] = c["sc"] + (0,)
            elif how == "input" and c["ins"] and len(vals) > 1:
                c["ins"][0]["src"] = ("p", rng.choice(vals), ())
                c["ins"][0]["rank"] = 1
            lc = add(c)
            made.append(lc)
            if how in ("passive", "signzero", "fscalar"):      # observe both members of the pair directly
                add(_node(2, 0, 0, ins=[_inp(("p", l, ()))]))
                add(_node(2, 1, 0, ins=[_inp(("p", lc, ()))]))
            if ph_free is not None and any(i["rank"] == 0 and ph_free in src_refs(i["src"])[1] for i in c["ins"]):
                free_users.append(lc)     # a copy of a backward-link reader is itself a reader: pin it too
            if how == "rank" and c["ins"] and c["ins"][-1]["rank"] == 0 and c["ins"][-1]["src"][0] == "p":
                add({"t": "dep", "a": lc, "b": c["ins"][-1]["src"][1]})

    # close the loops
    if fb is not None:
        cands = [x for x in made if ty[x] == ty[fb]] or None
        if cands is None:
            cands = [compute([_inp(("p", fb, ()))], out=ty[fb])]
            made += cands
        add(_node(5, 0, 0, ins=[_inp(("p", rng.choice(cands), ())), _inp(("p", fb, ()))]))
    if ph_free is not None:
        if not free_users:
            free_users.append(compute([_inp(("p", rng.choice(vals), ())), _inp(("d", ph_free, ()), rank=0)]))
            made.append(free_users[-1])
        # bind to something downstream of EVERY reader: a genuine backward link.  (A rank-free edge whose
        # source is not downstream of its reader is ranked by the insertion-order tie-break, and the value
        # read then legitimately depends on statement order; the code's own users pin the order with
        # add_same_cycle_pair / validate_same_cycle_pairs.)
        tgt = compute([_inp(("p", u, ())) for u in free_users], out=1)
        made.append(tgt)
        add({"t": "bind", "ph": ph_free, "ref": tgt, "path": ()})
    def downstream(roots):
        seen = set(roots)
        changed = True
        binds = {st["ph"]: st["ref"] for st in prog if st["t"] == "bind"}
        while changed:
            changed = False
            for l, st in enumerate(prog):
                if l in seen:
                    continue
                needs = []
                if st["t"] == "node":
                    for i in st["ins"]:
                        a, b = src_refs(i["src"])
                        needs += a + [binds[h] for h in b if h in binds] + [h for h in b if h not in binds]
                elif st["t"] == "dep":
                    continue
                if any(x in seen for x in needs):
                    seen.add(l)
                    changed = True
            for st in prog:
                if st["t"] == "dep" and st["b"] in seen and st["a"] not in seen:
                    seen.add(st["a"])
                    changed = True
        return seen
    if ph_fwd is not None:
        if not fwd_users:
            fwd_users.append(compute([_inp(("d", ph_fwd, ()))]))
            made.append(fwd_users[-1])
        # the producer is wired AFTER its consumers and must not depend on them (or on the placeholder)
        bad = downstream(fwd_users + [ph_fwd])
        pool = [v for v in vals if v not in bad and ty[v] == 1]
        hs, sc = _scalars(rng)
        if pool and rng.random() < 0.7:
            tgt = compute([_inp(("p", rng.choice(pool), ()))], out=1)
        else:
            tgt = add(_node(0, rng.randrange(0, 3), 1, hs, sc))
        add({"t": "bind", "ph": ph_fwd, "ref": tgt, "path": ()})
    if "dep_back" in feats and len(vals) >= 2:
        for _ in range(rng.choice([1, 2, 3])):
            a = rng.choice(vals)
            later = [b for b in vals if b > a and prog[b]["kind"] != 3 and b not in downstream([a])]
            if prog[a]["kind"] == 3 or not later:
                continue
            add({"t": "dep", "a": a, "b": rng.choice(later)})    # the earlier node must be ranked after a later one
    if "dep" in feats and len(vals) >= 2:
        for _ in range(rng.choice([1, 2])):
            a, b = sorted(rng.sample(vals, 2))
            if prog[b]["kind"] == 3 or prog[a]["kind"] == 3:
                continue
            add({"t": "dep", "a": b, "b": a})     # later node after earlier node: consistent with the canonical order
            if rng.random() < 0.3:
                add({"t": "dep", "a": b, "b": a})   # duplicate: de-duplicated by the code
    # a recordable-state SINK wired twice with equal input (and once on another input): three nodes
    if rng.random() < 0.2:
        ints = [v for v in vals if ty[v] == 1 and prog[v]["kind"] in (0, 1)]
        if ints:
            x = rng.choice(ints)
            for _ in range(rng.choice([2, 2, 3])):
                add(_node(9, 0, 0, ins=[_inp(("p", x, ()))]))
            if len(ints) > 1:
                add(_node(9, 0, 0, ins=[_inp(("p", rng.choice([v for v in ints if v != x]), ()))]))
    # sub-graph wrappers around a sink, wired twice on the same input (and once on another)
    if "wrapper" in feats:
        ints = [v for v in vals if ty[v] == 1 and prog[v]["kind"] in (0, 1)]
        if ints:
            x = rng.choice(ints)
            for kind in rng.sample([6, 7], rng.choice([1, 2])):
                ws = [add(_node(kind, 0, 1, ins=[_inp(("p", x, ()))])) for _ in range(rng.choice([2, 2, 3]))]
                if len(ints) > 1:
                    ws.append(add(_node(kind, 0, 1, ins=[_inp(("p", rng.choice([v for v in ints if v != x]), ()))])))
                if kind == 6:
                    for wl in ws:
                        add(_node(2, 0, 0, ins=[_inp(("p", wl, ()))]))
    # passive markers do not loosen the ranking: a reader whose passive input's producer sits at the end of a
    # longer chain (its active input is ready early), is wired later (placeholder), or closes a cycle
    if "passive_deep" in feats:
        srcs = [v for v in vals if prog[v]["kind"] == 0] or vals
        for _ in range(rng.choice([1, 2])):
            s0 = rng.choice(srcs)
            chain = compute([_inp(("p", s0, ()))], out=1)
            for _ in range(rng.choice([1, 2, 3])):
                chain = compute([_inp(("p", chain, ()))], out=1)
            probe = compute([_inp(("p", s0, ())), _inp(("p", chain, ()), passive=1)], out=1)
            made += [chain, probe]
            add(_node(2, 0, 0, ins=[_inp(("p", probe, ()))]))
        how = rng.random()
        if how < 0.35:          # the passive input's producer is wired LATER, through a placeholder (acyclic)
            ph = add({"t": "place", "ty": 1})
            ty[ph] = 1
            s0 = rng.choice(srcs)
            probe = compute([_inp(("p", s0, ())), _inp(("d", ph, ()), passive=1)], out=1)
            late = compute([_inp(("p", compute([_inp(("p", s0, ()))], out=1), ()))], out=1)
            add({"t": "bind", "ph": ph, "ref": late, "path": ()})
            made += [probe, late]
            add(_node(2, 0, 0, ins=[_inp(("p", probe, ()))]))
        elif how < 0.6:         # a cycle closed through a passive input, no feedback node: must be rejected
            ph = add({"t": "place", "ty": 1})
            ty[ph] = 1
            s0 = rng.choice(srcs)
            first = compute([_inp(("p", s0, ())), _inp(("d", ph, ()), passive=1)], out=1)
            last = first
            for _ in range(rng.choice([0, 1, 2])):
                last = compute([_inp(("p", last, ()))], out=1)
            add({"t": "bind", "ph": ph, "ref": last, "path": ()})
            made.append(last)
    # hidden error outputs (exception_time_series): (a) a consumer whose ONLY dependency on a deep producer is
    # the producer's error output and whose other input is ready early; (b) a duplicate of the producer wired
    # after the capture (a later order swaps it in front): it must share the captured node.
    if "errport" in feats:
        pool = [m for m in made if prog[m]["kind"] == 1 and not prog[m]["uniq"] and prog[m]["out"] != 0]
        for _ in range(rng.choice([1, 2])):
            if not pool:
                break
            p0 = rng.choice(pool)
            deep = compute([_inp(("p", p0, ()))])                         # one more level below p0
            deep2 = compute([_inp(("p", deep, ()))])
            made += [deep, deep2]
            early = rng.choice([v for v in vals if prog[v]["kind"] == 0] or vals)
            src_e = ("e", deep2, rng.randrange(0, 4))
            errc = compute([_inp(("p", early, ())), _inp(src_e)], out=1)
            made.append(errc)
            if rng.random() < 0.5:                                         # a second reader asking for other options
                made.append(compute([_inp(("p", early, ())), _inp(("e", deep2, rng.randrange(0, 6)))], out=1))
            st = prog[deep2]
            q = add(_node(1, st["def"], st["out"], st["has_sc"], st["sc"], st["ins"]))   # duplicate AFTER the capture
            made.append(q)
            add(_node(2, 0, 0, ins=[_inp(("p", q, ()))]))
            add(_node(2, 1, 0, ins=[_inp(("p", errc, ()))]))
            if rng.random() < 0.5:
                add(_node(2, 0, 0, ins=[_inp(("e", deep2, rng.randrange(0, 4)))]))   # a sink on the error output itself
            # two instances of ONE static definition whose error outputs are read with DIFFERENT capture options: they
            # share a process-wide node type only if everything - the options included - agrees
            ints = [v for v in vals if ty[v] == 1 and prog[v]["kind"] in (0, 1)]
            if len(ints) >= 2 and rng.random() < 0.6:
                xa, xb = rng.sample(ints, 2)
                oa, ob = rng.sample(range(0, 6), 2)
                for xx, oo in ((xa, oa), (xb, ob)):
                    st8 = add(_node(8, 0, 1, ins=[_inp(("p", xx, ()))]))
                    add(_node(2, 0, 0, ins=[_inp(("p", st8, ()))]))
                    add(_node(2, 1, 0, ins=[_inp(("p", early, ())), _inp(("e", st8, oo))]))
    # service rank contract: a hub (anchor) with >= 2 DISTINCT sending and >= 2 distinct receiving clients per
    # path.  The receivers are wired BEFORE the hub and the senders AFTER it, i.e. on the wrong side by insertion
    # order; all of them tick with one common source so that the hand-over of a cycle is observable.
    if "service" in feats:
        for path in range(rng.choice([1, 1, 2])):
            base = rng.choice([v for v in vals if prog[v]["kind"] == 0] or vals)
            uniq_sc = lambda k: (1, (path, k, rng.randrange(0, 3)))
            recvs = [add(_node(1, rng.randrange(3, 6), 1, *uniq_sc(10 + k), ins=[_inp(("p", base, ()))])) for k in range(rng.choice([2, 2, 3]))]
            hub = add(_node(1, rng.randrange(3, 8), 1, *uniq_sc(0), ins=[_inp(("p", base, ()))]))
            sends = [add(_node(1, rng.randrange(3, 6), 1, *uniq_sc(20 + k), ins=[_inp(("p", base, ()))])) for k in range(rng.choice([2, 2, 3]))]
            made += recvs + [hub] + sends
            regs = [{"t": "anchor", "path": path, "ref": hub}]
            regs += [{"t": "client", "path": path, "ref": x, "recv": 0} for x in sends]
            regs += [{"t": "client", "path": path, "ref": x, "recv": 1} for x in recvs]
            if rng.random() < 0.3:
                regs.append({"t": "client", "path": path, "ref": rng.choice(sends), "recv": 0})     # registered twice
            if rng.random() < 0.3:
                regs.append({"t": "anchor", "path": path, "ref": hub})                            # same anchor again: fine
            if rng.random() < 0.2:
                regs.append({"t": "client", "path": path, "ref": hub, "recv": rng.randrange(2)})     # the anchor as its own client: skipped
            if rng.random() < 0.2:
                regs.append({"t": "client", "path": path + 7, "ref": rng.choice(sends), "recv": 1})  # a path without anchor: skipped
            rng.shuffle(regs)
            for r in regs:
                add(r)
            for x in recvs + [hub] + sends:
                add(_node(2, 0, 0, ins=[_inp(("p", x, ()))]))
    # unbroken cycles
    cyc = [f for f in feats if f.startswith("cyc")]
    if cyc:
        f = cyc[0]
        if f in ("cyc_self", "cyc_2", "cyc_long"):
            ph = add({"t": "place", "ty": 1})
            ty[ph] = 1
            k = {"cyc_self": 1, "cyc_2": 2, "cyc_long": rng.choice([3, 4, 6])}[f]
            first = compute([_inp(("d", ph, ())), _inp(("p", rng.choice(vals), ()))], out=1)
            last = first
            for _ in range(k - 1):
                last = compute([_inp(("p", last, ()))], out=1)
            made.append(last)
            add({"t": "bind", "ph": ph, "ref": last, "path": ()})
        elif f == "cyc_dep" and made:
            a = rng.choice(made)
            b = compute([_inp(("p", a, ()))])
            made.append(b)
            add({"t": "dep", "a": a, "b": b})       # a must come after b, but b reads a
        elif f == "cyc_dep_merge" and made:
            # the dependency is attached to a statement that is merged with an upstream twin
            a = rng.choice(made)
            st = prog[a]
            twin = add(_node(1, st["def"], st["out"], st["has_sc"], st["sc"], st["ins"]))
            b = compute([_inp(("p", twin, ()))])
            add({"t": "dep", "a": a, "b": b})
            made += [b]
    for f in feats:
        if f == "unbound":
            ph = add({"t": "place", "ty": 1})
            ty[ph] = 1
            made.append(compute([_inp(("d", ph, ()))]))
        elif f == "unbound_free":
            ph = add({"t": "place", "ty": 1})
            ty[ph] = 1
            made.append(compute([_inp(("p", rng.choice(vals), ())), _inp(("d", ph, ()), rank=0)]))
        elif f == "rebind":
            ph = add({"t": "place", "ty": 1})
            ty[ph] = 1
            x = compute([_inp(("p", rng.choice(vals), ()))], out=1)
            add({"t": "bind", "ph": ph, "ref": x, "path": ()})
            add({"t": "bind", "ph": ph, "ref": x, "path": ()})
        elif f == "selfdep" and made:
            a = rng.choice(made)
            if rng.random() < 0.5:
                add({"t": "dep", "a": a, "b": a})
            else:
                st = prog[a]
                twin = add(_node(1, st["def"], st["out"], st["has_sc"], st["sc"], st["ins"]))
                add({"t": "dep", "a": a, "b": twin})
        elif f == "allpassive" and len(vals) >= 2:
            made.append(compute([_inp(("p", rng.choice(vals), ()), passive=1), _inp(("p", rng.choice(vals), ()), passive=1)]))
        elif f == "pushdep":
            p = add(_node(3, 0, 1))
            add({"t": "dep", "a": p, "b": rng.choice([v for v in vals if v != p])})
    # sinks (every produced value that nobody reads gets one; plus duplicates)
    used = set()
    for st in prog:
        for x in stmt_needs(st):
            used.add(x)
    n_sinks = 0
    for v in list(vals):
        if v not in used or rng.random() < 0.15:
            ins = [_inp(("p", v, ()))]
            if rng.random() < 0.2:
                ins.append(_inp(pick_src()))
            s = _node(2, rng.randrange(0, 2), 0, *_scalars(rng), ins=ins)
            add(s)
            n_sinks += 1
            if rng.random() < (0.3 if prop == "C06" else 0.1):
                add(_node(2, s["def"], 0, s["has_sc"], s["sc"], s["ins"]))   # identical sink: must stay distinct
    if n_sinks == 0:
        add(_node(2, 0, 0, ins=[_inp(("p", rng.choice(vals), ()))]))
    return prog


def marker_free(st):
    return (st["kind"], st["def"], st["uniq"], st["out"], st["has_sc"], st["sc"], st.get("fsc", -1),
            tuple((i["rank"], i["tp"], i["src"]) for i in st["ins"]))


def passive_pairs(prog):
    """labels a such that statements a and a+1 are node statements differing only in passive markers"""
    out = []
    for a in range(len(prog) - 1):
        x, y = prog[a], prog[a + 1]
        if is_node(x) and is_node(y) and marker_free(x) == marker_free(y) and \
                [i.get("passive", 0) for i in x["ins"]] != [i.get("passive", 0) for i in y["ins"]] and (not out or out[-1] != a - 1):
            out.append(a)
    return out


def capture_swaps(prog):
    """labels a: statement a reads an error output of p and statement a+1 is a duplicate of p"""
    out = []
    for a in range(len(prog) - 1):
        x, y = prog[a], prog[a + 1]
        if not (is_node(x) and is_node(y)):
            continue
        errs = [i["src"][1] for i in x["ins"] if i["src"][0] == "e"]
        if any(is_node(prog[p]) and marker_free(prog[p]) == marker_free(y) for p in errs) and a not in stmt_needs(y):
            out.append(a)
    return out


def gen(rng, tier, prop):
    prog = gen_program(rng, tier, prop)
    n_orders = 4 if tier == "quick" else rng.choice([4, 6, 8])
    orders = [list(range(len(prog)))]
    pairs = passive_pairs(prog)
    if pairs:                   # the same program with every marker pair written in the other order
        o = list(range(len(prog)))
        for a in pairs:
            o[a], o[a + 1] = o[a + 1], o[a]
        orders.append(o)
    caps = capture_swaps(prog)
    if caps:                    # "p err q" (as listed) and "p q err"
        o = list(range(len(prog)))
        for a in caps:
            o[a], o[a + 1] = o[a + 1], o[a]
        orders.append(o)
    while len(orders) < n_orders:
        orders.append(random_order(rng, prog))
    exe = 0 if any(st["t"] == "node" and st["kind"] == 3 for st in prog) else 1
    case = encode(prog, orders, end_time=rng.choice([8, 12, 16]), exe=exe)
    if rng.random() < (0.2 if prop == "C06" else 0.08):
        case = with_children(case, gen_children(rng, prog))
    return case


# --------------------------------------------------------------------------- reading the observation
def parse_out(out):
    """per order k: dict(code, nodes, reps, edges, streams, evals, runerr)"""
    res = {}
    if not isinstance(out, list):
        return res
    for l in out:
        if len(l) < 2:
            continue
        d = res.setdefault(l[1], {"code": None, "nodes": None, "reps": None, "edges": [], "streams": {}, "evals": None, "runerr": 0})
        if l[0] == 20:
            d["code"] = l[2]
        elif l[0] == 21:
            d["nodes"] = l[3:]
        elif l[0] == 23:
            d["reps"] = l[2:]
        elif l[0] == 22:
            nsp = l[5]
            sp = tuple(l[6:6 + nsp])
            ntp = l[6 + nsp]
            tp = tuple(l[7 + nsp:7 + nsp + ntp])
            d["edges"].append((l[2], sp, l[4], tp))
        elif l[0] == 24:
            d["streams"][l[2]] = tuple(l[3:])
        elif l[0] == 25:
            d["evals"] = dict(zip(l[2::2], l[3::2]))
        elif l[0] == 26:
            d["runerr"] = 1
        elif l[0] == 27:
            d.setdefault("active", {})[l[2]] = tuple(l[3:])
        elif l[0] == 29:
            d["stable"] = l[2]
        elif l[0] == 32:
            d["sink_body_runs"] = l[2]
            d["rs_sink_runs"] = l[3] if len(l) > 3 else 0
        elif l[0] == 30:
            d["captured"] = tuple(l[2:])
        elif l[0] == 31:
            d.setdefault("capture_options", {})[l[2]] = (l[3], l[4])
        elif l[0] == 28:
            d.setdefault("children", {})[l[2]] = (l[3], dict(zip(l[4::2], l[5::2])))
    return res


def is_node(st):
    return st["t"] == "node"


def bypasses(st):
    """statements whose node is never shared: output-less (sinks), add_unique_node, push/feedback sources"""
    return st["out"] == 0 or st["uniq"] == 1 or st["kind"] in (3, 4, 5)


def err_sources(s):
    if s[0] == "e":
        return [s]
    if s[0] == "s":
        return [x for c in s[1] for x in err_sources(c)]
    return []


def src_has_err(s):
    return s[0] == "e" or (s[0] == "s" and any(src_has_err(c) for c in s[1]))


def src_noopt(s):
    """the ErrorCaptureOptions a reader asks for act on the PRODUCER; they are not part of the reader's identity"""
    if s[0] == "e":
        return ("e", s[1], 0)
    if s[0] == "s":
        return ("s", tuple(src_noopt(c) for c in s[1]))
    return s


def src_map(s, f):
    if s[0] in ("p", "e"):
        return (s[0], f(s[1]), s[2])
    if s[0] == "s":
        return ("s", tuple(src_map(c, f) for c in s[1]))
    return s


def config(st, rep):
    """everything the property says distinguishes two nodes: definition, resolved type, scalars, inputs
    (by identity of the producing node, path, target slot, rank flag)"""
    return (st["def"], st["out"] if st["out"] in (0, 2) else 1, st["has_sc"], st["sc"] if st["has_sc"] else (), st.get("fsc", -1),
            tuple((src_noopt(src_map(i["src"], lambda x: rep[x] if 0 <= x < len(rep) else -7)), i["tp"] or (k,), i["rank"])
                  for k, i in enumerate(st["ins"])))


def rank_graph(prog, rep):
    """rank edges between merged nodes (identified by rep label), straight from the program text"""
    binds = {}
    for st in prog:
        if st["t"] == "bind" and st["ph"] not in binds:
            binds[st["ph"]] = st["ref"]
    edges = set()

    def prods(s):
        if s[0] in ("p", "e"):
            return [s[1]]
        if s[0] == "d":
            return [binds[s[1]]] if s[1] in binds else []
        if s[0] == "s":
            return [x for c in s[1] for x in prods(c)]
        return []
    for l, st in enumerate(prog):
        if is_node(st):
            for i in st["ins"]:
                if i["rank"]:
                    for p in prods(i["src"]):
                        edges.add((rep[p], rep[l]))
        elif st["t"] == "dep":
            edges.add((rep[st["b"]], rep[st["a"]]))
    # service rank contract: anchor -> receiving client, sending client -> anchor
    anchors = {}
    for st in prog:
        if st["t"] == "anchor" and st["path"] not in anchors:
            anchors[st["path"]] = rep[st["ref"]]
    for st in prog:
        if st["t"] == "client" and st["path"] in anchors and anchors[st["path"]] != rep[st["ref"]]:
            edges.add((anchors[st["path"]], rep[st["ref"]]) if st["recv"] else (rep[st["ref"]], anchors[st["path"]]))
    return edges


def canonical_order(prog, order, rep):
    """THE compiled order as graph_wiring.cpp documents it: Kahn's algorithm over the wired nodes in insertion
    order; a node's producers are discovered input by input (structural children left to right), then its
    explicit rank dependencies in the order they were added (add_rank_dependency statements as executed, then
    the service rank contract, client by client); ready nodes are taken first-in first-out, push sources
    before everything else; insertion order breaks ties.  None when a cycle / push-source dependency exists."""
    binds = {}
    for l in order:
        st = prog[l]
        if st["t"] == "bind" and st["ph"] not in binds:
            binds[st["ph"]] = st["ref"]
    insts = [l for l in order if is_node(prog[l]) and rep[l] == l]
    deps = []

    def add_dep(a, b):
        if a != b and (a, b) not in deps:
            deps.append((a, b))
    anchors, clients = {}, []
    for l in order:
        st = prog[l]
        if st["t"] == "dep":
            add_dep(rep[st["a"]], rep[st["b"]])
        elif st["t"] == "anchor":
            anchors.setdefault(st["path"], rep[st["ref"]])
        elif st["t"] == "client":
            clients.append((st["path"], rep[st["ref"]], st["recv"]))
    for (p, c, recv) in clients:
        if p in anchors and anchors[p] != c:
            add_dep(c, anchors[p]) if recv else add_dep(anchors[p], c)

    def prods(s):
        if s[0] in ("p", "e"):
            return [rep[s[1]]]
        if s[0] == "d":
            return [rep[binds[s[1]]]] if s[1] in binds else []
        if s[0] == "s":
            return [x for c in s[1] for x in prods(c)]
        return []
    indeg = {c: 0 for c in insts}
    cons = {c: [] for c in insts}
    for c in insts:
        for i in prog[c]["ins"]:
            if i["rank"]:
                for p in prods(i["src"]):
                    if p in indeg:
                        indeg[c] += 1
                        cons[p].append(c)
        for (a, b) in deps:
            if a == c and b in indeg:
                indeg[c] += 1
                cons[b].append(c)
    is_push = lambda c: prog[c]["kind"] == 3
    if any(is_push(c) and indeg[c] for c in insts):
        return None
    qp = [c for c in insts if indeg[c] == 0 and is_push(c)]
    q = [c for c in insts if indeg[c] == 0 and not is_push(c)]
    out = []
    while qp or q:
        c = qp.pop(0) if qp else q.pop(0)
        out.append(c)
        for x in cons[c]:
            indeg[x] -= 1
            if indeg[x] == 0:
                (qp if is_push(x) else q).append(x)
    return out if len(out) == len(insts) else None


def has_cycle(edges):
    adj = {}
    for a, b in edges:
        adj.setdefault(a, []).append(b)
        adj.setdefault(b, [])
    color = {}
    for root in adj:
        if root in color:
            continue
        stack = [(root, iter(adj[root]))]
        color[root] = 1
        while stack:
            v, it = stack[-1]
            nxt = next(it, None)
            if nxt is None:
                color[v] = 2
                stack.pop()
            elif color.get(nxt) == 1:
                return True
            elif nxt not in color:
                color[nxt] = 1
                stack.append((nxt, iter(adj[nxt])))
    return False


# --------------------------------------------------------------------------- the property oracle
def oracle(prop, case, out):
    if not isinstance(out, list):
        return [("crash", str(out)[:200])]
    prog, orders, _, exe = decode(case)
    obs = parse_out(out)
    fails = []
    ref_streams = None
    ref_evals = None
    verdicts = set()
    counts = set()

    def markers(st):
        return tuple(i.get("passive", 0) for i in st["ins"])
    # statements that share a node although they differ in the passive marker of an input: what the node
    # then does is decided by whichever statement ran first, so streams vary with statement order.
    marker_pairs = set()
    for k in range(len(orders)):
        o = obs.get(k)
        if o is None or o["reps"] is None:
            continue
        rp = list(o["reps"]) + [-1] * (len(prog) - len(o["reps"]))
        for l, st in enumerate(prog):
            r = rp[l]
            if is_node(st) and 0 <= r < len(prog) and r != l and is_node(prog[r]) and markers(st) != markers(prog[r]) \
                    and len(st["ins"]) == len(prog[r]["ins"]):
                marker_pairs.add((min(l, r), max(l, r)))
    zero_pairs = set()
    for k in range(len(orders)):
        o = obs.get(k)
        if o is None or o["reps"] is None:
            continue
        rp = list(o["reps"]) + [-1] * (len(prog) - len(o["reps"]))
        for l, st in enumerate(prog):
            r = rp[l]
            if is_node(st) and 0 <= r < len(prog) and r != l and is_node(prog[r]) and \
                    {st.get("fsc", -1), prog[r].get("fsc", -1)} == {0, 1}:
                zero_pairs.add((min(l, r), max(l, r)))
    for (a, b) in sorted(zero_pairs):
        fails.append(("signed_zero_merged", "statements %d and %d differ in a scalar (0.0 vs -0.0: their reciprocals are +inf and "
                      "-inf) but share one node" % (a, b)))
    for (a, b) in sorted(marker_pairs):
        fails.append(("passive_marker_not_in_key",
                      "statements %d and %d differ in the passive marker of an input but share one node" % (a, b)))
    children = decode_children(case)
    has_service = any(st["t"] == "client" for st in prog)
    for k in range(len(orders)):
        o = obs.get(k)
        if o is None or o["code"] is None:
            fails.append(("crash", "no verdict for order %d" % k))
            continue
        # ---- C06 inside a sub-graph wiring: statements that share a node are configured identically, where a
        # declared argument and a captured outer port are different inputs whatever their ordinal
        prep = list(o["reps"] or [])      # captured outer ports are compared by the parent NODE they belong to
        for child, (err, crep) in (o.get("children") or {}).items():
            sts = children.get(child, {})
            if err:
                fails.append(("subgraph_merge", "order %d: sub-graph wiring %d failed" % (k, child)))
                continue

            def ccfg(c):
                st = sts[c]
                return (st["def"], st["out"], st["has_sc"], st["sc"] if st["has_sc"] else (),
                        tuple((kind, crep.get(ref, -7) if kind == 0 else
                               (prep[ref] if kind == 5 and 0 <= ref < len(prep) else ref), elem) for kind, ref, elem in st["ins"]))
            for c, r in crep.items():
                if c in sts and r in sts and r != c and ccfg(c) != ccfg(r):
                    fails.append(("subgraph_merge", "order %d: sub-graph wiring %d: statements %d and %d differ (inputs %s vs %s as (kind, ref, "
                                  "element); 4 = declared argument, 5 = captured outer port) but share one node: the compiled child has "
                                  "fewer nodes than the inlined wiring" % (k, child, c, r, sts[c]["ins"], sts[r]["ins"])))
        code, reps = o["code"], o["reps"]
        verdicts.add(code)
        if code == 5:
            fails.append(("verdict", "order %d: wiring failed with an exception that is none of the documented rejections" % k))
            continue
        if code in (3, 4, 6, 8, 9, 10) or reps is None:
            continue     # malformed programs: the wiring statement itself is refused; nothing to rank
        rep = list(reps) + [-1] * (len(prog) - len(reps))
        nodes_l = [l for l, st in enumerate(prog) if is_node(st)]
        # ---- C06: no two differently configured statements share a node; sinks / unique nodes never shared
        for l in nodes_l:
            r = rep[l]
            if not (0 <= r < len(prog)) or not is_node(prog[r]) or rep[r] != r:
                fails.append(("merge", "order %d: statement %d mapped to %d which is not a node's own statement" % (k, l, r)))
                continue
            if r != l:
                if prog[l]["kind"] in (6, 7) and prog[r]["kind"] == prog[l]["kind"] and config(prog[l], rep) == config(prog[r], rep):
                    fails.append(("sink_body_merged_through_wrapper",
                                  "order %d: statements %d and %d (%s around a sub-graph with a sink) share one node: the sink body "
                                  "runs once per tick instead of once per statement" % (k, l, r, "nested_" if prog[l]["kind"] == 6 else "try_except_")))
                elif bypasses(prog[l]) or bypasses(prog[r]):
                    fails.append(("sink_merged", "order %d: statement %d (sink/unique) shares the node of %d" % (k, l, r)))
                elif {prog[l].get("fsc", -1), prog[r].get("fsc", -1)} == {0, 1} and \
                        config(dict(prog[l], fsc=0), rep) == config(dict(prog[r], fsc=0), rep):
                    pass    # reported as signed_zero_merged above
                elif config(prog[l], rep) != config(prog[r], rep):
                    fails.append(("merge", "order %d: statements %d and %d differ but share one node" % (k, l, r)))
        # ---- C01: rejected iff an unbroken cycle (rank edges of the program, DFS)
        edges = rank_graph(prog, rep)
        cyc = has_cycle(edges)
        pushdep = any(prog[c]["kind"] == 3 for (_, c) in edges)
        if code == 0 and cyc:
            fails.append(("verdict", "order %d: program with an unbroken cycle was built" % k))
        if code == 1 and not cyc:
            fails.append(("verdict", "order %d: acyclic program rejected as cyclic" % k))
        if code == 2 and not pushdep:
            fails.append(("verdict", "order %d: rejected for a push-source dependency that does not exist" % k))
        if code == 0 and pushdep:
            fails.append(("verdict", "order %d: push source with a rank dependency was built" % k))
        if code != 0:
            continue
        nodes = o["nodes"]
        classes = sorted(set(rep[l] for l in nodes_l))
        counts.add(len(nodes))
        if sorted(nodes) != classes:
            fails.append(("perm", "order %d: compiled nodes %s are not the distinct wired nodes %s" % (k, nodes[:12], classes[:12])))
            continue
        # a passive-marked input is not among the node's active inputs; every other rank input is
        for c, act in (o.get("active") or {}).items():
            if 0 <= c < len(prog) and is_node(prog[c]) and not prog[c]["uniq"]:
                want = tuple(j for j, i in enumerate(prog[c]["ins"]) if i["rank"] and not i.get("passive"))
                if tuple(act) != want:
                    fails.append(("passive_marker_ignored", "order %d: node of statement %d has active inputs %s, its statement asks for %s "
                                  "(passive markers %s)" % (k, c, list(act), list(want), [i.get("passive", 0) for i in prog[c]["ins"]])))
        # the error-capture options in force on a compiled node are what the statements reading its error output ask
        # for (depth: the deepest request; values: captured if any reader asks), whatever else the process wired before
        asked = {}
        for l in orders[k]:
            st = prog[l]
            if is_node(st):
                for i in st["ins"]:
                    for e in err_sources(i["src"]):
                        c = rep[e[1]]
                        d0, v0 = asked.get(c, (1, 0))
                        asked[c] = (max(d0, 1 + (e[2] >> 1)), v0 | (e[2] & 1))
        for c, got in (o.get("capture_options") or {}).items():
            if c in asked and tuple(got) != asked[c]:
                fails.append(("error_capture_options", "order %d: node of statement %d captures errors with (trace depth, values) = %s, its "
                              "readers ask for %s" % (k, c, tuple(got), asked[c])))
        want_order = canonical_order(prog, orders[k], rep)
        if want_order is not None and list(nodes) != want_order:
            d = next(i for i, (a, b) in enumerate(zip(nodes, want_order)) if a != b)
            fails.append(("order_not_canonical", "order %d: compiled node order differs from the insertion-order Kahn order at index %d "
                          "(statement %d, expected %d)" % (k, d, nodes[d], want_order[d])))
        if o.get("stable") == 0:
            fails.append(("order_not_canonical", "order %d: building the same wiring again in this process compiled a different node order" % k))
        idx = {c: i for i, c in enumerate(nodes)}
        # every compiled edge that is not rank-free goes forward
        for (s, sp, t, tp) in o["edges"]:
            if not (0 <= s < len(nodes) and 0 <= t < len(nodes)) or not tp:
                fails.append(("edges", "order %d: malformed edge %s" % (k, (s, t, tp))))
                continue
            st = prog[nodes[t]]
            slot = tp[0]
            if slot >= len(st["ins"]):
                fails.append(("edges", "order %d: edge into slot %d that node %d does not have" % (k, slot, nodes[t])))
                continue
            if st["ins"][slot]["rank"] and not s < t:
                fails.append(("order", "order %d: producer index %d is not before consumer index %d (labels %d -> %d)"
                              % (k, s, t, nodes[s], nodes[t])))
        for (a, b) in edges:
            if not idx[a] < idx[b]:
                fails.append(("dep_order", "order %d: rank dependency %d -> %d compiled as %d -> %d" % (k, a, b, idx[a], idx[b])))
        # number of compiled edges = number of bound leaves of the kept statements
        binds = {st["ph"] for st in prog if st["t"] == "bind"}

        def leaves(s):
            if s[0] in ("p", "e"):
                return 1
            if s[0] == "d":
                return 1 if s[1] in binds else 0
            if s[0] == "s":
                return sum(leaves(c) for c in s[1])
            return 0
        want = sum(leaves(i["src"]) for c in nodes for i in prog[c]["ins"])
        if want != len(o["edges"]):
            fails.append(("edges", "order %d: %d compiled edges, the program has %d connections" % (k, len(o["edges"]), want)))
        # push sources first
        flags = [prog[c]["kind"] == 3 for c in nodes]
        if any(b and not a for a, b in zip(flags, flags[1:])):
            fails.append(("push_prefix", "order %d: a push source is ranked after an ordinary node" % k))
        # ---- C06: identical streams / evaluation counts across statement orders
        if exe and not o["runerr"] and o["evals"] is not None:
            canon = {}
            for l in nodes_l:
                canon.setdefault(rep[l], []).append(l)
            ev = {min(canon[c]): n for c, n in o["evals"].items() if c in canon}
            if ref_streams is None:
                ref_streams, ref_evals = o["streams"], ev
            else:
                if o["streams"] != ref_streams:
                    bad = [s for s in ref_streams if o["streams"].get(s) != ref_streams[s]]
                    fails.append(("passive_marker_not_in_key" if marker_pairs else "signed_zero_merged" if zero_pairs else "handover" if has_service else "streams",
                                  "order %d: sink %s saw a different stream than in order 0" % (k, bad[:4])
                                  + (" (a node combined a service hand-over of another cycle, or missed this cycle's)" if has_service else "")))
                if ev != ref_evals:
                    fails.append(("passive_marker_not_in_key" if marker_pairs else "signed_zero_merged" if zero_pairs else "evals",
                                  "order %d: evaluation counts differ from order 0" % k))
        elif exe and o["runerr"]:
            fails.append(("streams", "order %d: the built graph failed to run" % k))
    # two different statement-time refusals (self dependency, rebind) in one malformed program surface in
    # whichever order the statements run: not a property of the dataflow.  Everything else must not vary.
    if len(verdicts) > 1 and not verdicts <= {4, 6, 8, 9, 10}:
        fails.append(("verdict_varies", "verdicts differ across statement orders: %s" % sorted(verdicts)))
    if len(counts) > 1:
        fails.append(("count_varies", "node counts differ across statement orders: %s" % sorted(counts)))
    return fails


def agree(case, impl_out, model_out):
    return isinstance(impl_out, list) and isinstance(model_out, list) and len(model_out) == 1 and model_out[0][:1] == [1]


def nontrivial(case, out):
    obs = parse_out(out)
    if not obs:
        return False
    o = obs.get(0, {})
    return o.get("code") in (0, 1, 2) and len([l for l in case if l[0] == 2]) >= 3


def stats(case, out):
    prog, orders, _, exe = decode(case)
    obs = parse_out(out)
    s = {"stmts": len(prog), "node_stmts": sum(1 for st in prog if is_node(st)), "orders": len(orders),
         "with_feedback": int(any(is_node(st) and st["kind"] == 4 for st in prog)),
         "with_rank_free_edge": int(any(is_node(st) and any(not i["rank"] for i in st["ins"]) for st in prog)),
         "with_explicit_dep": int(any(st["t"] == "dep" for st in prog)),
         "with_push_source": int(any(is_node(st) and st["kind"] == 3 for st in prog)),
         "with_structural_input": int(any(is_node(st) and any(i["src"][0] == "s" for i in st["ins"]) for st in prog)),
         "with_placeholder": int(any(st["t"] == "place" for st in prog)),
         "with_forward_reference": int(any(is_node(st) and any(i["rank"] and src_refs(i["src"])[1] for i in st["ins"]) for st in prog)),
         "with_passive_marker": int(any(is_node(st) and any(i.get("passive") for i in st["ins"]) for st in prog)),
         "with_passive_marker_pair": int(bool(passive_pairs(prog))),
         "with_passive_on_late_producer": int(any(is_node(st) and any(i.get("passive") and i["rank"] and i["src"][0] == "d" for i in st["ins"]) for st in prog)),
         "with_recordable_state_sink": int(any(is_node(st) and st["kind"] == 9 for st in prog)),
         "with_sink_wrapper": int(any(is_node(st) and st["kind"] in (6, 7) for st in prog)),
         "with_float_scalar": int(any(is_node(st) and st.get("fsc", -1) >= 0 for st in prog)),
         "with_signed_zero_pair": int(any(is_node(prog[a]) and is_node(prog[a + 1]) and {prog[a].get("fsc", -1), prog[a + 1].get("fsc", -1)} == {0, 1} for a in range(len(prog) - 1))),
         "with_error_port_reader": int(any(is_node(st) and any(src_has_err(i["src"]) for i in st["ins"]) for st in prog)),
         "with_capture_between_duplicates": int(bool(capture_swaps(prog))),
         "with_service_endpoint": int(any(st["t"] == "anchor" for st in prog)),
         "service_clients": sum(1 for st in prog if st["t"] == "client"),
         "with_subgraph_wiring": int(any(l[0] == 12 for l in case)),
         "subgraph_statements": sum(1 for l in case if l[0] == 12),
         "executed": 0}
    for k, o in obs.items():
        c = o["code"]
        s["verdict_%s" % {0: "built", 1: "cycle", 2: "pushdep", 3: "unbound", 4: "selfdep", 6: "inadmissible", 8: "rebind", 9: "allpassive"}.get(c, "other")] = \
            s.get("verdict_%s" % {0: "built", 1: "cycle", 2: "pushdep", 3: "unbound", 4: "selfdep", 6: "inadmissible", 8: "rebind", 9: "allpassive"}.get(c, "other"), 0) + 1
        if o["reps"] is not None and k == 0:
            s["merged_statements"] = sum(1 for l, r in enumerate(o["reps"]) if r >= 0 and r != l)
        if c == 0 and k == 0:
            s["compiled_nodes"] = len(o["nodes"])
            s["compiled_edges"] = len(o["edges"])
            s["backward_edges"] = sum(1 for (a, _, b, _) in o["edges"] if a >= b)
        if k == 0 and o.get("children"):
            s["subgraph_merged_statements"] = sum(1 for (_, cr) in o["children"].values() for c, r in cr.items() if c != r)
        if o["evals"] is not None:
            s["executed"] += 1
            if k == 0:
                s["stream_ticks"] = sum(len(v) // 2 for v in o["streams"].values())
    return s


# --------------------------------------------------------------------------- shrinking
def _remap_src(s, m):
    if s[0] in ("p", "d", "e"):
        return (s[0], m[s[1]], s[2])
    if s[0] == "s":
        return ("s", tuple(_remap_src(c, m) for c in s[1]))
    return s


def drop_stmt(prog, orders, i):
    n = len(prog)
    for j, st in enumerate(prog):
        if j != i and i in stmt_needs(st):
            return None
    m = {j: (j if j < i else j - 1) for j in range(n)}
    new = []
    for j, st in enumerate(prog):
        if j == i:
            continue
        st = dict(st)
        if st["t"] == "node":
            st["ins"] = [{"rank": x["rank"], "passive": x.get("passive", 0), "tp": x["tp"], "src": _remap_src(x["src"], m)} for x in st["ins"]]
        elif st["t"] == "bind":
            st["ph"], st["ref"] = m[st["ph"]], m[st["ref"]]
        elif st["t"] == "dep":
            st["a"], st["b"] = m[st["a"]], m[st["b"]]
        elif st["t"] in ("anchor", "client"):
            st["ref"] = m[st["ref"]]
        new.append(st)
    return new, [[m[x] for x in o if x != i] for o in orders]


def shrink(case):
    for c in _shrink(case):
        yield c


def _shrink(case):
    prog, orders, end_time, exe = decode(case)
    kids = child_lines(case)
    enc = lambda *a: with_children(encode(*a), kids)
    if kids:
        yield encode(prog, orders, end_time, exe)                       # no sub-graph wirings
        ids = sorted({(l[2], l[1]) for l in kids if l[0] == 12})
        for (ch, cl) in reversed(ids):                                   # drop one child statement nobody reads
            if not any(l[0] == 13 and l[2] == ch and l[4] == 0 and l[5] == cl for l in kids):
                yield with_children(encode(prog, orders, end_time, exe), [l for l in kids if not (l[2] == ch and l[1] == cl)])
    if len(orders) > 2:
        for k in range(1, len(orders)):
            yield enc(prog, orders[:k] + orders[k + 1:], end_time, exe)
    for i in range(len(prog) - 1, -1, -1):
        if any(l[0] == 13 and l[4] == 5 and l[5] == i for l in kids):
            continue
        r = drop_stmt(prog, orders, i)
        if r is not None:
            k2 = [list(l) for l in kids]
            for l in k2:
                if l[0] == 13 and l[4] == 5 and l[5] > i:
                    l[5] -= 1
            yield with_children(encode(r[0], r[1], end_time, exe), k2)
    for i, st in enumerate(prog):
        if st["t"] == "node" and len(st["ins"]) > 1 and st["kind"] != 5:
            for k in range(len(st["ins"])):
                p2 = [dict(x) for x in prog]
                p2[i] = dict(st)
                p2[i]["ins"] = [dict(x, tp=()) for j, x in enumerate(st["ins"]) if j != k]
                yield enc(p2, orders, end_time, exe)
        if st["t"] == "node" and st["sc"] and any(st["sc"]):
            p2 = [dict(x) for x in prog]
            p2[i] = dict(st, sc=tuple(0 for _ in st["sc"]))
            yield enc(p2, orders, end_time, exe)
    if exe:
        yield enc(prog, orders, end_time, 0)
