"""Family `switch` (property C12): the real switch_ operator over generated branch sets.

Case lines
  1 start end
  2 nts reload [shape]              nts = number of time-series arguments (0..2); reload = switch_cases(...).reload();
                                    shape 0 (default): TS<int> output, emit = out.set(v); shape 1: TSS<int> output owned by
                                    the switch, emit = out.add(v) (the set a branch instance has published so far)
  3 key slot usekey                 case entry: key value -> body table slot; usekey: the branch takes the key as first argument
  4 slot usekey                     default branch
  5 slot sos etick ewake rtick rwake d c m l acc cnt wk [erun [sd]]     body table entry (see below)
  9 1                               set-input mode: nts must be 0; the switch holds one TSS<int> input instead, every case entry
                                    is the delta consumer (seen += |added|; emit seen*100 + size); oracle-only (no model)
  7 t op v                          set-input mode: at t add (op 1) / remove (op 0) v on the held set
  6 src t v                         scripted source tick: src 0 = key, 1 = first ts argument, 2 = second; at time t value v

Branch body (one node, State<Int> st, NodeScheduler): inputs = [key if usekey] + the nts arguments, all must be valid to run.
  start hook: if sos: schedule(now + sd)          (sd = 0: the start cycle itself; sd > 0: a later timer)
  evaluation: ticked = some input valid and modified; woke = scheduler.is_scheduled_now()
     if ticked: st += acc * sum(modified inputs) + cnt;  if woke: st += wk
     if (ticked and etick) or (woke and ewake): emit c + m*st + l*sum(valid inputs)
     if (ticked and rtick) or (woke and rwake): schedule(now + d)

Observation lines
  10 t                  root cycle
  11 t                  switch node evaluated by the root graph
  22 t inst slot        branch graph started (inst = ordinal of the instance, slot = which of the two fixed memory slots)
  23 t inst slot        branch graph stopped
  24 t inst             branch graph evaluated
  25 t inst node        node of the branch graph evaluated
  26 t inst st woke (valid modified value)*   user code of the body ran
  56 t inst seen na nr nv added.. removed.. members..   delta consumer ran (set-input mode)
  27 t inst v           body emitted v
  28 t inst when        body requested a wake-up
  20 t valid modified v recorder on the switch output saw a tick (shape 0)
  21 t valid modified nv na nr members.. added.. removed..    recorder on a TSS output: value and delta of the cycle, sorted
  29 code               error: 2 unmatched key without default, 9 malformed case (others: unexpected)
  30 valid v lmt        final state of the switch output (shape 0)
  31 valid lmt n members..          final state of a TSS output
"""
import random

NAME = "switch"
DRIVER_SRCS = ["switch_driver.cpp"]
MODEL_FAMILY = "switch"
MODE = "diff"
BUDGET = {"quick": 400, "thorough": 40000}
NSLOT = 6

# ---------------------------------------------------------------- generator
ARCH = ["lin", "acc", "count", "timer", "ticker", "echo", "mixed", "startarm", "startarm"]


def _body(rng):
    a = rng.choice(ARCH)
    b = dict(sos=0, etick=1, ewake=0, rtick=0, rwake=0, d=1, c=0, m=0, l=1, acc=0, cnt=0, wk=0)
    if a == "lin":
        b.update(c=rng.randint(-5, 20), l=rng.choice([1, 1, 2, -1]))
    elif a == "acc":
        b.update(acc=1, m=1, l=0, c=rng.choice([0, 0, 1000]))
    elif a == "count":
        b.update(cnt=1, m=1, l=0, c=rng.choice([0, 500]))
    elif a == "timer":     # arms a timer on every tick, emits when it fires
        b.update(etick=rng.choice([0, 0, 1]), ewake=1, rtick=1, d=rng.randint(1, 5), acc=1, m=1, l=0, c=100)
    elif a == "ticker":    # self-scheduling source-like body
        b.update(sos=1, sd=rng.choice([0, 0, 1, 3]), etick=rng.choice([0, 1]), ewake=1, rwake=1, d=rng.randint(1, 4), wk=1, m=1, l=rng.choice([0, 1]), c=200)
    elif a == "echo":      # emits on tick and once more d later
        b.update(etick=1, ewake=1, rtick=1, d=rng.randint(1, 3), acc=0, cnt=1, wk=10, m=1, l=1)
    elif a == "startarm":  # the START hook arms a LATER timer; the body also reads the held inputs
        b.update(sos=1, sd=rng.randint(1, 5), etick=1, ewake=rng.randint(0, 1), rwake=rng.randint(0, 1), rtick=rng.choice([0, 0, 1]),
                 d=rng.randint(1, 4), acc=rng.choice([0, 1]), cnt=rng.choice([0, 1]), wk=rng.choice([0, 10]), m=1, l=rng.choice([0, 1]),
                 c=rng.choice([0, 300]))
    else:
        b.update(sd=rng.choice([0, 0, 0, 1, 2, 4]))
        b.update(sos=rng.randint(0, 1), etick=rng.randint(0, 1), ewake=rng.randint(0, 1), rtick=rng.randint(0, 1),
                 rwake=rng.randint(0, 1), d=rng.choice([-1, 0, 1, 1, 2, 3, 6]), c=rng.randint(-3, 9), m=rng.randint(-1, 2),
                 l=rng.randint(-1, 2), acc=rng.randint(0, 2), cnt=rng.randint(0, 2), wk=rng.randint(0, 3))
    return b


def _body_nested(rng):
    """Bodies that emit on EVERY run (erun): the activation cycle of a nested wrapper is observable at the output
    whatever the inputs' modified flags say."""
    return dict(sos=rng.randint(0, 1), etick=rng.randint(0, 1), ewake=rng.randint(0, 1), rtick=0, rwake=rng.randint(0, 1),
                d=rng.choice([1, 1, 2, 3, 4]), c=rng.randint(-5, 20), m=rng.randint(-1, 2), l=rng.choice([1, 1, 2, -1, 0]),
                acc=0, cnt=0, wk=rng.randint(0, 3), erun=1, sd=rng.choice([0, 0, 1, 2, 3]))


def _body_line(slot, b):
    l = [5, slot, b["sos"], b["etick"], b["ewake"], b["rtick"], b["rwake"], b["d"], b["c"], b["m"], b["l"], b["acc"],
         b["cnt"], b["wk"]]
    if b.get("erun") or b.get("sd"):
        l.append(int(bool(b.get("erun"))))
    if b.get("sd"):
        l.append(b["sd"])
    return l


def gen(rng, tier, prop):
    if rng.random() < 0.04:
        return _malformed(rng)
    if prop != "C09" and rng.random() < 0.15:
        return _gen_setin(rng, tier)
    start = rng.randint(1, 3)
    span = rng.randint(6, 22 if tier == "quick" else 40)
    end = start + span
    nts = rng.choice([0, 1, 1, 1, 2, 2])
    reload = 1 if rng.random() < 0.25 else 0
    shape = 1 if rng.random() < 0.4 else 0
    depth = 0
    if prop == "C09" or rng.random() < 0.15:
        shape, depth = 0, rng.choice([1, 2])           # every branch body wrapped in nested_<G>, depth 1 or 2
    hdr = [2, nts, reload, shape, depth] if depth else ([2, nts, reload, shape] if shape or rng.random() < 0.5 else [2, nts, reload])
    case = [[1, start, end], hdr]
    nslots = rng.randint(1, NSLOT)
    for s in range(nslots):
        b = _body_nested(rng) if depth and rng.random() < 0.3 else _body(rng)    # nested wrappers take every body
        if rng.random() < 0.1:
            b["erun"] = 1
        case.append(_body_line(s, b))
    keys = rng.sample([1, 2, 3, 4, 5], rng.randint(1, 4))
    for k in keys:
        case.append([3, k, rng.randrange(nslots), 1 if rng.random() < 0.35 else 0])
    has_default = rng.random() < 0.45
    if has_default:
        case.append([4, rng.randrange(nslots), 1 if rng.random() < 0.3 else 0])
    # key history
    times = []
    t = start + rng.choice([0, 0, 1, 2, 3])
    style = rng.choice(["rapid", "sparse", "mixed", "mixed"])
    while t < end:
        times.append(t)
        if style == "rapid":
            t += rng.choice([1, 1, 1, 2])
        elif style == "sparse":
            t += rng.randint(2, 7)
        else:
            t += rng.choice([1, 1, 2, 3, 5, 8])
        if rng.random() < 0.04:
            break
    pool = list(keys)
    unmatched_p = 0.25 if has_default else 0.04
    prev = None
    for t in times:
        r = rng.random()
        if r < unmatched_p:
            k = rng.choice([7, 8, 9])
        elif r < unmatched_p + 0.15 and prev is not None:
            k = prev                      # same key again (no switch unless reload)
        else:
            k = rng.choice(pool)
        prev = k
        case.append([6, 0, t, k])
    # input histories
    key_times = set(times)
    for src in range(1, nts + 1):
        style = rng.choice(["dense", "sparse", "with_key", "late", "none"] if src == 2 else ["dense", "sparse", "with_key", "late"])
        if style == "none":
            continue
        ts = set()
        lo = start if style != "late" else start + span // 2
        for t in range(lo, end):
            p = {"dense": 0.55, "sparse": 0.18, "with_key": 0.15, "late": 0.4}[style]
            if style == "with_key" and t in key_times:
                p = 0.8
            if rng.random() < p:
                ts.add(t)
        if rng.random() < 0.15:
            ts.add(start - 1)             # before the start time: never delivered
        lo_v, hi_v = (-9, 30) if not shape else rng.choice([(0, 3), (0, 6), (-9, 30)])   # small ranges: members overlap
        for t in sorted(ts):
            case.append([6, src, t, rng.randint(lo_v, hi_v)])
    return case


def _gen_setin(rng, tier):
    """Set-input mode (line `9 1`): the switch holds ONE TSS<int> input (scripted adds / removes, line `7 t op v`,
    op 1 add / 0 remove, only effective ops); every branch is the delta consumer `seen += |added|; emit seen*100 + size`.
    Key changes are placed preferentially in the same cycle as a set tick."""
    start = rng.randint(1, 3)
    end = start + rng.randint(8, 20 if tier == "quick" else 36)
    reload = 1 if rng.random() < 0.2 else 0
    case = [[1, start, end], [9, 1], [2, 0, reload]]
    keys = rng.sample([1, 2, 3, 4], rng.randint(2, 4))
    for k in keys:
        case.append([3, k, rng.randrange(NSLOT), 0])
    if rng.random() < 0.4:
        case.append([4, rng.randrange(NSLOT), 0])
    members, set_times = set(), []
    for t in range(start, end):
        if rng.random() < 0.5:
            ops = []
            for _ in range(rng.randint(1, 2)):
                if members and rng.random() < 0.3:
                    v = rng.choice(sorted(members))
                    if all(o[3] != v for o in ops):
                        members.discard(v)
                        ops.append([7, t, 0, v])
                else:
                    v = rng.randint(1, 9)
                    if v not in members and all(o[3] != v for o in ops):
                        members.add(v)
                        ops.append([7, t, 1, v])
            if ops:
                case += ops
                set_times.append(t)
    prev = None
    for t in range(start + rng.choice([0, 1, 2]), end):
        p = 0.6 if t in set_times else 0.12
        if rng.random() < p:
            r = rng.random()
            k = rng.choice([7, 8]) if r < 0.12 else (prev if (r < 0.25 and prev is not None) else rng.choice(keys))
            prev = k
            case.append([6, 0, t, k])
    return case


def enumerate_cases(prop):
    """Exhaustive small space (thorough tier): every key history over {no tick, 1, 2, 9} at five consecutive
    times, against a fixed input history, with/without default branch and reload: all flip patterns of
    length <= 5 over a stateful branch, a timer branch and an unmatched key."""
    if prop == "C09":
        return
    acc = dict(sos=0, etick=1, ewake=0, rtick=0, rwake=0, d=1, c=0, m=1, l=0, acc=1, cnt=0, wk=0)
    timer = dict(sos=0, etick=0, ewake=1, rtick=1, rwake=0, d=2, c=100, m=1, l=0, acc=1, cnt=0, wk=0)
    ticker = dict(sos=1, etick=1, ewake=1, rtick=0, rwake=1, d=2, c=200, m=1, l=1, acc=0, cnt=0, wk=1)
    base = [[1, 1, 12], _body_line(0, acc), _body_line(1, timer), _body_line(2, ticker), [3, 1, 0, 0], [3, 2, 1, 0],
            [6, 1, 1, 5], [6, 1, 3, 6], [6, 1, 4, 7], [6, 1, 6, 8], [6, 1, 9, 9]]
    import itertools
    for shape, dflt, reload in itertools.product((0, 1), (0, 1), (0, 1)):
        if True:
            for ks in itertools.product((0, 1, 2, 9, 8) if (shape and dflt) else (0, 1, 2, 9), repeat=5):
                if not any(ks):
                    continue
                c = [list(l) for l in base] + [[2, 1, reload, shape]]
                if dflt:
                    c.append([4, 2, 1])
                for i, k in enumerate(ks):
                    if k:
                        c.append([6, 0, 2 + i, k])
                yield c


def _malformed(rng):
    c = gen(rng, "quick", None) if rng.random() < 0.7 else [[1, 1, 8]]
    c = [list(l) for l in c]
    r = rng.randrange(8)
    if r == 0:
        c = [l for l in c if l[0] not in (3, 4)]                     # no branch at all
    elif r == 1:
        c.append([2, rng.choice([-1, 3, 7]), 0])                      # bad arity
    elif r == 2:
        c.append([3, 1, rng.choice([-1, NSLOT, 99]), 0])              # slot out of range
    elif r == 3:
        c.append([1, 5, 5])                                           # empty window
    elif r == 4:
        c.append([6, rng.choice([-1, 3, 9]), 2, 1])                   # unknown source
        c.append([5, 17, 1, 1, 1, 1, 1, 1, 1, 1, 1, 1, 1, 1])        # table slot out of range: ignored
    elif r == 5:
        c.append([6, 0])                                              # short lines are ignored
        c.append([3, 1])
        c.append([77, 1, 2, 3])
    elif r == 6:
        c.append([4, rng.choice([-2, NSLOT]), 1])                     # bad default slot
    elif r == 7 and rng.random() < 0.5:
        c.append([2, 1, 0, rng.choice([-1, 2, 5])])                   # unknown output shape
    else:
        c.append([1, 0, 9])                                           # start below MIN_ST
    return c


# ---------------------------------------------------------------- parsing
def parse_case(case):
    d = dict(start=1, end=10, nts=1, reload=0, shape=0, depth=0, setin=0, setops={}, ents=[], dflt=None, tab=[None] * NSLOT, hist={0: {}, 1: {}, 2: {}})
    dfl = dict(sos=0, etick=1, ewake=0, rtick=0, rwake=0, d=1, c=0, m=0, l=1, acc=0, cnt=0, wk=0, erun=0, sd=0)
    d["tab"] = [dict(dfl) for _ in range(NSLOT)]
    for l in case:
        if l[0] == 1 and len(l) >= 3:
            d["start"], d["end"] = l[1], l[2]
        elif l[0] == 2 and len(l) >= 3:
            d["nts"], d["reload"] = l[1], int(l[2] != 0)
            d["shape"] = l[3] if len(l) >= 4 else 0
            d["depth"] = l[4] if len(l) >= 5 else 0
        elif l[0] == 3 and len(l) >= 4:
            d["ents"].append((l[1], l[2], int(l[3] != 0)))
        elif l[0] == 4 and len(l) >= 3:
            d["dflt"] = (l[1], int(l[2] != 0))
        elif l[0] == 5 and len(l) >= 14 and 0 <= l[1] < NSLOT:
            names = ["sos", "etick", "ewake", "rtick", "rwake", "d", "c", "m", "l", "acc", "cnt", "wk"]
            b = dict(zip(names, l[2:14]))
            for n in names[:5]:
                b[n] = int(b[n] != 0)
            b["erun"] = int(len(l) >= 15 and l[14] != 0)
            b["sd"] = l[15] if len(l) >= 16 else 0
            d["tab"][l[1]] = b
        elif l[0] == 6 and len(l) >= 4 and 0 <= l[1] <= 2:
            d["hist"][l[1]].setdefault(l[2], l[3])
        elif l[0] == 7 and len(l) >= 4:
            d["setops"].setdefault(l[1], []).append((l[2], l[3]))
        elif l[0] == 9 and len(l) >= 2:
            d["setin"] = int(l[1] != 0)
    d["ok"] = (0 <= d["nts"] <= 2 and 0 <= d["shape"] <= 1 and 0 <= d["depth"] <= 2 and (d["depth"] == 0 or d["shape"] == 0) and (d["ents"] or d["dflt"] is not None)
               and all(0 <= e[1] < NSLOT for e in d["ents"])
               and (d["dflt"] is None or 0 <= d["dflt"][0] < NSLOT)
               and 1 <= d["start"] < d["end"] <= 100000)
    return d


def select(d, k):
    for (kk, sl, uk) in d["ents"]:
        if kk == k:
            return (sl, uk)
    return d["dflt"]


# ---------------------------------------------------------------- reference: one branch, alone
def alone(d, br, t0, t1, stop_on=None):
    """Output ticks [(t, v)] a FRESH instance of branch `br` produces when started at t0 with the held
    inputs' current values presented as ticked, fed the later ticks of its inputs, until (excluding) t1.
    Also returns the times at which its user code runs with the state it sees.  Pure Python; shares
    nothing with the Coq model."""
    sl, uk = br
    b = d["tab"][sl]
    srcs = ([0] if uk else []) + list(range(1, d["nts"] + 1))
    start = d["start"]

    def held(src, t):            # latest (time, value) of src at or before t (ticks before start never happen)
        ts = [x for x in d["hist"][src] if start <= x <= t]
        if not ts:
            return None
        m = max(ts)
        return (m, d["hist"][src][m])

    st = 0
    timers = set()
    if b["sos"] and b["sd"] >= 0:
        timers.add(t0 + b["sd"])
    outs, runs = [], []
    t = t0
    first = True
    while t < t1:
        vals = [held(s, t) for s in srcs]
        if first:
            mod = [v is not None for v in vals]
        else:
            mod = [v is not None and v[0] == t for v in vals]
        woke = bool(timers) and min(timers) == t
        if woke or any(mod):
            if all(v is not None for v in vals):         # the node needs every input valid
                ticked = any(mod)
                runs.append((t, st, int(woke), [(1, int(m), v[1]) for m, v in zip(mod, vals)]))
                if ticked:
                    st += b["acc"] * sum(v[1] for m, v in zip(mod, vals) if m) + b["cnt"]
                if woke:
                    st += b["wk"]
                if b["erun"] or (ticked and b["etick"]) or (woke and b["ewake"]):
                    outs.append((t, b["c"] + b["m"] * st + b["l"] * sum(v[1] for v in vals)))
                if ((ticked and b["rtick"]) or (woke and b["rwake"])) and b["d"] > 0:
                    timers.add(t + b["d"])
            if woke:
                timers = {x for x in timers if x > t}
        first = False
        # next moment anything can happen to this instance
        cand = [x for s in srcs for x in d["hist"][s] if x > t and x >= start] + [x for x in timers if x > t]
        if not cand:
            break
        t = min(cand)
    return outs, runs, timers


def expected(d):
    """Switch points [(t, key, branch or None)] from the key history, the expected output ticks and
    whether an error is expected."""
    start, end = d["start"], d["end"]
    kt = sorted(t for t in d["hist"][0] if start <= t < end)
    points = []
    cur = None
    err_at = None
    for t in kt:
        k = d["hist"][0][t]
        if cur is None or d["reload"] or k != cur:
            br = select(d, k)
            points.append((t, k, br))
            if br is None:
                err_at = t
                break
            cur = k
    return points, err_at


# ---------------------------------------------------------------- oracle
def oracle(prop, case, out):
    """C12 stated directly on the implementation's trace."""
    if not isinstance(out, list):
        return [("crash", str(out)[:300])]
    d = parse_case(case)
    fails = []
    if not d["ok"]:
        if out != [[29, 9]]:
            fails.append(("malformed_not_rejected", "malformed case produced %s" % out[:3]))
        return fails
    if any(l[0] == 28 and len(l) == 2 for l in out):
        return [("crash", "driver could not build the graph")]
    if d["setin"]:
        return _oracle_setin(d, out)
    points, err_at = expected(d)
    errs = [l[1] for l in out if l[0] == 29]
    # --- an unmatched key with no default branch is an error (and nothing else is)
    if err_at is not None and errs != [2]:
        fails.append(("missing_error", "key %d at %d matches no case and there is no default, but errors=%s"
                      % (points[-1][1], err_at, errs)))
    if err_at is None and errs:
        fails.append(("spurious_error", "error %s although every key is matched" % errs))
    horizon = err_at if err_at is not None else d["end"]
    # --- lifecycle of instances
    starts = [l for l in out if l[0] == 22]
    good_points = [p for p in points if p[2] is not None]
    if [l[1] for l in starts] != [p[0] for p in good_points]:
        fails.append(("instance_per_selection", "branch graphs started at %s but the key history selects at %s"
                      % ([l[1] for l in starts], [p[0] for p in good_points])))
    if [l[2] for l in starts] != list(range(len(starts))):
        fails.append(("instance_per_selection", "instances are not new ones: ids %s" % [l[2] for l in starts]))
    for a, b in zip(starts, starts[1:]):
        if a[3] == b[3]:
            fails.append(("slot_protocol", "consecutive instances %d and %d share slot %d" % (a[2], b[2], a[3])))
    stopped = {}
    running = None
    for idx, l in enumerate(out):
        if l[0] == 22:
            if running is not None:
                fails.append(("two_running", "instance %d started at %d while %d still runs" % (l[2], l[1], running)))
            running = l[2]
        elif l[0] == 23:
            if l[2] in stopped:
                fails.append(("stopped_twice", "instance %d stopped twice" % l[2]))
            stopped[l[2]] = l[1]
            if running == l[2]:
                running = None
        elif l[0] in (24, 25, 26, 27, 28):
            if l[2] in stopped:
                fails.append(("eval_after_stop", "stopped instance %d shows event %s" % (l[2], l)))
            elif l[2] != running:
                fails.append(("eval_not_active", "event %s of an instance that is not the running one (%s)" % (l, running)))
    # --- fresh state and sampling; behaviour of each instance = the branch alone
    rec = [(l[1], l[4]) for l in out if l[0] == 20]
    exp_rec = []
    exp_set_lines = []          # shape 1: the recorder lines the selected branches alone would produce
    container = set()           # what the output holds: ONLY what the current instance has published
    for n, (t0, k, br) in enumerate(good_points):
        t1 = points[n + 1][0] if n + 1 < len(points) else d["end"]
        outs, runs, _ = alone(d, br, t0, t1)
        exp_rec += outs
        if d["shape"] == 1:
            # a re-instantiation starts from an empty container: everything the replaced instance had published
            # and the new one does not re-publish in the same cycle is removed
            ticks = sorted({t for (t, _) in outs} | ({t0} if n > 0 else set()))
            for t in ticks:
                before = set(container)
                if t == t0 and n > 0:
                    container = set()
                container |= {v for (tt, v) in outs if tt == t}
                add, rem = sorted(container - before), sorted(before - container)
                exp_set_lines.append([21, t, 1, 1, len(container), len(add), len(rem)] + sorted(container) + add + rem)
        got_runs = [(l[1], l[3], l[4], [tuple(l[5 + 3 * j: 8 + 3 * j]) for j in range((len(l) - 5) // 3)])
                    for l in out if l[0] == 26 and l[2] == n]
        if d["depth"] > 0:
            # the wrapper is transparent: the wrapped body runs exactly when, and reads exactly what, the inlined body does
            if got_runs and got_runs[0][1] != 0:
                fails.append(("not_fresh", "instance %d (key %d selected at %d) first runs with state %d, not 0"
                              % (n, k, t0, got_runs[0][1])))
            if got_runs != runs:
                fails.append(("nested_in_branch_differs", "instance %d (branch slot %d, body nested %d deep) ran %s; the inlined "
                              "body runs %s (t, state, woke, [(valid, modified, value)])" % (n, br[0], d["depth"], got_runs[:6], runs[:6])))
            continue
        if got_runs and got_runs[0][1] != 0:
            fails.append(("not_fresh", "instance %d (key %d selected at %d) first runs with state %d, not 0"
                          % (n, k, t0, got_runs[0][1])))
        if runs and runs[0][0] == t0:
            if not got_runs or got_runs[0][0] != t0:
                fails.append(("not_sampled", "instance %d selected at %d with all held inputs valid did not run at %d"
                              % (n, t0, t0)))
            elif got_runs[0][3] != runs[0][3]:
                fails.append(("not_sampled", "instance %d at %d sees inputs %s, held values are %s"
                              % (n, t0, got_runs[0][3], runs[0][3])))
        if got_runs != runs and not any(f[0] in ("not_fresh", "not_sampled") for f in fails):
            fails.append(("branch_runs", "instance %d (branch slot %d) ran %s; alone it runs %s" % (n, br[0], got_runs[:6], runs[:6])))
    if d["depth"] > 0:
        # the same case with the body inlined was run first by the driver (lines 40): per cycle the two outputs agree
        inl = [l[1:] for l in out if l[0] == 40]
        nst = [l[1:] for l in out if l[0] == 20]
        if inl != nst:
            i = next((j for j in range(min(len(inl), len(nst))) if inl[j] != nst[j]), min(len(inl), len(nst)))
            fails.append(("nested_in_branch_differs", "switch output with the body nested %d deep: %s; with the body inlined: %s "
                          "(t valid modified value; first difference at tick %d)"
                          % (d["depth"], nst[max(0, i - 1): i + 2], inl[max(0, i - 1): i + 2], i)))
    if d["shape"] == 1:
        got_lines = [l for l in out if l[0] == 21]
        if got_lines != exp_set_lines:
            i = next((j for j in range(min(len(got_lines), len(exp_set_lines))) if got_lines[j] != exp_set_lines[j]),
                     min(len(got_lines), len(exp_set_lines)))
            g = got_lines[i] if i < len(got_lines) else None
            e = exp_set_lines[i] if i < len(exp_set_lines) else None
            kind = "output_mismatch"
            if g and e and g[1] == e[1] and any(p[0] == g[1] for p in good_points[1:]):
                kind = "old_members_survive" if set(g[7:7 + g[4]]) > set(e[7:7 + e[4]]) else "output_mismatch"
            fails.append((kind, "TSS output at tick %d is %s (21 t valid mod nv na nr members added removed); the selected "
                                "branch instances alone give %s" % (i, g, e)))
        fin = [l for l in out if l[0] == 31]
        if fin and sorted(container) != fin[0][4:]:
            fails.append(("output_mismatch", "final members %s, selected instance alone published %s" % (fin[0][4:], sorted(container))))
        rec, exp_rec = [], []
    if rec != exp_rec:
        i = next((j for j in range(min(len(rec), len(exp_rec))) if rec[j] != exp_rec[j]), min(len(rec), len(exp_rec)))
        fails.append(("output_mismatch", "output ticks %s; the selected branches alone give %s (first difference at index %d)"
                      % (rec[max(0, i - 2): i + 3], exp_rec[max(0, i - 2): i + 3], i)))
    for l in out:
        if l[0] == 20 and (l[2], l[3]) != (1, 1):
            fails.append(("output_mismatch", "recorder ran without a valid modified output: %s" % l))
    # --- observation, not part of C12's tick-stream statement: the held VALUE of the output between a
    # switch and the new branch's first tick is the old branch's last value
    for n, (t0, k, br) in enumerate(good_points[1:] if d["shape"] == 0 else [], 1):
        before = [r for r in rec if r[0] < t0]
        at = [r for r in rec if r[0] == t0]
        if before and not at:
            fails.append(("stale_held_value", "after the switch at %d the output still holds %d emitted by the previous branch"
                          % (t0, before[-1][1])))
            break
    return fails


def _oracle_setin(d, out):
    """Held TSS input: a newly selected instance must be shown ALL current members as added in its first
    evaluation (also when the set ticks in the selection cycle); afterwards it sees each cycle's delta; its
    output is seen*100 + size with seen counted from its own instantiation."""
    fails = []
    points, err_at = expected(d)
    errs = [l[1] for l in out if l[0] == 29]
    if err_at is not None and errs != [2]:
        fails.append(("missing_error", "unmatched key at %d without default, errors=%s" % (err_at, errs)))
    if err_at is None and errs:
        fails.append(("spurious_error", "error %s although every key is matched" % errs))
    good = [p for p in points if p[2] is not None]
    starts = [l for l in out if l[0] == 22]
    if [l[1] for l in starts] != [p[0] for p in good] or [l[2] for l in starts] != list(range(len(starts))):
        fails.append(("instance_per_selection", "branch graphs started at %s (ids %s), key history selects at %s"
                      % ([l[1] for l in starts], [l[2] for l in starts], [p[0] for p in good])))
    start, end = d["start"], d["end"]
    times = sorted(t for t in d["setops"] if start <= t < end)

    def members(t):
        m = set()
        for tt in times:
            if tt > t:
                break
            for op, v in d["setops"][tt]:
                (m.add if op else m.discard)(v)
        return m
    exp_rec = []
    for n, (t0, k, br) in enumerate(good):
        t1 = points[n + 1][0] if n + 1 < len(points) else end
        evs = ([t0] if any(t <= t0 for t in times) else []) + [t for t in times if t0 < t < t1]
        seen, prev, exp_runs = 0, None, []
        for t in evs:
            cur = members(t)
            add = sorted(cur) if prev is None else sorted(cur - prev)
            exp_runs.append((t, seen, add))
            seen += len(add)
            exp_rec.append((t, seen * 100 + len(cur)))
            prev = cur
        got = [(l[1], l[3], l[7:7 + l[4]]) for l in out if l[0] == 56 and l[2] == n]
        if exp_runs and exp_runs[0][0] == t0:
            if not got or got[0][0] != t0:
                fails.append(("not_sampled", "instance %d selected at %d while the set is valid did not run at %d" % (n, t0, t0)))
            elif got[0][2] != exp_runs[0][2]:
                fails.append(("held_set_not_replayed", "instance %d selected at %d is shown added=%s; the held set is %s "
                              "(all current members must be presented as added to a new instance)"
                              % (n, t0, got[0][2], exp_runs[0][2])))
        if got != exp_runs and not fails:
            fails.append(("branch_runs", "instance %d ran (t, seen, added) %s; alone it runs %s" % (n, got[:6], exp_runs[:6])))
    rec = [(l[1], l[4]) for l in out if l[0] == 20]
    if rec != exp_rec:
        i = next((j for j in range(min(len(rec), len(exp_rec))) if rec[j] != exp_rec[j]), min(len(rec), len(exp_rec)))
        fails.append(("output_mismatch", "output ticks %s; the selected delta consumers alone give %s (first difference at %d)"
                      % (rec[max(0, i - 2): i + 3], exp_rec[max(0, i - 2): i + 3], i)))
    return fails


PROP_KINDS = {
    "C12": {"missing_error", "spurious_error", "instance_per_selection", "slot_protocol", "two_running", "stopped_twice",
            "eval_after_stop", "eval_not_active", "not_fresh", "not_sampled", "branch_runs", "output_mismatch",
            "old_members_survive", "nested_in_branch_differs", "held_set_not_replayed",
            "malformed_not_rejected"},
    "C09": {"nested_in_branch_differs"},
}


# ---------------------------------------------------------------- comparison
def _norm_nested(out):
    """Nested-wrapper cases (depth > 0) are compared modulo the final state of the switch output after the run
    has stopped: with a nested wrapper the branch terminal is a forwarding endpoint, the switch runs with
    output_forwards_to_child_terminal and its output reads invalid once the branch is stopped (notes section 6 (e))."""
    if not isinstance(out, list):
        return out
    return [l for l in out if not (l and l[0] == 30)]


def agree(case, impl_out, model_out):
    if not isinstance(impl_out, list) or not isinstance(model_out, list):
        return False
    d = parse_case(case)
    if d["ok"] and d["setin"]:
        return True          # set-input mode is oracle-only: the Coq model has no collection-shaped inputs
    if d["ok"] and d["depth"] > 0:
        return _norm_nested(impl_out) == _norm_nested(model_out)
    return impl_out == model_out


# ---------------------------------------------------------------- evidence helpers
def nontrivial(case, out):
    if not isinstance(out, list):
        return False
    return sum(1 for l in out if l[0] == 22) >= 2 and any(l[0] in (20, 21) for l in out)


def stats(case, out):
    d = parse_case(case)
    if not isinstance(out, list):
        return {"crashed": 1}
    if not d["ok"]:
        return {"malformed": 1}
    points, err_at = expected(d)
    starts = [l for l in out if l[0] == 22]
    stops = {l[2]: l[1] for l in out if l[0] == 23}
    seen, resel = set(), 0
    for (t, k, br) in points:
        if k in seen:
            resel += 1
        seen.add(k)
    pend = 0
    for l in out:
        if l[0] == 28 and l[2] in stops and l[3] > stops[l[2]] and l[3] < d["end"]:
            pend += 1
    flip_with_tick = sum(1 for (t, k, br) in points[1:] if any(t in d["hist"][s] for s in range(1, d["nts"] + 1)))
    rapid = sum(1 for a, b in zip(points, points[1:]) if b[0] - a[0] == 1)
    dfl = sum(1 for (t, k, br) in points if br is not None and br == d["dflt"] and all(e[0] != k for e in d["ents"]))
    return {"cases_valid": 1, "switches": max(0, len(starts) - 1), "third_or_later_switch": max(0, len(starts) - 2),
            "reselect_earlier_key": resel, "timers_pending_at_stop": pend, "flip_with_input_tick": flip_with_tick,
            "rapid_flips": rapid, "unmatched_error": int(err_at is not None), "default_selected": dfl,
            "reload_cases": d["reload"], "key_consuming": sum(1 for e in d["ents"] if e[2]),
            "nts0": int(d["nts"] == 0), "nts1": int(d["nts"] == 1), "nts2": int(d["nts"] == 2),
            "set_input_cases": d["setin"],
            "flip_in_same_cycle_as_set_tick": sum(1 for (t, k, br) in points[1:] if t in d["setops"]) * d["setin"],
            "set_shape": int(d["shape"] == 1), "nested_depth1": int(d["depth"] == 1), "nested_depth2": int(d["depth"] == 2),
            "nested_activations_with_held_input": (sum(1 for l in out if l[0] == 26 and any(l[1] == p[0] for p in points))
                                                   if d["depth"] > 0 else 0),
            "same_branch_rebuilt": sum(1 for a, b in zip(points, points[1:]) if b[2] is not None and a[2] == b[2]),
            "same_branch_rebuilt_set_shape": sum(1 for a, b in zip(points, points[1:]) if b[2] is not None and a[2] == b[2]) * int(d["shape"] == 1),
            "members_dropped_at_switch": sum(l[6] for l in out if l[0] == 21 and any(l[1] == p[0] for p in points[1:])),
            "distinct_unmatched_to_default": sum(1 for a, b in zip(points, points[1:]) if b[2] is not None and a[2] == b[2] == d["dflt"]
                                                 and a[1] != b[1] and all(e[0] not in (a[1], b[1]) for e in d["ents"])),
            "output_ticks": sum(1 for l in out if l[0] in (20, 21)), "body_runs": sum(1 for l in out if l[0] == 26),
            "cycles": sum(1 for l in out if l[0] == 10)}


def shrink(case):
    idx6 = [i for i, l in enumerate(case) if l[0] == 6]
    for i in idx6:
        yield case[:i] + case[i + 1:]
    idx3 = [i for i, l in enumerate(case) if l[0] in (3, 4)]
    if len(idx3) > 1:
        for i in idx3:
            yield case[:i] + case[i + 1:]
    for i, l in enumerate(case):
        if l[0] == 1 and len(l) >= 3 and l[2] - l[1] > 2:
            yield case[:i] + [[1, l[1], l[2] - 1]] + case[i + 1:]
        if l[0] == 5 and len(l) >= 14:
            for j in range(2, 14):
                if l[j] not in (0, 1):
                    yield case[:i] + [l[:j] + [1] + l[j + 1:]] + case[i + 1:]
        if l[0] == 6 and len(l) >= 4 and l[1] != 0 and l[3] not in (0, 1):
            yield case[:i] + [l[:3] + [1]] + case[i + 1:]
