"""Family `pushq` (property C16): the real push source of /repo's tree.

Case header   mode policy cap nprod ...        policy 0 queue, 1 burst, 2 conflating; cap 0 = unbounded
 mode 1 (sequential, differential against coq/PushQ.v run under the same schedule)
   op lines   1 p v h   try_send of value v from producer p (0 = the evaluation thread, 1..nprod worker
                        threads) through handle h (0 the sender of the latest start, 1 a stale/default one)
              2 p v h   send_blocking
              3 d       one engine cycle, d microseconds after the previous one (GraphView::evaluate)
              4         graph stop          5  graph start         6  executor request_stop
   observation lines (implementation and model print the same)
              1|2 idx r pending flag     r: 1 accepted 0 refused 2 logic_error 3 blocked 4 exception 8 skipped
              7 idx r                    the blocked send of op idx completed with r (3 = stuck)
              5 t v...                   delivery seen by the sink at cycle time t
              3 idx err source_evaluated pending flag
              4 idx err valid flag | 6 idx err pending flag valid | 9 idx valid flag | 99 idx
              13 idx / 14 idx / 15 idx   cycle / stop while not started, start while started (ignored by the harness)
 mode 2 (free running, acceptor):  2 policy cap nprod nmsg blocking_pct pace stop_mode seed clock
   clock 0: the real wall clock; g > 0: a virtual wall clock = the real one rounded down to g microseconds;
   -1: a frozen virtual wall clock (installed through include/hgraph/util/verif_hook.h)
   history    23 stop_b stop_r stop_e cycles stalled run_error stop_mode
              20 p k v blocking result b a          a send call bracketed by tickets b < a
              21 t cycle_ticket sink_ticket v...    a delivery
              22 ticket n                           a pending_items sample
   The model side is the extracted acceptor pushq_history_ok; it answers [1] or [0 code].
"""
import itertools

NAME = "pushq"
DRIVER_SRCS = ["pushq_driver.cpp"]
MODEL_FAMILY = "pushq"
PIPE = True
BUDGET = {"quick": 420, "thorough": 4000}

KINDS = {"crash", "not_prefix", "duplicate", "time_not_increasing", "delivery_time_not_increasing", "multi_delivery", "over_capacity",
         "unjustified_refusal", "blocking_failed_running", "accepted_after_stop", "lost_wakeup", "no_delivery", "confl_state_lost",
         "stuck_sender", "exception", "confl_not_latest", "fifo", "stall", "undelivered", "malformed_history"}
PROP_KINDS = {"C16": KINDS}


# --------------------------------------------------------------------------- generation
def _gen_seq(rng, tier):
    policy = rng.choice([0, 0, 0, 1, 1, 2])
    cap = rng.choice([0, 1, 1, 2, 2, 3])
    nprod = rng.randint(1, 3)
    n = rng.randint(4, 28 if tier == "quick" else 60)
    # further idle push sources in the same root graph (they share the engine's one pending flag)
    extra = rng.choice([0, 0, 1, 1, 2])
    case = [[1, policy, cap, nprod, 0, extra]]
    v = [0]

    def val():
        v[0] += 1
        return v[0]
    malformed = rng.random() < 0.12
    started = False
    if not malformed or rng.random() < 0.5:
        case.append([5])
        started = True
    style = rng.random()
    while len(case) - 1 < n:
        r = rng.random()
        if style < 0.3 and started:
            # fill then drain: the capacity edge, the re-arm chain
            k = rng.randint(1, (cap or 3) + 2)
            for _ in range(k):
                case.append([2 if rng.random() < 0.25 else 1, rng.randint(0 if rng.random() < 0.2 else 1, nprod), val(), 0])
            for _ in range(rng.randint(0, k + 1)):
                case.append([3, rng.choice([1, 1, 2, 5])])
            if rng.random() < 0.15:
                case.append([rng.choice([4, 6])])
                started = started and case[-1][0] != 4
            continue
        if r < 0.36:
            case.append([1, rng.randint(0 if rng.random() < 0.2 else 1, nprod), val(), 1 if rng.random() < 0.06 else 0])
        elif r < 0.52:
            case.append([2, rng.randint(0 if rng.random() < 0.25 else 1, nprod), val(), 1 if rng.random() < 0.06 else 0])
        elif r < 0.86:
            case.append([3, rng.choice([1, 1, 1, 2, 7])])
        elif r < 0.91:
            if started or malformed:
                case.append([4])
                started = False
        elif r < 0.97:
            if not started or malformed:
                case.append([5])
                started = True
        elif r < 0.99:
            case.append([6])
        elif malformed:
            case.append([rng.choice([0, 7, 8])])
    return case


# directed free-running configurations: (policy, cap, nprod, blocking_pct, pace)
#  * bounded burst, every producer blocking: take_all wakes ALL waiters at once; each must re-check the
#    capacity before it pushes (tuple sizes and pending_items samples show an overshoot)
#  * bounded queue, blocking and non-blocking producers mixed, flat out: a try_send can take the slot freed
#    by a pop between the notify_one and the woken waiter's resumption
#  * unbounded / roomy sources under contention: every try_send must be accepted
DIRECTED = [
    (1, 1, 4, 100, 0, 0), (1, 2, 6, 100, 0, 0), (1, 1, 3, 100, 1, 0), (1, 3, 8, 100, 0, 0), (1, 2, 4, 60, 0, 0),
    (0, 1, 4, 50, 0, 0), (0, 1, 6, 60, 0, 0), (0, 2, 4, 30, 0, 0), (0, 1, 3, 100, 0, 0), (0, 2, 8, 60, 1, 0),
    (0, 0, 8, 0, 0, 0), (0, 0, 4, 0, 0, 0), (1, 0, 6, 0, 0, 0), (2, 0, 6, 0, 0, 0), (0, 0, 6, 30, 0, 0), (0, 0, 8, 0, 1, 0),
    # a wall clock that does not move (coarse granule in microseconds, or frozen = -1) under a backlog: the
    # loop runs consecutive no-wait cycles at one wall reading; engine times must still strictly increase
    (0, 0, 4, 0, 0, 1000), (0, 0, 2, 0, 0, -1), (0, 2, 4, 100, 0, 50000), (1, 0, 4, 0, 0, 1000), (0, 3, 3, 60, 0, -1),
    (0, 0, 1, 0, 0, 20000), (2, 0, 4, 0, 0, 1000), (0, 1, 4, 100, 0, 1000), (0, 0, 6, 0, 0, 1000000),
]


def _gen_stress(rng, tier):
    total = rng.choice([40, 120, 300, 600]) if tier == "quick" else rng.choice([100, 400, 1000, 2000])
    if rng.random() < 0.55:
        policy, cap, nprod, block, pace, clock = rng.choice(DIRECTED)
        total = max(total, 300)
    else:
        policy = rng.choice([0, 0, 0, 1, 2])
        cap = rng.choice([0, 1, 1, 2, 3, 8])
        nprod = rng.choice([1, 2, 2, 3, 4, 4, 6, 8])
        block = rng.choice([0, 0, 30, 60, 100])
        pace = rng.choice([0, 0, 1, 2, 3])
        clock = rng.choice([0, 0, 0, 1000, 50000, -1])
    nmsg = max(1, total // nprod)
    stop_mode = 1 if rng.random() < 0.2 else 0
    extra = rng.choice([0, 0, 1, 2])
    return [[2, policy, cap, nprod, nmsg, block, pace, stop_mode, rng.randint(1, 1 << 30), clock, extra]]


def _gen_dict(rng, tier):
    """Collection vocabulary (header field 4 = 1): TSD<str, TS<int>> output, queue or conflating.
    No restart; under the conflating policy every window opens with a "set" (so that the window's
    pending state is not left to the first delta being a no-op), followed by sets, removals of present and
    absent keys and empty deltas back to back before the cycle that takes the window."""
    policy = rng.choice([2, 2, 2, 0, 0])
    cap = rng.choice([0, 0, 2, 3]) if policy == 0 else 0
    case = [[1, policy, cap, 1, 1], [5]]
    present = set()

    def delta(first):
        r = rng.random()
        if first or r < 0.4:
            k = rng.randint(0, 3)
            present.add(k)
            return k * 100 + rng.randint(0, 9)
        if r < 0.6:
            return -1
        k = rng.randint(0, 3)
        present.discard(k)
        return -10 - k
    for _ in range(rng.randint(2, 7 if tier == "quick" else 14)):
        n = rng.randint(1, 4)
        for i in range(n):
            case.append([1, rng.choice([0, 1]), delta(i == 0), 0])
        for _ in range(rng.randint(1, 2) if policy == 2 else rng.randint(1, n + 1)):
            case.append([3, 1])
    for _ in range(5):
        case.append([3, 1])
    return case


def gen(rng, tier, prop):
    if rng.random() < 0.12:
        return _gen_dict(rng, tier)
    if rng.random() < (0.14 if tier == "quick" else 0.08):
        return _gen_stress(rng, tier)
    return _gen_seq(rng, tier)


def enumerate_cases(prop):
    """Thorough tier: every sequence of 5 operations (after a start) over
    {try_send, send_blocking (worker), send_blocking (evaluation thread), cycle, stop, start, request_stop},
    queue policy with capacity 1 and 2, burst with capacity 1."""
    ops = [lambda v: [1, 1, v, 0], lambda v: [2, 2, v, 0], lambda v: [2, 0, v, 0], lambda v: [3, 1], lambda v: [4],
           lambda v: [5], lambda v: [6]]
    for policy, cap, depth in ((0, 1, 5), (0, 2, 5), (1, 1, 4), (2, 0, 4)):
        for seq in itertools.product(range(len(ops)), repeat=depth):
            if seq.count(6) > 1 or seq.count(5) > 1:
                continue
            case = [[1, policy, cap, 2], [5]]
            for i, o in enumerate(seq):
                case.append(ops[o](i + 1))
            yield case


# --------------------------------------------------------------------------- the property on the implementation's log
def _oracle_seq(case, out):
    fails = []

    def bad(kind, detail):
        fails.append((kind, detail))
    policy, cap = case[0][1], case[0][2]
    if policy == 2:
        cap = 0
    ops = case[1:]
    started = False
    stopreq = False
    accepted = []          # values accepted in the current start..stop epoch, acceptance order
    delivered = []         # values delivered in this epoch (flattened)
    since = []             # conflating: accepted since the previous delivery
    last_t = None
    prev_pending = 0
    blocked = {}           # op idx -> value of a blocked send

    def accept(v):
        accepted.append(v)
        since.append(v)
    i = 0
    seen_ops = 0
    while i < len(out):
        l = out[i]
        i += 1
        c = l[0]
        if c in (1, 2, 3, 4, 6, 9, 13, 14, 15, 99):
            seen_ops += 1
        if c in (1, 2):
            idx, r, pend, flag = l[1], l[2], l[3], l[4]
            op = ops[idx] if idx < len(ops) else None
            if op is None or op[0] != c:
                bad("malformed_history", "line %s does not answer op %s" % (l, op))
                continue
            p, v, h = (op + [0, 0, 0])[1:4]
            on_eval = p <= 0 or p > case[0][3]
            live = started and h == 0
            if r == 4:
                bad("exception", "send threw: %s" % l)
            if r == 2 and not (c == 2 and on_eval):
                bad("exception", "logic_error outside a blocking send on the evaluation thread: %s" % l)
            if r == 1:
                if not live or stopreq:
                    bad("accepted_after_stop", "op %d accepted: started=%s handle=%d stop_requested=%s" % (idx, started, h, stopreq))
                accept(v)
            if r == 0 and live and not stopreq:
                room = cap == 0 or prev_pending < cap
                if c == 1 and room:
                    bad("unjustified_refusal", "op %d refused with %d pending, capacity %d, source running" % (idx, prev_pending, cap))
                if c == 2:
                    bad("blocking_failed_running", "op %d: blocking send failed while the source was running" % idx)
            if r == 2 and live and not stopreq and (cap == 0 or prev_pending < cap):
                bad("unjustified_refusal", "op %d: wait refused although the queue had room" % idx)
            if r == 3:
                blocked[idx] = v
                if not live or stopreq or cap == 0 or prev_pending < cap:
                    bad("unjustified_refusal", "op %d blocked although it had no reason to wait" % idx)
        elif c == 7:
            idx, r = l[1], l[2]
            v = blocked.pop(idx, None)
            if seen_ops >= len(ops) or (i < len(out) and out[i][0] == 4):
                started = False    # released by a stop: the explicit one whose line follows, or the harness's final one
            if r == 3:
                bad("stuck_sender", "blocked send of op %d never completed" % idx)
            elif r == 1:
                if not started:
                    bad("accepted_after_stop", "blocked send of op %d accepted after stop" % idx)
                accept(v)
            elif r == 0 and started:
                bad("blocking_failed_running", "blocked send of op %d failed while the source was running" % idx)
            continue
        elif c == 5:
            t, vs = l[1], l[2:]
            if last_t is not None and t <= last_t:
                bad("time_not_increasing", "delivery at %d after %d" % (t, last_t))
            last_t = t
            if policy != 1 and len(vs) != 1:
                bad("multi_delivery", "delivery %s" % l)
            if policy == 1 and cap and len(vs) > cap:
                bad("over_capacity", "burst of %d values from a source of capacity %d" % (len(vs), cap))
            if policy == 2:
                if not since or vs != [since[-1]]:
                    bad("confl_not_latest", "delivered %s, accepted since the last delivery %s" % (vs, since))
                for x in since:
                    delivered.append(x)
                since.clear()
            else:
                for x in vs:
                    if x in delivered:
                        bad("duplicate", "value %d delivered twice" % x)
                    delivered.append(x)
                if delivered != accepted[:len(delivered)]:
                    bad("not_prefix", "delivered %s is not a prefix of accepted %s" % (delivered, accepted))
                del since[:]
            continue
        elif c == 3:
            idx, err, evald, pend, flag = l[1:6]
            if err:
                bad("exception", "evaluate threw")
            # deliveries of this cycle were printed just before this line
            j = i - 2
            nd = 0
            while j >= 0 and out[j][0] == 5:
                nd += 1
                j -= 1
            if nd > 1:
                bad("multi_delivery", "%d deliveries in one cycle" % nd)
            if evald and prev_pending > 0 and nd == 0:
                bad("no_delivery", "cycle %d evaluated the source with %d pending and delivered nothing" % (idx, prev_pending))
        elif c == 4:
            started = False
            accepted, delivered, since = [], [], []
            pend, flag = 0, l[4]
        elif c == 6:
            if l[2] == 0:
                started = True
                accepted, delivered, since = [], [], []
            pend, flag = l[3], l[4]
        elif c == 9:
            stopreq = True
            pend, flag = prev_pending, l[3]
        else:
            continue
        if c in (1, 2, 3, 6):
            pend = l[3] if c in (1, 2, 6) else l[4]
            flag = l[4] if c in (1, 2, 6) else l[5]
            if cap and pend > cap:
                bad("over_capacity", "%d pending with capacity %d after op %d" % (pend, cap, l[1]))
            if policy != 2 and started and len(accepted) - len(delivered) != pend and not blocked:
                bad("over_capacity" if pend > len(accepted) - len(delivered) else "not_prefix",
                    "pending_items %d but %d accepted and %d delivered" % (pend, len(accepted), len(delivered)))
            if started and not stopreq and pend > 0 and flag == 0 and not blocked:
                bad("lost_wakeup", "after op %d: %d pending, source running, push_update_pending not set" % (l[1], pend))
            prev_pending = pend
    return fails


def _dapply(m, v):
    m = dict(m)
    if v >= 0:
        m[v // 100] = v % 100
    elif v <= -10:
        m.pop(-v - 10, None)
    return m


def _oracle_dict(case, out):
    """Collection vocabulary: the state seen downstream is the fold of the accepted deltas (queue: of all of
    them, once everything was delivered; conflating: of the window's, over an empty accumulator), and an
    accepted effective delta is never lost."""
    fails = []

    def bad(kind, detail):
        fails.append((kind, detail))
    policy = 2 if case[0][1] == 2 else 0
    cap = case[0][2] if policy == 0 else 0
    ops = case[1:]
    window = []        # conflating: accepted deltas since the last delivery
    accepted = []      # queue: all accepted deltas
    last_state = None
    last_t = None
    shown = {}         # queue: state after the deliveries seen so far
    started = False
    for i, l in enumerate(out):
        c = l[0]
        if c == 6:
            started = l[2] == 0
        elif c in (1, 2):
            op = ops[l[1]] if l[1] < len(ops) else None
            if op is None:
                bad("malformed_history", "line %s" % l)
                continue
            r, pend, flag = l[2], l[3], l[4]
            if r not in (0, 1):
                bad("exception", "send result %s" % l)
            if r == 0 and started and (cap == 0 or pend < cap):
                bad("unjustified_refusal", "delta %d refused by a running source with %d pending" % (op[2], pend))
            if r == 1:
                window.append(op[2])
                accepted.append(op[2])
            if policy == 2:
                effective = any(v >= 0 for v in window)
                if effective and pend != 1:
                    bad("confl_state_lost", "after accepted deltas %s the conflating source reports pending_items %d" % (window, pend))
                if effective and flag == 0:
                    bad("lost_wakeup", "accepted deltas %s pending, push_update_pending not set" % window)
            elif cap and pend > cap:
                bad("over_capacity", "%d pending, capacity %d" % (pend, cap))
        elif c == 5:
            t, st = l[1], dict(zip(l[2::2], l[3::2]))
            if last_t is not None and t <= last_t:
                bad("time_not_increasing", "delivery at %d after %d" % (t, last_t))
            last_t = t
            if policy == 2:
                want = {}
                for v in window:
                    want = _dapply(want, v)
                if st != want:
                    bad("confl_state_lost", "delivered state %s, the window's accepted deltas %s fold to %s" % (st, window, want))
                window = []
            last_state = st
        elif c == 3:
            evald, pend, flag = l[3], l[4], l[5]
            had5 = i > 0 and out[i - 1][0] == 5
            if policy == 2 and evald and not had5 and any(v >= 0 for v in window):
                bad("confl_state_lost", "the cycle evaluated the source and delivered nothing although the deltas %s were accepted" % window)
            if policy == 2 and not evald and any(v >= 0 for v in window) and flag == 0:
                bad("lost_wakeup", "accepted deltas %s wait, no wake-up pending" % window)
            if policy == 0 and pend == 0 and accepted:
                want = {}
                for v in accepted:
                    want = _dapply(want, v)
                if last_state is None or last_state != want:
                    # the last visible delivery must show the fold of everything accepted (later deltas that
                    # change nothing show nothing)
                    bad("not_prefix", "queue drained: downstream state %s, accepted deltas fold to %s" % (last_state, want))
    return fails


def _parse_hist(out):
    h = {"sends": [], "delivs": [], "samples": [], "meta": None}
    for l in out:
        if l[0] == 23 and len(l) >= 8:
            h["meta"] = dict(stop_b=l[1], stop_r=l[2], stop_e=l[3], cycles=l[4], stalled=l[5], err=l[6], mode=l[7])
        elif l[0] == 20 and len(l) >= 8:
            h["sends"].append(dict(p=l[1], k=l[2], v=l[3], blk=l[4], res=l[5], b=l[6], a=l[7]))
        elif l[0] == 21 and len(l) >= 4:
            h["delivs"].append(dict(t=l[1], cs=l[2], s=l[3], vals=l[4:]))
        elif l[0] == 22:
            h["samples"].append((l[1], l[2]))
    return h


def _oracle_stress(case, out):
    fails = []

    def bad(kind, detail):
        fails.append((kind, detail))
    policy, cap = case[0][1], case[0][2]
    if policy == 2:
        cap = 0
    h = _parse_hist(out)
    m = h["meta"]
    if m is None:
        return [("malformed_history", "no summary line")]
    if m["err"]:
        bad("exception", "run() threw")
    sends, delivs = h["sends"], h["delivs"]
    byv = {}
    for x in sends:
        if x["v"] in byv or not x["b"] < x["a"] or x["res"] not in (0, 1):
            bad("exception" if x["res"] not in (0, 1) else "malformed_history", "send record %s" % x)
        byv[x["v"]] = x
    acc = [x for x in sends if x["res"] == 1]
    flat = [v for d in delivs for v in d["vals"]]
    pos = {}
    for i, v in enumerate(flat):
        if v in pos:
            bad("duplicate", "value %d delivered twice" % v)
        pos[v] = i
        if v not in byv or byv[v]["res"] != 1:
            bad("not_prefix", "delivered value %d was never accepted" % v)
    # order / prefix in real-time order
    accs = sorted(acc, key=lambda x: x["a"])
    dl = sorted((y for y in acc if y["v"] in pos), key=lambda y: y["b"])
    # for each delivered y: every accepted x with a(x) < b(y) must sit before y (or be conflated away)
    import bisect
    a_list = [x["a"] for x in accs]
    worst = {}
    run_max, run_undelivered = -1, None
    k = 0
    for y in dl:
        n = bisect.bisect_left(a_list, y["b"])
        while k < n:
            x = accs[k]
            k += 1
            if x["v"] in pos:
                run_max = max(run_max, pos[x["v"]])
            elif run_undelivered is None:
                run_undelivered = x
        if run_max >= pos[y["v"]]:
            bad("fifo", "value %d delivered at position %d although a value whose send returned before its send began sits at %d"
                % (y["v"], pos[y["v"]], run_max))
            break
        if run_undelivered is not None and policy != 2:
            bad("not_prefix", "value %d delivered but %d, accepted entirely before it, never was" % (y["v"], run_undelivered["v"]))
            break
    # cycles
    # each delivery in its own engine cycle: engine times of successive delivery cycles strictly increase
    nrep = sum(1 for d0, d1 in zip(delivs, delivs[1:]) if not d0["t"] < d1["t"])
    for d0, d1 in zip(delivs, delivs[1:]):
        if not d0["t"] < d1["t"]:
            bad("delivery_time_not_increasing", "delivery %s at engine time %d, the next one %s at %d (%d such pairs of %d)"
                % (d0["vals"][:3], d0["t"], d1["vals"][:3], d1["t"], nrep, len(delivs)))
            break
    for d0, d1 in zip(delivs, delivs[1:]):
        if not d0["cs"] < d1["cs"]:
            bad("malformed_history", "cycle tickets not increasing: %s then %s" % (d0, d1))
            break
    for d in delivs:
        if (policy != 1 and len(d["vals"]) != 1) or not d["vals"] or not d["cs"] < d["s"]:
            bad("multi_delivery", "delivery %s" % d)
            break
    # capacity
    if policy == 1 and cap:
        for d in delivs:
            if len(d["vals"]) > cap:
                bad("over_capacity", "burst of %d values from a source of capacity %d" % (len(d["vals"]), cap))
                break
    lim = 1 if policy == 2 else cap
    for tk, n in h["samples"]:
        if (policy == 2 or cap) and n > lim:
            bad("over_capacity", "pending_items sample %d with capacity %d" % (n, lim))
            break
    if cap and policy != 2:
        ev = sorted([(x["a"], 1) for x in acc] + [(d["cs"], -len(d["vals"])) for d in delivs])
        cur = 0
        for tk, dv in ev:
            cur += dv
            if dv > 0 and cur > cap:
                bad("over_capacity", "at ticket %d at least %d values accepted and not delivered, capacity %d" % (tk, cur, cap))
                break
    # refusals
    bs = sorted(x["b"] for x in acc)
    ds = sorted((d["s"], len(d["vals"])) for d in delivs)
    dcum = [0]
    for s_, n_ in ds:
        dcum.append(dcum[-1] + n_)
    dkeys = [s_ for s_, _ in ds]
    for r in sends:
        if r["res"] != 0 or m["stop_b"] < r["a"]:
            continue
        if r["blk"]:
            bad("blocking_failed_running", "blocking send of %d failed before stop was requested" % r["v"])
            break
        most = bisect.bisect_left(bs, r["a"]) - dcum[bisect.bisect_left(dkeys, r["b"])]
        if policy == 2 or not cap or most < cap:
            bad("unjustified_refusal", "send of %d refused; at most %d queued during the call, capacity %d" % (r["v"], most, cap))
            break
    for x in sends:
        if x["b"] > m["stop_r"] and x["res"] != 0:
            bad("accepted_after_stop", "send of %d began after request_stop returned and was accepted" % x["v"])
            break
    if m["mode"] == 0:
        if m["stalled"]:
            bad("stall", "nothing delivered for a long time although %d accepted values were not delivered" % (len(acc) - len(flat)))
        elif policy != 2:
            missing = [x["v"] for x in acc if x["v"] not in pos]
            if missing:
                bad("undelivered", "accepted and never delivered: %s" % missing[:5])
        elif acc:
            if not flat:
                bad("undelivered", "conflating source delivered nothing")
            else:
                y = byv.get(flat[-1])
                if y and any(x["b"] > y["a"] for x in acc):
                    bad("confl_not_latest", "final state %d is older than an accepted value" % flat[-1])
    if policy == 2:
        for d in delivs:
            y = byv.get(d["vals"][0]) if d["vals"] else None
            if y and any(x["b"] > y["a"] and x["a"] < d["cs"] for x in acc):
                bad("confl_not_latest", "delivery %s misses a later accepted value" % d)
                break
    return fails


def oracle(prop, case, impl_out):
    if isinstance(impl_out, dict):
        return [("crash", "driver died or timed out: rc=%s %s" % (impl_out.get("crash"), impl_out.get("stderr", "")[-200:]))]
    if not case or not case[0]:
        return []
    if case[0][0] == 1 and len(case[0]) > 4 and case[0][4] == 1:
        return _oracle_dict(case, impl_out)
    if case[0][0] == 1:
        return _oracle_seq(case, impl_out)
    if case[0][0] == 2:
        return _oracle_stress(case, impl_out)
    return []


def agree(case, impl_out, model_out):
    if not isinstance(impl_out, list) or not isinstance(model_out, list):
        return False
    if case and case[0] and case[0][0] == 2:
        return model_out == [[1]]
    return impl_out == model_out


def nontrivial(case, impl_out):
    if not isinstance(impl_out, list):
        return False
    if case[0][0] == 1 and len(case[0]) > 4 and case[0][4] == 1:
        return any(l[0] == 5 for l in impl_out) and any(o[0] == 1 and o[2] < 0 for o in case[1:])
    if case[0][0] == 1:
        return any(l[0] == 5 for l in impl_out) and any(l[0] in (1, 2) and l[2] != 1 for l in impl_out)
    return any(l[0] == 21 for l in impl_out)


def stats(case, impl_out):
    st = {}

    def add(k, n=1):
        st[k] = st.get(k, 0) + n
    if not isinstance(impl_out, list):
        return {"crashes": 1}
    pol = {0: "queue", 1: "burst", 2: "conflating"}.get(case[0][1], "other")
    if case[0][0] == 1 and len(case[0]) > 4 and case[0][4] == 1:
        add("dict_cases")
        add("dict_policy_" + pol)
        add("dict_sends", sum(1 for o in case[1:] if o[0] == 1))
        add("dict_noop_candidates", sum(1 for o in case[1:] if o[0] == 1 and o[2] < 0))
        add("dict_deliveries", sum(1 for l in impl_out if l[0] == 5))
        add("dict_cycles_without_visible_delivery", sum(1 for i, l in enumerate(impl_out) if l[0] == 3 and len(l) > 3 and l[3] and (i == 0 or impl_out[i - 1][0] != 5)))
    elif case[0][0] == 1:
        add("seq_cases")
        if len(case[0]) > 5 and case[0][5] > 0:
            add("seq_cases_with_extra_push_sources")
        add("seq_policy_" + pol)
        add("seq_cap_%d" % case[0][2])
        add("seq_ops", len(case) - 1)
        prev_flag = 0
        for l in impl_out:
            if l[0] in (1, 2):
                add({1: "seq_accepted", 0: "seq_refused", 2: "seq_eval_thread_wait_rejected", 3: "seq_blocked", 8: "seq_skipped"}.get(l[2], "seq_send_other"))
            elif l[0] == 7:
                add("seq_blocked_released_%d" % l[2])
            elif l[0] == 5:
                add("seq_deliveries")
            elif l[0] == 3:
                add("seq_cycles")
                if l[3] and l[5]:
                    add("seq_rearm_or_refill_after_cycle")
                if not l[3]:
                    add("seq_cycles_source_not_evaluated")
            elif l[0] == 4:
                add("seq_stops")
            elif l[0] == 6:
                add("seq_starts")
            elif l[0] == 9:
                add("seq_request_stop")
        for l in case[1:]:
            if l[0] in (1, 2) and len(l) > 3 and l[3] == 1:
                add("seq_stale_handle_sends")
    else:
        add("stress_cases")
        if len(case[0]) > 10 and case[0][10] > 0:
            add("stress_cases_with_extra_push_sources")
        add("stress_policy_" + pol)
        add("stress_producers", case[0][3])
        h = _parse_hist(impl_out)
        add("stress_sends", len(h["sends"]))
        add("stress_accepted", sum(1 for x in h["sends"] if x["res"] == 1))
        add("stress_refused", sum(1 for x in h["sends"] if x["res"] == 0))
        add("stress_deliveries", len(h["delivs"]))
        add("stress_cycles", h["meta"]["cycles"] if h["meta"] else 0)
        add("stress_samples", len(h["samples"]))
        if case[0][7] == 1:
            add("stress_stop_midstream")
        if len(case[0]) > 9 and case[0][9] != 0:
            add("stress_virtual_clock_frozen" if case[0][9] < 0 else "stress_virtual_clock_coarse")
            ts = [d["t"] for d in h["delivs"]]
            add("stress_min_td_steps", sum(1 for a, b in zip(ts, ts[1:]) if b == a + 1))
    return st


def shrink(case):
    if case[0][0] == 1:
        for i in range(len(case) - 1, 0, -1):
            yield case[:i] + case[i + 1:]
        if case[0][3] > 1:
            yield [case[0][:3] + [case[0][3] - 1] + case[0][4:]] + case[1:]
        if len(case[0]) > 5 and case[0][5] > 0:
            yield [case[0][:5] + [0]] + case[1:]
    elif case[0][0] == 2:
        h = list(case[0])
        if h[4] > 1:
            yield [h[:4] + [h[4] // 2] + h[5:]]
        if h[3] > 1:
            yield [h[:3] + [h[3] - 1] + h[4:]]
        if h[6] != 0:
            yield [h[:6] + [0] + h[7:]]
