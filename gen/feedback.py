"""Family `feedback` (property C08): flat graphs of native scripted nodes (the vocabulary of family
`core`) plus feedback pairs built with the real make_feedback_source_node / make_feedback_sink_node,
under the real simulation executor.

Case lines
  1 start end
  2 i uses_sched sched_on_start has_out nin valid_mode (src active required)*    native node
  4 i has_init init                                                               feedback source (output TS<int>)
  5 i producer source                                                             feedback sink: inputs [producer (active, required), source (passive)]
  3 i k code a b          op for native node i in its k-th user-code run (k=-1 start hook, k=-2 default)
     code 1 schedule(now+a, tag b)  2 un_schedule(tag b)  3 un_schedule()  4 pop_tag(b)  5 reset()
          6 emit a + sum(valid inputs)  7 graph.schedule_node(self, now+a)  8 throw
          9 / 10 input[a].make_passive() / make_active()   11 out.invalidate()
  Node lines (2/4/5) appear in node order, the index is the position (the order IS the ranking).
Collection-shaped feedback through the wiring layer (ORACLE-ONLY cases: no Coq mirror of collection deltas;
`agree` accepts them, the oracle decides):
  7 kind passive structural   kind 1 TSS<Int> delay line, 2 TSD<Int,TS<Int>> delay line (scripted source -> feedback, probes
                              on both sides), 3 TSD loop grow(x, [passive](fb())) whose feedback input has activity
                              Structural (structural=1) or Active (0); built with stdlib::feedback<> (the real
                              make_feedback_*_node over those schemas, the real ranking, the Passive argument tag)
                              kind 4: feedback loop INSIDE a nested_<> child (passive field = variant 0 delay line / 1 accumulator,
                              structural field = nesting depth 1 or 2); kind 5: INSIDE a map_ body, one child per key (variant as 4)
                              kind 6: feedback of TSB{a,b,c} shape, partial-field writes, two feedbacks (without / with initial value
                              {0,0,0}); kind 7: feedback loop INSIDE a try_except_ child, a node ranked after the sink throws on negative values
                              kind 8: feedback<TS<tuple<int>>> fed with immutable compact tuples of varying length (the sink's
                              replace_state(capture_delta) fallback); passive field = 1: declared initial value (1, 2); script op 1 len base;
                              lines 37 id t n x* (id 1 written, 2 delivered)
  9 1                         (flat cases) run under the REAL-TIME executor with a virtual wall clock (verif_hook.h)
  8 t op key value            kind 4: op 1 x.set(value); kind 5: op 1 d[key] = value (value = key * 100000 + serial);  kind 1: op 1 add key, 2 remove key; kind 2: op 1 set key value, 2 erase key; kind 3: op 1 x.set(value)
  observations: 30 id t na a* nr r* nm m* (TSS tick: added, removed, members; id 1 = written side, 2 = feedback side),
                31 id t nmod (k v)* nrem k* nall (k v)* (TSD tick), 32 t (grow evaluated), 33 t v (x ticked), 10 t, 19 code,
                35 id t (modified valid value)x3 (TSB tick: id 1 written, 2 feedback, 3 feedback with initial value), 36 t (error captured),
                34 side t v (inside a child graph: side 1 = written to the feedback, 2 = delivered by it)
Observation lines
  10 t                     root cycle at t
  11 i t                   node i evaluated by the graph at t
  12 i t k now? next (valid modified value lmt)*   native user code ran (k-th run) with these input views
  13 ...                   scheduler queries after a scheduler op (as family core)
  14 i t v                 native node emitted v
  16 i t valid v lmt       output of feedback source i after it was evaluated at t (the reader-side port)
  16 i t did               native node i invalidated its output at t (op 11; did = it held a value) - 4 fields
  17 i t s slot has v      after feedback sink i was evaluated at t: graph slot and delta state of source s
  20 t next                after the cycle at t: the graph's cached next scheduled time
  15 i valid v lmt         final output
  19 code                  exception escaped run
"""
import bisect
import random

NAME = "feedback"
DRIVER_SRCS = ["feedback_driver.cpp"]
MODEL_FAMILY = "feedback"
MODE = "diff"
BUDGET = {"quick": 400, "thorough": 6000}
MAX_DT = 10413792000000000


# ---------------------------------------------------------------- generator
class _B:
    """Builds a case node by node in rank order."""

    def __init__(self, rng):
        self.rng = rng
        self.nodes = []      # lines 2/4/5 (without index fixed yet: index == position)
        self.scripts = []    # lines 3
        self.outs = []       # indices of nodes with an output
        self.fb = []         # indices of feedback sources
        self.bound = set()   # sources that already have a sink

    def native(self, us, sos, ho, ins, vmode=0):
        i = len(self.nodes)
        l = [2, i, us, sos, ho, len(ins), vmode]
        for s in ins:
            l += list(s)
        self.nodes.append(l)
        if ho:
            self.outs.append(i)
        return i

    def source(self, init):
        i = len(self.nodes)
        self.nodes.append([4, i, 0 if init is None else 1, 0 if init is None else init])
        self.outs.append(i)
        self.fb.append(i)
        return i

    def sink(self, prod, src):
        i = len(self.nodes)
        self.nodes.append([5, i, prod, src])
        self.bound.add(src)
        return i

    def op(self, i, k, code, a=0, b=0):
        self.scripts.append([3, i, k, code, a, b])

    def trigger(self, pattern):
        """A source node writing at the cycles start+pattern[0], then gaps pattern[1:], then silent."""
        rng = self.rng
        if rng.random() < 0.7:
            i = self.native(1, 0, 1, [])
            self.op(i, -1, 1, pattern[0], 0)
            for k, gap in enumerate(pattern[1:]):
                self.emit_or_invalidate(i, k)
                self.op(i, k, 1, gap, rng.choice([0, 0, 1]))
            self.op(i, -2, 6, rng.randint(-3, 9))
        else:
            # no node scheduler: schedule_on_start / raw request in the start hook, then raw self requests
            if pattern[0] == 0:
                i = self.native(0, 1, 1, [])
            else:
                i = self.native(0, 0, 1, [])
                self.op(i, -1, 7, pattern[0])
            for k, gap in enumerate(pattern[1:]):
                self.emit_or_invalidate(i, k)
                self.op(i, k, 7, gap)
            self.op(i, -2, 6, rng.randint(-3, 9))
        return i

    def emit_or_invalidate(self, i, k):
        """Mostly a write; sometimes the producer withdraws its value (op 11), alone, after or before a write."""
        rng = self.rng
        r = rng.random()
        if r < 0.84:
            self.op(i, k, 6, rng.randint(-3, 9))
        elif r < 0.92:
            self.op(i, k, 11)
        elif r < 0.96:
            self.op(i, k, 6, rng.randint(-3, 9))
            self.op(i, k, 11)
        else:
            self.op(i, k, 11)
            self.op(i, k, 6, rng.randint(-3, 9))

    def recorder(self, srcs, active=True):
        i = self.native(0, 0, 0, [(s, 1 if active else 0, 0) for s in srcs], 1)
        return i

    def case(self, start, end):
        return [[1, start, end]] + self.nodes + self.scripts


def _pattern(rng, tier):
    """Write spacing: every step, bursts, gaps."""
    n = rng.randint(1, 5 if tier == "quick" else 9)
    r = rng.random()
    first = rng.choice([0, 0, 1, 2])
    if r < 0.3:
        gaps = [1] * n                                   # consecutive smallest steps
    elif r < 0.55:
        gaps = [rng.choice([1, 1, 1, 4, 6]) for _ in range(n)]   # bursts separated by gaps
    elif r < 0.8:
        gaps = [rng.choice([2, 3, 5]) for _ in range(n)]          # gaps only
    else:
        gaps = [rng.choice([1, 2, 3]) for _ in range(n)]
    return [first] + gaps


def _compute(b, rng, ins, vmode=None, emit=True):
    if vmode is None:
        vmode = 1
    i = b.native(0, 0, 1, ins, vmode)
    if emit:
        b.op(i, -2, 6, rng.randint(-2, 5))
    return i


def _times(rng, start, n):
    t = start + rng.choice([0, 0, 1, 2])
    out = []
    for _ in range(n):
        out.append(t)
        t += rng.choice([1, 1, 1, 2, 3, 5])
    return out


def gen_wired(rng, tier):
    start = rng.randint(1, 3)
    kind = rng.choice([1, 1, 2, 3, 3, 4, 5, 5, 6, 6, 7, 7, 8, 8])
    n = rng.randint(2, 6 if tier == "quick" else 10)
    times = _times(rng, start, n)
    lines = []
    if kind == 8:
        for j, t in enumerate(times):
            lines.append([8, t, 1, rng.randint(0, 4), 10 * (j + 1)])
        return [[1, start, times[-1] + rng.randint(1, 4)], [7, 8, rng.choice([0, 1]), 0]] + lines
    if kind == 6:
        # partial-field writes: mostly one field per cycle, different subsets in consecutive writes
        val = 0
        for t in times:
            fs = rng.sample([0, 1, 2], rng.choice([1, 1, 1, 2, 3]))
            for f in sorted(fs):
                val += 1
                lines.append([8, t, 1, f, val * 10 + f])
        return [[1, start, times[-1] + rng.randint(1, 4)], [7, 6, 0, 0]] + lines
    if kind == 7:
        # negative values are rejected by a node ranked after the sink (captured by try_except_)
        for j, t in enumerate(times):
            v = 10 + j
            lines.append([8, t, 1, 0, -v if rng.random() < 0.4 else v])
        return [[1, start, times[-1] + rng.randint(1, 4)], [7, 7, 0, 0]] + lines
    if kind == 4:
        for j, t in enumerate(times):
            lines.append([8, t, 1, 0, 1 + j * 3 + rng.randint(0, 2)])
        return [[1, start, times[-1] + rng.randint(1, 4)], [7, 4, rng.choice([0, 1]), rng.choice([1, 2])]] + lines
    if kind == 5:
        # several keys; consecutive cycles in which only OTHER keys tick while a delivery is due inside a child
        serial = 0
        t = start + rng.choice([0, 0, 1])
        for _ in range(n + 2):
            ks = rng.sample([1, 2, 3], rng.choice([1, 1, 2, 3]))
            for k in sorted(ks):
                serial += 1
                lines.append([8, t, 1, k, k * 100000 + serial])
            t += rng.choice([1, 1, 1, 1, 2, 4])
        return [[1, start, t + rng.randint(0, 3)], [7, 5, rng.choice([0, 0, 1]), 0]] + lines
    if kind == 1:
        members = set()
        for t in times:
            r = rng.random()
            if members and r < 0.4:          # a cycle that only removes
                ops = [(2, k) for k in rng.sample(sorted(members), rng.randint(1, min(2, len(members))))]
            elif r < 0.7:                    # only adds
                ops = [(1, k) for k in rng.sample(range(1, 8), rng.randint(1, 2))]
            elif r < 0.9:                    # mixed
                ops = [(1, k) for k in rng.sample(range(1, 8), 1)]
                ops += [(2, k) for k in rng.sample(sorted(members), 1) if k != ops[0][1]] if members else []
            else:                            # no-ops: add a present / remove an absent element
                ops = [(1, rng.choice(sorted(members)))] if members and rng.random() < 0.5 else [(2, 9)]
            for op, k in ops:
                lines.append([8, t, op, k, 0])
                (members.add if op == 1 else members.discard)(k)
        case = [[1, start, times[-1] + rng.randint(1, 4)], [7, 1, 0, 0]] + lines
    elif kind == 2:
        keys = set()
        for t in times:
            r = rng.random()
            if keys and r < 0.4:             # erase only
                ops = [(2, k, 0) for k in rng.sample(sorted(keys), rng.randint(1, min(2, len(keys))))]
            elif r < 0.8:
                ops = [(1, k, rng.randint(-5, 50)) for k in rng.sample(range(1, 7), rng.randint(1, 2))]
            else:
                ops = [(1, rng.randint(1, 6), rng.randint(-5, 50))]
                ops += [(2, k, 0) for k in rng.sample(sorted(keys), 1) if k != ops[0][1]] if keys else []
            for op, k, v in ops:
                lines.append([8, t, op, k, v])
                (keys.add if op == 1 else keys.discard)(k)
        case = [[1, start, times[-1] + rng.randint(1, 4)], [7, 2, 0, 0]] + lines
    else:
        passive = 1 if rng.random() < 0.7 else 0
        structural = 1 if rng.random() < 0.7 else 0
        for t in times:
            lines.append([8, t, 1, 0, rng.randint(1, 40)])
        end = times[-1] + rng.randint(2, 12)
        if not passive:
            end = min(end, start + 14)
        case = [[1, start, end], [7, 3, passive, structural]] + lines
    return case


def is_wired(case):
    return any(l and l[0] == 7 for l in case)


def agree(case, impl_out, model_out):
    """Collection-shaped cases are oracle-only (no Coq mirror of TSS/TSD deltas): accept any driver output that
    is not a crash; the oracle decides.  Flat TS<int> cases: exact equality with the model."""
    if is_wired(case):
        return isinstance(impl_out, list)
    return isinstance(impl_out, list) and isinstance(model_out, list) and impl_out == model_out


def gen_long_loop(rng):
    """An active self loop  acc = emit(1 + fb(acc))  with an initial value: one write per smallest step, for more than
    1024 (2048) consecutive steps, end time far enough away; mostly under the real-time executor."""
    start = rng.randint(1, 3)
    span = rng.choice([rng.randint(1040, 1300), rng.randint(2060, 2400)])
    b = _B(rng)
    s = b.source(rng.randint(0, 9))
    acc = b.native(0, 0, 1, [(s, 1, 1)], 0)
    b.op(acc, -2, 6, 1)
    b.sink(acc, s)
    case = b.case(start, start + span + rng.randint(50, 400))
    # the loop stops by itself after `span` writes: run `span` gets an empty script
    case.append([3, acc, span, 0, 0, 0])
    if rng.random() < 0.85:
        case.insert(1, [9, 1])
    return case


def gen(rng, tier, prop):
    r0 = rng.random()
    if r0 < 0.3:
        return gen_wired(rng, tier)
    if r0 < 0.3 + (0.016 if tier == "quick" else 0.001):
        return gen_long_loop(rng)
    case = gen_flat(rng, tier, prop)
    if rng.random() < 0.3:
        case.insert(1, [9, 1])
    return case


def gen_flat(rng, tier, prop):
    b = _B(rng)
    start = rng.randint(1, 3)
    span = rng.randint(5, 16 if tier == "quick" else 30)
    end = start + span
    r = rng.random()
    init = (lambda: rng.randint(-5, 20) if rng.random() < 0.6 else None)
    if r < 0.22:
        # self loop: acc = emit(trig + fb(acc)); reader active or passive
        passive = rng.random() < 0.5
        t = b.trigger(_pattern(rng, tier))
        s = b.source(init())
        acc = _compute(b, rng, [(t, 1, 1), (s, 0 if passive else 1, 0)])
        if rng.random() < 0.5:
            b.sink(acc, s)
            b.recorder([s])
        else:
            b.recorder([s])
            b.sink(acc, s)
        if rng.random() < 0.6:
            # a late reader: runs after the producer wrote, must still see the previous step's value
            b.native(0, 0, 0, [(acc, 1, 1), (s, 0, 0)], 1)
    elif r < 0.34:
        # plain delay line(s): sink on a trigger, nothing closes the loop
        t = b.trigger(_pattern(rng, tier))
        s = b.source(init())
        if rng.random() < 0.5:
            s2 = b.source(init())
            b.recorder([s, s2])
            b.sink(t, s)
            b.sink(s, s2)         # feedback of a feedback: two steps
        else:
            b.recorder([s])
            b.native(0, 0, 0, [(t, 1, 1), (s, 0, 0)], 1)
            b.sink(t, s)
    elif r < 0.52:
        # mutual loops: x = f(trig, fbB), y = g(x / trig2, fbA)
        t = b.trigger(_pattern(rng, tier))
        sa = b.source(init())
        sb = b.source(init())
        pa = rng.random() < 0.4
        pb = rng.random() < 0.4
        x = _compute(b, rng, [(t, 1, 1), (sb, 0 if pb else 1, 0)])
        if rng.random() < 0.5:
            t2 = b.trigger(_pattern(rng, tier))
            y = _compute(b, rng, [(t2, 1, 0), (sa, 0 if pa else 1, 0)], 1)
        else:
            y = _compute(b, rng, [(x, 1 if rng.random() < 0.7 else 0, 0), (sa, 0 if pa else 1, 0)], 1)
        order = [("k", x, sa), ("k", y, sb), ("r", sa), ("r", sb)]
        rng.shuffle(order)
        for o in order:
            if o[0] == "k":
                b.sink(o[1], o[2])
            else:
                b.recorder([o[1]])
    elif r < 0.62:
        # passive accumulator with several external triggers: must quiesce
        ts = [b.trigger(_pattern(rng, tier)) for _ in range(rng.randint(1, 2))]
        s = b.source(rng.randint(0, 9))
        acc = _compute(b, rng, [(t, 1, 0) for t in ts] + [(s, 0, 0)])
        b.sink(acc, s)
        if rng.random() < 0.5:
            b.recorder([s], active=rng.random() < 0.7)
    else:
        # random assembly: several loops at once
        nfb = rng.randint(1, 3 if tier == "quick" else 4)
        ntr = rng.randint(1, 2)
        todo = ["t"] * ntr + ["s"] * nfb + ["c"] * rng.randint(1, 4) + ["r"] * rng.randint(0, 2)
        rng.shuffle(todo)
        if todo[0] in ("c", "r"):
            todo.insert(0, "t")
        pending_sinks = []
        for w in todo:
            if w == "t":
                b.trigger(_pattern(rng, tier))
            elif w == "s":
                s = b.source(init())
                pending_sinks.append(s)
            elif w == "c":
                if not b.outs:
                    b.trigger(_pattern(rng, tier))
                nin = rng.randint(1, min(3, len(b.outs)))
                ins = []
                for _ in range(nin):
                    src = rng.choice(b.outs)
                    ins.append((src, 1 if rng.random() < 0.65 else 0, 1 if rng.random() < 0.3 else 0))
                if not any(a for _, a, _ in ins):
                    ins[0] = (ins[0][0], 1, ins[0][2])
                i = _compute(b, rng, ins, 1 if rng.random() < 0.8 else 0)
                if rng.random() < 0.15:
                    # a specific run that writes twice / not at all
                    k = rng.randint(0, 3)
                    if rng.random() < 0.5:
                        b.op(i, k, 6, rng.randint(-2, 5))
                        b.op(i, k, 6, rng.randint(-2, 5))
                    else:
                        b.op(i, k, 0)
                if rng.random() < 0.04:
                    b.op(i, rng.randint(1, 4), 8)
                if rng.random() < 0.08:
                    b.op(i, rng.randint(0, 4), 11)
            elif w == "r" and b.fb:
                b.recorder([rng.choice(b.fb) for _ in range(rng.randint(1, 2))], active=rng.random() < 0.8)
            # bind pending sinks once a producer exists (after at least one more node, mostly)
            for s in list(pending_sinks):
                prods = [o for o in b.outs if o != s]
                if prods and rng.random() < 0.45:
                    later = [o for o in prods if o > s]
                    p = rng.choice(later if later and rng.random() < 0.8 else prods)
                    b.sink(p, s)
                    pending_sinks.remove(s)
        for s in pending_sinks:
            prods = [o for o in b.outs if o != s]
            if prods and rng.random() < 0.9:
                later = [o for o in prods if o > s]
                b.sink(rng.choice(later if later else prods), s)
        for s in b.fb:
            if rng.random() < 0.6:
                b.recorder([s])
    end = min(end, start + _span_limit(b.nodes))
    case = b.case(start, end)
    if rng.random() < 0.06:
        case = _malform(rng, case)
    return case


def _span_limit(nodes):
    """Values are int64 in the implementation (and 63-bit in the model runner's printer) but unbounded in
    the model: keep emitted sums far below 2^62.  A loop through nodes that each add up several inputs
    multiplies the value every cycle by at most the product of the fan-ins."""
    import math
    amp = 1
    for l in nodes:
        if l[0] == 2 and l[4] and l[5] > 1:
            amp *= l[5]
    if amp <= 1:
        return 1000
    return max(4, int(50 / math.log2(amp)))


def _malform(rng, case):
    """Mis-ranked graphs (a sink moved before its source): the mirror model must still agree;
    the oracle only speaks about pairs the ranking contract covers."""
    nodes = [l for l in case if l[0] in (2, 4, 5)]
    sinks = [l for l in nodes if l[0] == 5]
    if not sinks:
        return case
    k = rng.choice(sinks)
    src = k[3]
    prod = k[2]
    if not prod < src < k[1]:
        return case
    # move the sink to just before its source (stays after the producer)
    order = [l[1] for l in nodes]
    order.remove(k[1])
    order.insert(order.index(src), k[1])
    return _reindex(case, order)


def _reindex(case, order):
    """order: list of old indices in their new positions."""
    new = {old: pos for pos, old in enumerate(order)}
    byold = {l[1]: l for l in case if l[0] in (2, 4, 5)}
    out = [l for l in case if l[0] == 1]
    for old in order:
        l = list(byold[old])
        l[1] = new[old]
        if l[0] == 2:
            for s in range(l[5]):
                l[7 + 3 * s] = new[l[7 + 3 * s]]
        elif l[0] == 5:
            l[2] = new[l[2]]
            l[3] = new[l[3]]
        out.append(l)
    for l in case:
        if l[0] == 3 and l[1] in new:
            out.append([3, new[l[1]]] + l[2:])
    return out


def wired_regressions():
    """The two shapes of the seeded changes, as fixed cases."""
    a = [[1, 1, 31], [7, 1, 0, 0], [8, 1, 1, 1, 0], [8, 1, 1, 2, 0], [8, 2, 1, 3, 0], [8, 3, 2, 2, 0], [8, 4, 1, 4, 0], [8, 4, 2, 3, 0],
         [8, 7, 2, 1, 0], [8, 8, 2, 4, 0], [8, 10, 1, 5, 0]]
    b = [[1, 1, 41], [7, 3, 1, 1], [8, 1, 1, 0, 10], [8, 4, 1, 0, 13], [8, 5, 1, 0, 14]]
    c = [[1, 1, 31], [7, 5, 0, 0], [8, 1, 1, 1, 100000], [8, 1, 1, 2, 200000], [8, 2, 1, 2, 200001], [8, 3, 1, 1, 100002],
         [8, 3, 1, 2, 200002], [8, 4, 1, 2, 200003], [8, 7, 1, 1, 100006], [8, 8, 1, 2, 200007], [8, 8, 1, 3, 300007],
         [8, 9, 1, 3, 300008], [8, 13, 1, 1, 100012]]
    d = [[1, 1, 31], [7, 6, 0, 0], [8, 1, 1, 0, 1], [8, 2, 1, 1, 20], [8, 3, 1, 0, 3], [8, 3, 1, 1, 30], [8, 5, 1, 1, 50], [8, 6, 1, 0, 6],
         [8, 7, 1, 0, 7], [8, 8, 1, 1, 80], [8, 10, 1, 2, 100]]
    e = [[1, 1, 31], [7, 7, 0, 0], [8, 1, 1, 0, 11], [8, 2, 1, 0, 12], [8, 3, 1, 0, -13], [8, 6, 1, 0, 15], [8, 7, 1, 0, -16],
         [8, 8, 1, 0, 17], [8, 10, 1, 0, -19], [8, 13, 1, 0, 22]]
    f = [[1, 1, 20], [7, 8, 1, 0], [8, 1, 1, 1, 10], [8, 2, 1, 2, 11], [8, 4, 1, 1, 13], [8, 6, 1, 3, 15]]
    g = [[1, 1, 20], [7, 8, 0, 0], [8, 1, 1, 1, 10], [8, 2, 1, 2, 11], [8, 4, 1, 1, 13], [8, 6, 1, 3, 15]]
    return [a, b, c, d, e, f, g]


def enumerate_cases(prop):
    """Exhaustive small space: one self loop, every write pattern of length <= 3 with gaps in {1,2,3},
    reader active/passive, with/without initial value, two sink/recorder orders."""
    out = []
    for passive in (0, 1):
        for ini in (None, 7):
            for first in (0, 1):
                for n in range(0, 4):
                    pats = [[]]
                    for _ in range(n):
                        pats = [p + [g] for p in pats for g in (1, 2, 3)]
                    for p in pats:
                        b = _B(random.Random(0))
                        t = b.native(1, 0, 1, [])
                        b.op(t, -1, 1, first, 0)
                        for k, gap in enumerate(p):
                            b.op(t, k, 6, k + 1)
                            b.op(t, k, 1, gap, 0)
                        b.op(t, -2, 6, 9)
                        s = b.source(ini)
                        acc = b.native(0, 0, 1, [(t, 1, 1), (s, 0 if passive else 1, 0)], 1)
                        b.op(acc, -2, 6, 0)
                        b.sink(acc, s)
                        b.recorder([s])
                        out.append(b.case(1, 1 + first + sum(p) + 4))
    return out + wired_regressions()


# ---------------------------------------------------------------- helpers
def parse_case(case):
    start, end = 1, 10
    nodes = []
    scripts = {}
    for l in case:
        if l[0] == 1:
            start, end = l[1], l[2]
        elif l[0] == 2:
            ins = [(l[7 + 3 * s], l[8 + 3 * s], l[9 + 3 * s]) for s in range(l[5])]
            nodes.append(dict(kind=0, us=l[2], sos=l[3], ho=l[4], vmode=l[6], ins=ins))
        elif l[0] == 4:
            nodes.append(dict(kind=1, us=0, sos=0, ho=1, vmode=0, ins=[], init=(l[3] if l[2] else None)))
        elif l[0] == 5:
            nodes.append(dict(kind=2, us=0, sos=0, ho=0, vmode=1, ins=[(l[2], 1, 1), (l[3], 0, 0)], prod=l[2], src=l[3]))
        elif l[0] == 3:
            scripts.setdefault((l[1], l[2]), []).append((l[3], l[4], l[5]))
    return start, end, nodes, scripts


def pairs_of(nodes):
    """[(sink k, producer p, source s, covered)] - covered: the ranking contract holds for the pair
    (source before its readers and before the sink, sink after the producer, one sink per source)."""
    out = []
    n = len(nodes)
    for k, nd in enumerate(nodes):
        if nd["kind"] != 2:
            continue
        p, s = nd["prod"], nd["src"]
        ok = 0 <= p < n and 0 <= s < n and nodes[s]["kind"] == 1 and nodes[p]["ho"] and p < k and s < k
        ok = ok and sum(1 for m in nodes if m["kind"] == 2 and m["src"] == s) == 1
        ok = ok and all(src < i for i, m in enumerate(nodes) for (src, _a, _r) in m["ins"])
        out.append((k, p, s, ok))
    return out


def _self_scheduling(nodes, scripts, i):
    nd = nodes[i]
    if nd["kind"] != 0:
        return False
    if nd["sos"]:
        return True
    return any(code in (1, 7) for (j, _k), ops in scripts.items() if j == i for (code, _a, _b) in ops)


def _active_loop(nodes):
    """True when some loop is closed through ACTIVE reads only (it re-ticks for ever by design):
    a cycle in the graph of active input edges, producer -> sink and sink -> paired source edges."""
    n = len(nodes)
    adj = [[] for _ in range(n)]
    for i, nd in enumerate(nodes):
        if nd["kind"] == 2:
            if 0 <= nd["prod"] < n:
                adj[nd["prod"]].append(i)
            if 0 <= nd["src"] < n:
                adj[i].append(nd["src"])
        else:
            for (src, a, _r) in nd["ins"]:
                if a and 0 <= src < n:
                    adj[src].append(i)
    color = [0] * n

    def dfs(u):
        color[u] = 1
        for v in adj[u]:
            if color[v] == 1 or (color[v] == 0 and dfs(v)):
                return True
        color[u] = 2
        return False
    return any(color[u] == 0 and dfs(u) for u in range(n))


def streams(case, out):
    """Per node: the list of (t, v) of its output ticks (last value per cycle), from 14 / 16 lines."""
    w = {}
    for l in out:
        if l[0] == 14:
            w.setdefault(l[1], {})[l[2]] = l[3]
        elif l[0] == 16 and len(l) == 4:
            # a native producer invalidated its output (op 11): whatever it wrote earlier in this cycle is withdrawn
            if l[3] == 1:
                w.setdefault(l[1], {}).pop(l[2], None)
        elif l[0] == 16 and l[3] == 1 and l[5] == l[2]:
            w.setdefault(l[1], {})[l[2]] = l[4]
    return {i: sorted(d.items()) for i, d in w.items()}


def notified(out):
    """t -> nodes whose output notified its observers at t (a write or an invalidation)."""
    n = {}
    for l in out:
        if l[0] == 14 or (l[0] == 16 and len(l) == 4 and l[3] == 1) or (l[0] == 16 and len(l) == 6 and l[3] == 1 and l[5] == l[2]):
            n.setdefault(l[2], set()).add(l[1])
    return n


def _wired_parse(case, out):
    start, end = 1, 10
    kind = passive = structural = 0
    for l in case:
        if l[0] == 1:
            start, end = l[1], l[2]
        elif l[0] == 7:
            kind, passive, structural = l[1], (l[2] if len(l) > 2 else 0), (l[3] if len(l) > 3 else 1)
    W = [(l[2], tuple(l[3:])) for l in out if l[0] in (30, 31) and l[1] == 1]
    R = [(l[2], tuple(l[3:])) for l in out if l[0] in (30, 31) and l[1] == 2]
    X = [l[1] for l in out if l[0] == 33]
    G = [l[1] for l in out if l[0] == 32]
    cycles = [l[1] for l in out if l[0] == 10]
    return start, end, kind, passive, structural, W, R, X, G, cycles


def _removal_only(payload):
    # TSS: na a* nr r* ...  /  TSD: nmod (k v)* nrem k* ...
    return payload[0] == 0 and len(payload) > 1 and payload[1] > 0


def stats_wired(case, out):
    ok = isinstance(out, list)
    if not ok:
        return {"wired_cases": 1, "error": 1}
    start, end, kind, passive, structural, W, R, X, G, cycles = _wired_parse(case, out)
    return {"wired_cases": 1, "wired_tss": int(kind == 1), "wired_tsd": int(kind == 2), "wired_tsd_loop": int(kind == 3),
            "wired_passive_structural": int(kind == 3 and passive and structural), "coll_writes": len(W), "coll_deliveries": len(R),
            "wired_nested_child": int(kind == 4), "wired_map_child": int(kind == 5), "wired_tsb": int(kind == 6), "wired_tuple": int(kind == 8),
            "tuple_writes": sum(1 for l in out if l[0] == 37 and l[1] == 1),
            "wired_try_except_child": int(kind == 7), "captured_errors": sum(1 for l in out if l[0] == 36),
            "tsb_partial_writes": sum(1 for l in out if l[0] == 35 and l[1] == 1 and 0 < l[3] + l[6] + l[9] < 3),
            "child_writes": sum(1 for l in out if l[0] == 34 and l[1] == 1), "child_deliveries": sum(1 for l in out if l[0] == 34 and l[1] == 2),
            "removal_only_deltas": sum(1 for _t, p in W if _removal_only(p)), "cycles": len(cycles),
            "error": int(any(l[0] == 19 for l in out))}


def _oracle_tsb(out, start, end, cycles):
    """TSB-shaped feedback: per delivery the set of ticked fields and their values equal the producer's delta one
    smallest step earlier; unticked fields keep what was delivered before."""
    fails = []
    recs = {1: [], 2: [], 3: []}
    for l in out:
        if l[0] == 35 and l[1] in recs:
            recs[l[1]].append((l[2], [tuple(l[3 + 3 * f: 6 + 3 * f]) for f in range(3)]))
    W = recs[1]
    for rid, init in ((2, None), (3, 0)):
        exp = []                                       # (t, {field: value} of the ticked fields)
        if init is not None and start < end:
            exp.append((start, {0: init, 1: init, 2: init}))
        for (t, fl) in W:
            if t + 1 < end:
                exp.append((t + 1, {f: fl[f][2] for f in range(3) if fl[f][0]}))
        got = recs[rid]
        et, gt = [t for t, _ in exp], [t for t, _ in got]
        name = "TSB feedback" + (" with initial value" if init is not None else "")
        if et != gt:
            miss = [t for t in et if t not in gt]
            extra = [t for t in gt if t not in et]
            fails.append(("fb_lost" if miss else "fb_spurious", "%s: deliveries expected at %s, observed at %s" % (name, et[:12], gt[:12])))
            continue
        held = {}
        for (t, want), (_t, fl) in zip(exp, got):
            ticked = {f for f in range(3) if fl[f][0]}
            if ticked != set(want):
                kindf = "fb_field_dup" if ticked > set(want) else ("fb_field_lost" if ticked < set(want) else "fb_field_value")
                fails.append((kindf, "%s: at %d the feedback output ticked fields %s but the delta written one step earlier ticked %s (delivered %s)"
                              % (name, t, sorted(ticked), sorted(want), fl)))
            for f, v in want.items():
                if fl[f][1] != 1 or fl[f][2] != v:
                    fails.append(("fb_field_value", "%s: at %d field %d delivered %s, written %d" % (name, t, f, fl[f], v)))
            held.update(want)
            for f in range(3):
                if f not in want and (fl[f][1], fl[f][2]) != ((1, held[f]) if f in held else (0, 0)):
                    fails.append(("fb_field_value", "%s: at %d unticked field %d shows %s, previously delivered %s" % (name, t, f, fl[f], held.get(f))))
        for t in et:
            if t not in cycles:
                fails.append(("fb_no_cycle", "no cycle at %d for a TSB delivery" % t))
    return fails


def oracle_wired(case, out):
    """C08 on collection shapes, from the two recorded sides only: the feedback side's ticks (time, delta, value) are
    exactly the written side's ticks one smallest step later (no loss - removal-only deltas included - no duplicate,
    no reordering); a loop read passively through a Structural input quiesces."""
    if not isinstance(out, list):
        return [("crash", str(out))]
    fails = []
    if any(l[0] == 19 for l in out):
        return [("crash", "exception escaped the wired run")]
    start, end, kind, passive, structural, W, R, X, G, cycles = _wired_parse(case, out)
    if kind == 6:
        return fails + _oracle_tsb(out, start, end, cycles)
    if kind == 8:
        Wt = [(l[2], tuple(l[4:])) for l in out if l[0] == 37 and l[1] == 1]
        Rt = [(l[2], tuple(l[4:])) for l in out if l[0] == 37 and l[1] == 2]
        expt = ([(start, (1, 2))] if passive and start < end else []) + [(t + 1, v) for (t, v) in Wt if t + 1 < end]
        if Rt != expt:
            missing = [e for e in expt if e not in Rt]
            extra = [e for e in Rt if e not in expt]
            kindf = "fb_lost" if missing and not extra else ("fb_spurious" if extra and not missing else "fb_delay")
            fails.append((kindf, "tuple feedback (%s initial value): written %s; expected deliveries %s; observed %s"
                          % ("with" if passive else "no", Wt[:10], expt[:10], Rt[:10])))
        for (t, _v) in expt:
            if t not in cycles:
                fails.append(("fb_no_cycle", "no cycle at %d for a tuple delivery" % t))
        return fails
    if kind in (4, 5, 7):
        # one loop instance per key (in a map_ the value carries the key): the shift relation per instance
        keyof = (lambda v: v // 100000) if kind == 5 else (lambda v: 0)
        keys = sorted({keyof(l[3]) for l in out if l[0] == 34})
        for k in keys:
            Wk = [(l[2], l[3]) for l in out if l[0] == 34 and l[1] == 1 and keyof(l[3]) == k]
            Rk = [(l[2], l[3]) for l in out if l[0] == 34 and l[1] == 2 and keyof(l[3]) == k]
            expk = [(t + 1, v) for (t, v) in Wk if t + 1 < end]
            if Rk != expk:
                missing = [e for e in expk if e not in Rk]
                extra = [e for e in Rk if e not in expk]
                kindf = "fb_lost" if missing and not extra else ("fb_spurious" if extra and not missing else "fb_delay")
                where = ("a nested_<> child (depth %d)" % structural if kind == 4 else
                         "a try_except_ child" if kind == 7 else "the map_ child of key %d" % k)
                fails.append((kindf, "feedback loop inside %s: written %s; expected deliveries %s; observed %s; missing %s; extra %s"
                              % (where, Wk[:10], expk[:10], Rk[:10], missing[:4], extra[:4])))
            for (t, _v) in expk:
                if t not in cycles:
                    fails.append(("fb_no_cycle", "no root cycle at %d for a delivery inside a child graph" % t))
        return fails
    # an EMPTY delta (a tick that changed nothing, e.g. add of a present element) is by design not replayed
    # on an already valid collection (ts_delta.cpp delta_has_effect_tss/_tsd: "dedup"); on a still invalid
    # feedback output it is the validating tick
    exp = []
    for (t, p) in W:
        if t + 1 >= end:
            continue
        empty = p[0] == 0 and len(p) > 1 and p[1] == 0
        if empty and exp:
            continue
        exp.append((t + 1, p))
    if R != exp:
        missing = [e for e in exp if e not in R]
        extra = [e for e in R if e not in exp]
        et = {t for t, _ in exp}
        rt = {t for t, _ in R}
        if et - rt:
            kindf = "coll_lost"
        elif rt - et:
            kindf = "coll_spurious"
        else:
            kindf = "coll_mismatch"
        fails.append((kindf, "collection feedback (kind %d): written %s; expected deliveries %s; observed %s; missing %s; extra %s"
                      % (kind, W[:8], exp[:8], R[:8], missing[:4], extra[:4])))
    for (t, _p) in exp:
        if t not in cycles:
            fails.append(("fb_no_cycle", "no engine cycle at %d for a collection delivery" % t))
    if kind == 3 and passive:
        if G != X:
            fails.append(("passive_not_honoured", "reader with a passive %s feedback input evaluated at %s, its live input ticked at %s"
                          % ("Structural" if structural else "Active", G[:12], X)))
        allowed = set(X) | {t + 1 for t in X} | {start}      # the scripted source is schedule_on_start
        bad = [t for t in cycles if t not in allowed]
        if bad:
            fails.append(("no_quiesce", "passive collection loop: cycles %s explained neither by a live tick nor by a due delivery" % bad[:12]))
    return fails


def stats(case, out):
    if is_wired(case):
        return stats_wired(case, out)
    start, end, nodes, scripts = parse_case(case)
    ok = isinstance(out, list)
    st = streams(case, out) if ok else {}
    prs = pairs_of(nodes)
    cyc = [l[1] for l in out if l[0] == 10] if ok else []
    back2back = 0
    deliveries = 0
    for (k, p, s, cov) in prs:
        ws = [t for t, _ in st.get(p, [])]
        back2back += sum(1 for a, b in zip(ws, ws[1:]) if b == a + 1)
        deliveries += len(st.get(s, []))
    passive_reads = sum(1 for nd in nodes if nd["kind"] == 0 for (src, a, _r) in nd["ins"] if nodes[src]["kind"] == 1 and not a) if nodes else 0
    return {"nodes": len(nodes), "cycles": len(cyc), "pairs": len(prs), "uncovered_pairs": sum(1 for x in prs if not x[3]),
            "with_init": sum(1 for nd in nodes if nd["kind"] == 1 and nd["init"] is not None),
            "deliveries": deliveries, "back_to_back_writes": back2back, "passive_fb_reads": passive_reads,
            "realtime_runs": int(any(l[0] == 9 and len(l) > 1 and l[1] == 1 for l in case)),
            "long_loops_over_1024": int(ok and len(cyc) > 1024),
            "invalidations": sum(1 for l in out if l[0] == 16 and len(l) == 4 and l[3] == 1) if ok else 0,
            "quiesced_before_end": int(ok and bool(cyc) and any(l[0] == 20 and l[2] == MAX_DT for l in out)),
            "ran_to_end": int(ok and bool(cyc) and cyc[-1] == end - 1),
            "error": int(any(l and l[0] == 19 for l in out)) if ok else 1}


def nontrivial(case, out):
    if not isinstance(out, list):
        return False
    if is_wired(case):
        return sum(1 for l in out if l[0] in (30, 31, 34, 35, 37) and l[1] == 2) >= 2
    start, end, nodes, scripts = parse_case(case)
    st = streams(case, out)
    return any(len(st.get(s, [])) >= 2 for (_k, _p, s, _c) in pairs_of(nodes))


# ---------------------------------------------------------------- property oracle
def oracle(prop, case, out):
    """C08 stated directly on the implementation's trace (no use of the Coq model):
       - shift: the source's tick stream == [(start, init)] ++ [(t+1, v) for producer writes (t, v), t+1 < end]
       - reader_view: every reader of a feedback sees exactly that stream's state (never a value of its own cycle)
       - quiescence: cycles that no external trigger and no pending delivery explains do not exist"""
    if is_wired(case):
        return oracle_wired(case, out)
    if not isinstance(out, list):
        return [("crash", str(out))]
    fails = []
    start, end, nodes, scripts = parse_case(case)
    n = len(nodes)
    err = any(l[0] == 19 for l in out)
    cycles = [l[1] for l in out if l[0] == 10]
    cycle_set = set(cycles)
    st = streams(case, out)
    evaluated = {}
    for l in out:
        if l[0] == 11:
            evaluated.setdefault(l[2], set()).add(l[1])
    last_cycle = cycles[-1] if cycles else None
    expected = {}
    bound_srcs = {s for (_k, _p, s, _c) in pairs_of(nodes)}
    for s, nd in enumerate(nodes):
        # a feedback that was never bound delivers its declared initial value only
        if nd["kind"] == 1 and s not in bound_srcs and all(src < i for i, m in enumerate(nodes) for (src, _a, _r) in m["ins"]):
            expected[s] = [(start, nd["init"])] if nd["init"] is not None and start < end else []
            if st.get(s, []) != expected[s]:
                fails.append(("fb_spurious", "unbound feedback source %d: expected %s, observed %s" % (s, expected[s], st.get(s, []))))
    for (k, p, s, cov) in pairs_of(nodes):
        if not cov:
            continue
        writes = st.get(p, [])
        reads = st.get(s, [])
        exp = []
        if nodes[s]["init"] is not None and start < end:
            exp.append((start, nodes[s]["init"]))
        for (t, v) in writes:
            if t + 1 < end:
                exp.append((t + 1, v))
        if err and last_cycle is not None:
            # an escaped exception ends the run inside a cycle: nothing after it can be demanded
            exp = [e for e in exp if e[0] <= last_cycle]
            if exp and exp[-1][0] == last_cycle and s not in evaluated.get(last_cycle, set()) and exp[-1] not in reads:
                exp = exp[:-1]
        expected[s] = exp
        if reads != exp:
            missing = [e for e in exp if e not in reads]
            extra = [e for e in reads if e not in exp]
            et = [t for t, _ in exp]
            rt = [t for t, _ in reads]
            if missing and extra and len(missing) == len(extra) and sorted(v for _, v in missing) == sorted(v for _, v in extra):
                kind = "fb_delay"
            elif missing:
                kind = "fb_lost"
            elif extra:
                kind = "fb_spurious" if len(set(rt)) == len(rt) else "fb_dup"
            else:
                kind = "fb_reorder"
            fails.append((kind, "feedback source %d (sink %d, producer %d): producer wrote %s, expected deliveries %s, observed %s"
                          % (s, k, p, writes, exp, reads)))
        # the cycle of every delivery exists even when nothing else is scheduled there
        for (t, v) in exp:
            if t not in cycle_set and not err:
                fails.append(("fb_no_cycle", "no engine cycle at %d for the delivery of %d by source %d" % (t, v, s)))
    # ---- every reader's view of a feedback source is the expected stream's state at that time
    exp_times = {}
    for l in out:
        if l[0] != 12:
            continue
        i, t = l[1], l[2]
        nd = nodes[i]
        for si, (src, act, req) in enumerate(nd["ins"]):
            if src not in expected or not src < i:
                continue
            valid, mod, val, lmt = l[6 + 4 * si: 10 + 4 * si]
            ets = exp_times.setdefault(src, [e[0] for e in expected[src]])
            pi = bisect.bisect_right(ets, t)
            last = expected[src][pi - 1] if pi else None
            exp = [1, int(last[0] == t), last[1], last[0]] if last else [0, 0, 0, 0]
            if [valid, mod, val, lmt] != exp:
                prod = next((p for (k, p, s, c) in pairs_of(nodes) if s == src), None)
                same = [w for w in st.get(prod, []) if w[0] == t]
                kind = "fb_same_cycle" if (same and valid and val == same[0][1] and lmt == t) else "reader_view"
                fails.append((kind, "node %d input %d (feedback %d) at %d sees %s, the delivered stream implies %s"
                              % (i, si, src, t, [valid, mod, val, lmt], exp)))
    # ---- activation: a native node without scheduling of its own runs only when an active input ticked
    ticks = notified(out)
    selfs = [i for i in range(n) if _self_scheduling(nodes, scripts, i)]
    for t, evs in evaluated.items():
        for i in evs:
            nd = nodes[i]
            if nd["kind"] != 0 or i in selfs or not nd["ins"]:
                continue
            if not any(a and src in ticks.get(t, set()) for (src, a, _r) in nd["ins"]):
                pas = [src for (src, a, _r) in nd["ins"] if not a and src in ticks.get(t, set()) and nodes[src]["kind"] == 1]
                if pas:
                    fails.append(("passive_not_honoured", "node %d evaluated at %d although only its passive feedback input(s) %s ticked"
                                  % (i, t, pas)))
    # ---- quiescence: each cycle is explained by an external (self-scheduling) node or a due delivery
    if not err:
        due = {t for s, ex in expected.items() for (t, _v) in ex}
        all_cov = all(c for (_k, _p, _s, c) in pairs_of(nodes))
        for t in cycles:
            evs = evaluated.get(t, set())
            if all_cov and not (evs & set(selfs)) and t not in due:
                fails.append(("no_quiesce", "cycle at %d: no external trigger evaluated and no feedback delivery due (evaluated %s)"
                              % (t, sorted(evs))))
        # after the last external trigger a loop read only passively dies out within one step per pair in a chain
        if all_cov and not _active_loop(nodes) and cycles:
            ext = [t for t in cycles if evaluated.get(t, set()) & set(selfs)]
            npairs = len(pairs_of(nodes))
            bound = (ext[-1] if ext else start) + npairs
            if cycles[-1] > bound:
                fails.append(("no_quiesce", "passive loop still ticking at %d, last external trigger at %s, %d pair(s)"
                              % (cycles[-1], ext[-1] if ext else None, npairs)))
    return fails


PROP_KINDS = {
    # C02 names "a feedback delivery" among the wake-ups a simulation run must honour
    "C02": {"fb_lost", "fb_delay", "fb_no_cycle", "no_quiesce"},
    "C08": {"fb_lost", "fb_dup", "fb_spurious", "fb_delay", "fb_reorder", "fb_no_cycle", "fb_same_cycle", "reader_view",
            "passive_not_honoured", "no_quiesce", "coll_lost", "coll_spurious", "coll_mismatch",
            "fb_field_dup", "fb_field_lost", "fb_field_value"},
}


def shrink(case):
    if is_wired(case):
        steps = [i for i, l in enumerate(case) if l[0] == 8]
        for i in steps:
            yield case[:i] + case[i + 1:]
        for idx, l in enumerate(case):
            if l[0] == 1 and l[2] - l[1] > 3:
                yield case[:idx] + [[1, l[1], l[2] - 1]] + case[idx + 1:]
        return
    win = next((l for l in case if l[0] == 1), [1, 1, 10])
    if win[2] - win[1] > 300:
        # a long loop: every candidate costs thousands of cycles, so only shorten the run (a few sizes)
        span = win[2] - win[1]
        for ns in (span // 2, span * 3 // 4, span - 100, span - 10):
            if ns > 300 and ns < span:
                yield [([1, l[1], l[1] + ns] if l[0] == 1 else l) for l in case]
        return
    heads = [l for l in case if l[0] != 3]
    ops = [l for l in case if l[0] == 3]
    for i in range(len(ops)):
        yield heads + ops[:i] + ops[i + 1:]
    # drop the last node when nothing refers to it
    nodes = [l for l in case if l[0] in (2, 4, 5)]
    if len(nodes) > 1:
        last = len(nodes) - 1
        used = any((l[0] == 2 and any(l[7 + 3 * s] == last for s in range(l[5]))) or (l[0] == 5 and last in (l[2], l[3])) for l in nodes)
        if not used:
            yield [l for l in case if not (l[0] in (2, 4, 5) and l[1] == last) and not (l[0] == 3 and l[1] == last)]
    for idx, l in enumerate(case):
        if l[0] == 1 and l[2] - l[1] > 2:
            yield case[:idx] + [[1, l[1], l[2] - 1]] + case[idx + 1:]
        if l[0] == 3 and l[4] not in (0, 1):
            yield case[:idx] + [l[:4] + [1 if l[4] > 0 else 0] + l[5:]] + case[idx + 1:]
        if l[0] == 4 and l[3] not in (0, 1):
            yield case[:idx] + [[4, l[1], l[2], 1]] + case[idx + 1:]
