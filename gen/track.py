"""Family `track` (property C04): modification tracking of nested time-series outputs and the
inputs bound to them, under the real simulation executor.

Case lines
  1 start end
  2 <shape>                  preorder: 0 = TS<int64> | 1 n c1..cn = TSB | 2 n c = TSL<c, n> (n = 0: unbounded, grows when a
                             higher index is written) | 3 c = TSD<int64, c>
  4 kind bind_at path...     a consumer node bound to the source output (node index = position + 1)
       kind 0 passive, woken every smallest step, reports every view after every cycle (must be LAST)
       kind 1 active on the root   kind 2 active on the child at `path` (TSB/TSL indices)
       kind 3 passive, unbound at start, binds itself to the root in the cycle `bind_at`
  3 t op plen path... args   a scripted write of the source node in the cycle at time t (executed in file order)
       op 1 set leaf value args[0]          op 2 invalidate the node at path
       op 3 whole-value write at path: args = value tree (TS: present v | TSB/TSL: present [children if present])
       op 4 TSD at path: create key args[0] op 5 TSD at path: erase key args[0]
       a path component below a TSD is the key (created on the way when absent)
       op 6 set leaf value args[0] through the ELEMENT'S OWN view: a TSD on the way is only looked up
            (TSDDataView::at, no dictionary-level operation); an absent key makes it a no-op (29 t 6 4)
Observation lines (per cycle, in this order)
  23 t op flag               result of a scripted write (first-for-time / did-invalidate / changed)
  29 t op code               the write threw (2 = "duplicate modification")
  21 node t                  consumer node evaluated in this cycle
  25 node t                  late consumer bound itself          26 who t   consumer still unbound
  20 who t plen path... valid modified lmt value delta_readable delta [count]     who 0 = producer view, k = consumer k
       count (producer lines only): observers.notify calls seen so far by a counting observer on that node (-1 below a TSD)
       delta: TS the delta value; TSB/TSL bit mask of the children in the delta; TSD -1; -2 sampled whole value
  24 who t plen path... keys...   live keys of a TSD node (sorted)
  22 who t plen path... keys...   the keys the TSD itself reports modified in this cycle (modified_keys())
  32 who t plen path... flag indices...   unbounded TSL: flag = the view says the list is modified; then modified_indices()
  31 who t plen path... flag keys...   flag 1: the TSD's own per-tick delta is readable; keys of its "modified" map
"""
import random

NAME = "track"
DRIVER_SRCS = ["track_driver.cpp"]
MODEL_FAMILY = "track"
MODE = "diff"
BUDGET = {"quick": 400, "thorough": 20000}

MIN_DT = 0
KEYS = [1, 2, 3, 5]


# ---------------------------------------------------------------- shapes
def gen_shape(rng, depth, allow_dict=True, allow_dyn=False):
    """nested list form: 0 | [1, kids] | [2, n, elem] | [3, elem]     ([2, 0, elem] = unbounded TSL)"""
    if depth <= 1 or rng.random() < 0.25:
        return 0
    r = rng.random()
    if r < 0.42:
        n = rng.randint(1, 3)
        return [1, [gen_shape(rng, depth - 1, allow_dict, allow_dyn) for _ in range(n)]]
    if r < 0.68 or not allow_dict:
        if allow_dyn and rng.random() < 0.5:
            return [2, 0, gen_shape(rng, depth - 1, False, False)]
        return [2, rng.randint(1, 3), gen_shape(rng, depth - 1, allow_dict, allow_dyn)]
    return [3, gen_shape(rng, depth - 1, allow_dict, False)]


def enc_shape(s):
    if s == 0:
        return [0]
    if s[0] == 1:
        out = [1, len(s[1])]
        for c in s[1]:
            out += enc_shape(c)
        return out
    if s[0] == 2:
        return [2, s[1]] + enc_shape(s[2])
    return [3] + enc_shape(s[1])


def dec_shape(l, p=0):
    k = l[p]
    if k == 0:
        return 0, p + 1
    if k == 1:
        n = l[p + 1]
        p += 2
        kids = []
        for _ in range(n):
            c, p = dec_shape(l, p)
            kids.append(c)
        return [1, kids], p
    if k == 2:
        e, q = dec_shape(l, p + 2)
        return [2, l[p + 1], e], q
    e, q = dec_shape(l, p + 1)
    return [3, e], q


def kind(s):
    return 0 if s == 0 else s[0]


DYN_MAX = 5      # indices 0..4 of an unbounded TSL are addressed by the generator


def is_dyn(s):
    """an unbounded TSL: TSL<elem, 0>"""
    return s != 0 and s[0] == 2 and s[1] == 0


def has_dyn(s):
    if s == 0:
        return False
    if is_dyn(s):
        return True
    if s[0] == 3:
        return has_dyn(s[1])
    return any(has_dyn(c) for c in kids(s))


def touches_dyn(shape, p):
    """the path runs through / ends at / lies above an unbounded list"""
    cur = shape
    for i in p:
        if is_dyn(cur):
            return True
        cur = cur[1] if kind(cur) == 3 else (kids(cur)[i] if kind(cur) != 0 and 0 <= i < len(kids(cur)) else 0)
    return has_dyn(cur)


def kids(s):
    """children addressable by index (for an unbounded list: the DYN_MAX indices the generator uses)"""
    if s == 0 or s[0] == 3:
        return []
    if s[0] == 1:
        return s[1]
    return [s[2]] * (s[1] if s[1] else DYN_MAX)


def has_dict(s):
    if s == 0:
        return False
    if s[0] == 3:
        return True
    return any(has_dict(c) for c in kids(s))


def whole_ok(s, top=True):
    """sub-trees the harness can build a whole value for: TSB/TS nests; a TSL only as the written node itself"""
    if s == 0:
        return True
    if s[0] == 3:
        return False
    if s[0] == 2 and (not top or s[1] == 0):
        return False
    return all(whole_ok(c, False) for c in kids(s))


def shape_at(s, path):
    for i in path:
        if s == 0:
            return None
        if s[0] == 3:
            s = s[1]
        else:
            ks = kids(s)
            if i < 0 or i >= len(ks):
                return None
            s = ks[i]
    return s


def rand_path(rng, s, want, dict_free_prefix=False):
    """random path to a node; want: 'leaf' | 'any' | 'fixed' (TSB/TSL) | 'dict' ; None when impossible"""
    for _ in range(40):
        p, cur = [], s
        while True:
            k = kind(cur)
            stop = (want == "leaf" and k == 0) or (want == "dict" and k == 3 and rng.random() < 0.7) or \
                   (want == "fixed" and k in (1, 2) and rng.random() < 0.5) or (want == "any" and rng.random() < 0.35)
            if stop:
                return p
            if k == 0:
                break
            if k == 3:
                if dict_free_prefix:
                    break
                p.append(rng.choice(KEYS))
                cur = cur[1]
            else:
                ks = kids(cur)
                if not ks:
                    break
                i = rng.randrange(len(ks))
                p.append(i)
                cur = ks[i]
        if want == "any" and not (dict_free_prefix and False):
            return p
    return None


def live_leaf_path(rng, s, livekeys):
    """a leaf path whose dictionary levels all use keys believed live; None when there is none"""
    for _ in range(30):
        p, cur = [], s
        ok = True
        while kind(cur) != 0:
            if kind(cur) == 3:
                cands = [lk[-1] for lk in livekeys if lk[:-1] == tuple(p)]
                if not cands:
                    ok = False
                    break
                p.append(rng.choice(sorted(cands)))
                cur = cur[1]
            else:
                ks = kids(cur)
                if not ks:
                    ok = False
                    break
                i = rng.randrange(len(ks))
                p.append(i)
                cur = ks[i]
        if ok and any(True for n in range(len(p)) if kind(shape_at(s, p[:n])) == 3):
            return p
    return None


def gen_val(rng, s, p_present=0.7, top=True):
    if s == 0:
        return [1 if top or rng.random() < p_present else 0, rng.randint(-9, 99)]
    pr = 1 if top or rng.random() < p_present else 0
    out = [pr]
    if pr:
        for c in kids(s):
            out += gen_val(rng, c, p_present, False)
    return out


def gen(rng, tier, prop):
    quick = tier == "quick"
    depth = rng.choice([1, 2, 2, 3, 3] if quick else [1, 2, 2, 3, 3, 3])
    allow_dict = rng.random() < 0.55
    allow_dyn = rng.random() < 0.35
    shape = gen_shape(rng, depth, allow_dict, allow_dyn)
    if depth > 1 and shape == 0:
        shape = [1, [0, 0]] if rng.random() < 0.6 else [2, 2, 0]
    if allow_dyn and not has_dyn(shape) and rng.random() < 0.6:
        shape = rng.choice([[2, 0, 0], [2, 0, [1, [0, 0]]], [1, [[2, 0, 0], 0]]])
    dyny = has_dyn(shape)
    start = rng.randint(1, 3)
    ncyc = rng.randint(3, 15 if quick else 40)
    end = start + ncyc
    case = [[1, start, end], [2] + enc_shape(shape)]
    # consumers
    cons = []
    if rng.random() < 0.85:
        cons.append([4, 1, 0])
    if kind(shape) in (1, 2) and rng.random() < 0.7:
        p = rand_path(rng, shape, "any", dict_free_prefix=True) or []
        # paths through fixed shapes only
        ok = True
        cur = shape
        for i in p:
            if kind(cur) == 3 or is_dyn(cur):      # elements of dictionaries / unbounded lists do not exist at wiring time
                ok = False
                break
            cur = kids(cur)[i]
        if ok and p:
            cons.append([4, 2, 0] + p)
    if rng.random() < 0.3:
        cons.append([4, 3, rng.randint(start, end - 1)])
    if rng.random() < 0.2:
        cons.append([4, 1, 0])
    cons.append([4, 0, 0])
    case += cons
    # history
    t = start
    dicty = has_dict(shape)
    erased = set()
    pending = {}
    livekeys = set()     # paths (ending in a key) of dictionary elements believed live
    hot = rng.random()
    while t < end:
        if rng.random() < 0.3 + 0.5 * hot:
            nops = rng.choice([1, 1, 1, 2, 2, 3, 4] if not dyny else [1, 2, 2, 3, 3, 4, 5])
            for opi in range(nops):
                r = rng.random()
                if dicty and r >= 0.75:
                    r = 0.9                    # shapes holding a dictionary: a quarter of the operations are key operations
                line = None
                direct = dicty and livekeys and (rng.random() < (0.45 if opi == 0 else 0.2))
                if direct:
                    # write an element through its own view (no dictionary-level operation), preferably as the first
                    # operation of the cycle: the dictionary must open a new delta window on the child's notification
                    p = live_leaf_path(rng, shape, livekeys)
                    if p is not None:
                        line = [3, t, 6, len(p)] + p + [rng.randint(-9, 99)]
                elif r < 0.5:
                    p = rand_path(rng, shape, "leaf")
                    if p is not None:
                        line = [3, t, 1, len(p)] + p + [rng.randint(-9, 99)]
                elif r < 0.68:
                    p = rand_path(rng, shape, "any")
                    if p is not None:
                        line = [3, t, 2, len(p)] + p
                elif r < 0.88:
                    p = rand_path(rng, shape, "any")
                    if p is not None:
                        sub = shape_at(shape, p)
                        if sub is not None and whole_ok(sub):
                            line = [3, t, 3, len(p)] + p + gen_val(rng, sub, rng.choice([0.3, 0.7, 1.0]))
                elif has_dict(shape):
                    p = rand_path(rng, shape, "dict")
                    if p is not None and kind(shape_at(shape, p)) == 3:
                        line = [3, t, 4 if rng.random() < 0.5 else 5, len(p)] + p + [rng.choice(KEYS)]
                if line and line[2] in (2, 3) and dyny and touches_dyn(shape, line[4:4 + line[3]]):
                    # unbounded lists: only child writes are scripted (an element that reports twice in one cycle -
                    # written then invalidated - is linked twice into the list's modified ring; whole values not built)
                    line = None
                if line:
                    # a key erased earlier in this cycle must not be navigated through / re-created in it
                    # (the slot is resurrected with its old state; dictionary slot life-cycle is C05's subject)
                    pl = line[3]
                    pth = line[4:4 + pl]
                    hit = False
                    cur = shape
                    for n, i in enumerate(pth):
                        if kind(cur) == 3:
                            if (t, tuple(pth[:n]), i) in erased:
                                hit = True
                            cur = cur[1]
                        else:
                            cur = kids(cur)[i]
                    if line[2] == 4 and (t, tuple(pth), line[-1]) in erased:
                        hit = True
                    # finding F4: invalidating a dictionary (or a node enclosing it) as the FIRST operation on it
                    # after a cycle that erased one of its keys skips a live child (the removed slot is
                    # compacted while invalidate iterates by ordinal).  Kept out of the generated histories.
                    for dpath, t1 in list(pending.items()):
                        if t1 < t:
                            if line[2] == 2 and tuple(pth) == dpath[:len(pth)]:
                                hit = True
                            elif tuple(pth[:len(dpath)]) == dpath:
                                del pending[dpath]
                    if line[2] == 5 and not hit:
                        erased.add((t, tuple(pth), line[-1]))
                        pending[tuple(pth)] = t
                        for lk in [lk for lk in livekeys if lk[:len(pth) + 1] == tuple(pth) + (line[-1],)]:
                            livekeys.discard(lk)
                    if not hit:
                        case.append(line)
                        if line[2] in (1, 2, 3, 4):
                            cur = shape
                            full = pth + ([line[-1]] if line[2] == 4 else [])
                            for n, i in enumerate(full):
                                if kind(cur) == 3:
                                    livekeys.add(tuple(full[:n + 1]))
                                    cur = cur[1]
                                else:
                                    cur = kids(cur)[i]
        t += rng.choice([1, 1, 1, 2, 3])
    if rng.random() < 0.08:
        # a child write followed by a whole-value write of an enclosing bundle in one cycle (finding F3)
        p = rand_path(rng, shape, "leaf", dict_free_prefix=True)
        if p and len(p) >= 2 and whole_ok(shape):
            tt = rng.randint(start, end - 1)
            case.append([3, tt, 1, len(p)] + p + [rng.randint(-9, 99)])
            case.append([3, tt, 3, 0] + gen_val(rng, shape, 1.0))
    return case


def enumerate_cases(prop):
    """Exhaustive small space: TSB{a,b}/TSL2 x every sequence of <=3 ops from a small alphabet over 2 cycles."""
    out = []
    shapes = [[1, [0, 0]], [1, [[1, [0, 0]], 0]]]
    for sh in shapes:
        leafs = [[0], [1]] if sh == shapes[0] else [[0, 0], [0, 1], [1]]
        alphabet = []
        for p in leafs:
            alphabet.append((1, p, [7]))
        for p in [[]] + leafs + ([[0]] if sh == shapes[1] else []):
            if (2, p, []) not in alphabet:
                alphabet.append((2, p, []))
        alphabet.append((3, [], gen_full(sh)))
        import itertools
        for n in (1, 2, 3):
            for seq in itertools.product(range(len(alphabet)), repeat=n):
                for split in range(n + 1):
                    case = [[1, 1, 4], [2] + enc_shape(sh), [4, 1, 0], [4, 2, 0, 0], [4, 0, 0]]
                    for j, a in enumerate(seq):
                        op, p, args = alphabet[a]
                        t = 1 if j < split else 2
                        case.append([3, t, op, len(p)] + p + args)
                    out.append(case)
    return out


def gen_full(s):
    if s == 0:
        return [1, 5]
    out = [1]
    for c in kids(s):
        out += gen_full(c)
    return out


# ---------------------------------------------------------------- parsing
def parse_case(case):
    start, end, shape, ops, cons = 1, 10, None, [], []
    for l in case:
        if l[0] == 1:
            start, end = l[1], l[2]
        elif l[0] == 2:
            shape, _ = dec_shape(l, 1)
        elif l[0] == 3:
            pl = l[3]
            ops.append((l[1], l[2], tuple(l[4:4 + pl]), list(l[4 + pl:])))
        elif l[0] == 4:
            cons.append((l[1], l[2], tuple(l[3:])))
    if not cons:
        cons = [(0, 0, ())]
    return start, end, shape, ops, cons


def present_leaves(s, a, p, base, out):
    """walk a value tree; append the paths of present leaves; returns new position"""
    pr = a[p]
    p += 1
    if s == 0:
        if pr:
            out.append(tuple(base))
        return p + 1
    if pr:
        for i, c in enumerate(kids(s)):
            p = present_leaves(c, a, p, base + [i], out)
    return p


# ---------------------------------------------------------------- property oracle
class Spec:
    """The statement of C04 on the script's own write log: per endpoint, the time of the last write to
    it or below it since the last invalidation covering it (MIN_DT when none)."""

    def __init__(self, shape):
        self.shape = shape
        self.lmt = {}
        self.events = set()          # endpoints written or (effectively) invalidated in the current cycle
        self.add_subtree((), shape)

    def add_subtree(self, p, s):
        self.lmt[p] = MIN_DT
        if kind(s) in (1, 2) and not is_dyn(s):
            for i, c in enumerate(kids(s)):
                self.add_subtree(p + (i,), c)

    def drop_subtree(self, p):
        for q in [q for q in self.lmt if q[:len(p)] == p]:
            del self.lmt[q]

    def touch_up(self, p, t):
        for n in range(len(p) + 1):
            self.lmt[p[:n]] = t
            self.events.add(p[:n])

    def keys_exist(self, p):
        s = self.shape
        for n, i in enumerate(p):
            if kind(s) == 3:
                if p[:n + 1] not in self.lmt:
                    return False
                s = s[1]
            else:
                ks = kids(s)
                if i < 0 or i >= len(ks):
                    return True
                s = ks[i]
        return True

    def ensure(self, p, t, create=True):
        """create dictionary keys on the way to p (the harness navigates with mutation.at(key)) and grow
        unbounded lists up to the addressed index (growth by itself marks nothing)"""
        s = self.shape
        for n, i in enumerate(p):
            if kind(s) == 3:
                q = p[:n + 1]
                if q not in self.lmt:
                    if not create:
                        return None
                    self.add_subtree(q, s[1])
                    self.touch_up(p[:n], t)
                s = s[1]
            elif is_dyn(s):
                if i < 0:
                    return None
                j = 0
                while p[:n] + (j,) in self.lmt:
                    j += 1
                for jj in range(j, i + 1):
                    self.add_subtree(p[:n] + (jj,), s[2])
                s = s[2]
            else:
                ks = kids(s)
                if i < 0 or i >= len(ks):
                    return None
                s = ks[i]
        return s

    def apply(self, t, op, p, args):
        """returns the set of endpoints invalidated (they were valid) by this operation"""
        killed = set()
        if op == 6:
            if self.keys_exist(p) and shape_at(self.shape, p) == 0 and self.ensure(p, t, create=False) == 0:
                self.touch_up(p, t)
            return killed
        s = self.ensure(p, t)
        if s is None:
            return killed
        if op == 1:
            if s == 0:
                self.touch_up(p, t)
        elif op == 2:
            if self.lmt[p] != MIN_DT:
                for q in self.lmt:
                    if q[:len(p)] == p:
                        if self.lmt[q] != MIN_DT:
                            killed.add(q)
                            self.events.add(q)
                        self.lmt[q] = MIN_DT
                if p:
                    self.touch_up(p[:-1], t)   # an invalidated child is a change of every enclosing collection
        elif op == 3:
            leaves = []
            present_leaves(s, args, 0, list(p), leaves)
            for q in leaves:
                self.touch_up(q, t)
        elif op == 4:
            if kind(s) == 3 and p + (args[0],) not in self.lmt:
                self.add_subtree(p + (args[0],), s[1])
                self.touch_up(p, t)
        elif op == 5:
            if kind(s) == 3:
                if p + (args[0],) in self.lmt:
                    self.drop_subtree(p + (args[0],))
                self.touch_up(p, t)            # an erase request marks the dictionary even when the key is absent
        return killed


def oracle(prop, case, out):
    if not isinstance(out, list):
        return [("crash", str(out)[:300])]
    fails = []
    start, end, shape, ops, cons = parse_case(case)
    if shape is None:
        return fails
    spec = Spec(shape)
    by_t = {}
    for (t, op, p, args) in ops:
        by_t.setdefault(t, []).append((op, p, args))
    lines_by_t = {}
    for l in out:
        if l and l[0] in (20, 21, 22, 23, 24, 26, 29, 31, 32):
            tt = l[1] if l[0] in (23, 29) else l[2]
            lines_by_t.setdefault(tt, []).append(l)
    if any(l and l[0] in (27, 28) for l in out):
        fails.append(("harness_error", "run/build error line present"))
        return fails
    seen_cycles = sorted({l[2] for l in out if l and l[0] == 20 and l[1] == 0})
    if seen_cycles != list(range(start, end)):
        fails.append(("cycle_missing", "reporter did not observe every cycle: %s" % seen_cycles[:20]))
    prev_counts = {}
    for t in range(start, end):
        ls = lines_by_t.get(t, [])
        threw = [l for l in ls if l[0] == 29 and l[3] != 4]      # code 4: direct write of an absent key, a no-op
        if threw:
            kind_ = "whole_write_throws" if any(l[3] == 2 for l in threw) else "write_throws"
            fails.append((kind_, "scripted write threw at t=%d: %s" % (t, threw[0])))
            return fails     # the state is partially written from here on: stop judging
        killed_now, child_inv_now = set(), set()
        spec.events = set()
        for (op, p, args) in by_t.get(t, []):
            k = spec.apply(t, op, p, args)
            killed_now |= k
            if k:
                for n in range(len(p)):
                    child_inv_now.add(p[:n])
        prod = {}
        counts = {}
        for l in ls:
            if l[0] == 20:
                who, pl = l[1], l[3]
                p = tuple(l[4:4 + pl])
                vals = l[4 + pl:]
                if who == 0:
                    prod[p] = vals[:6]
                    counts[p] = vals[6] if len(vals) > 6 else -1
        # (1)-(4): the four biconditionals on the producer view
        for p, exp_l in spec.lmt.items():
            if p not in prod:
                fails.append(("endpoint_missing", "t=%d endpoint %s not reported by the producer" % (t, list(p))))
                continue
            valid, mod, lmt, val, rd, dv = prod[p]
            if mod != int(exp_l == t):
                fails.append(("modified_wrong", "t=%d ep=%s modified=%d but last write (since invalidation) at %d" % (t, list(p), mod, exp_l)))
            if lmt != exp_l:
                fails.append(("lmt_wrong", "t=%d ep=%s last_modified_time=%d, write log says %d" % (t, list(p), lmt, exp_l)))
            if valid != int(exp_l != MIN_DT):
                fails.append(("valid_wrong", "t=%d ep=%s valid=%d, write log says last write %d" % (t, list(p), valid, exp_l)))
            if rd != int(exp_l == t):
                fails.append(("delta_leak" if rd else "delta_missing",
                              "t=%d ep=%s delta readable=%d but endpoint %s written in this cycle" % (t, list(p), rd, "was" if exp_l == t else "was not")))
            s = shape_at(shape, p)
            if kind(s) in (1, 2):
                ch = [spec.lmt.get(p + (i,), MIN_DT) == t for i in range(len(kids(s)))]
                # a fixed-shape parent is modified iff a child is (or a child was invalidated in this cycle)
                if mod and not any(ch) and p not in child_inv_now:
                    fails.append(("parent_without_child", "t=%d ep=%s modified with no child modified or invalidated" % (t, list(p))))
                if any(ch) and not mod:
                    fails.append(("child_without_parent", "t=%d ep=%s has a modified child but is not modified" % (t, list(p))))
                if rd:
                    expm = sum(1 << i for i, c in enumerate(ch) if c)
                    if dv != expm:
                        fails.append(("delta_children", "t=%d ep=%s delta holds children mask %d, modified children mask %d" % (t, list(p), dv, expm)))
            elif s == 0 and rd and exp_l == t and dv != val:
                fails.append(("delta_value", "t=%d ep=%s delta %d != value %d" % (t, list(p), dv, val)))
        # observers are notified once per cycle in which the endpoint is written (cycles without an
        # invalidation: invalidate notifies on its own account)
        inv_cycle = any(op == 2 for (op, _, _) in by_t.get(t, []))
        for p, cnt in counts.items():
            if cnt >= 0 and p in spec.lmt:
                before = prev_counts.get(p, 0)
                if not inv_cycle and cnt - before != int(spec.lmt[p] == t):
                    fails.append(("notify_count", "t=%d ep=%s observers notified %d times, written in this cycle: %s"
                                  % (t, list(p), cnt - before, spec.lmt[p] == t)))
        prev_counts = counts
        for p in prod:
            if p not in spec.lmt:
                fails.append(("endpoint_extra", "t=%d producer reports endpoint %s that the write log does not have" % (t, list(p))))
        # dictionaries: the keys a TSD reports modified in a cycle (modified_keys(), and the "modified" map of its
        # per-tick delta) are exactly the live keys whose element was written or invalidated in this cycle
        dict_lines = {}
        for l in ls:
            if l[0] in (22, 31, 32):
                who, pl = l[1], l[3]
                dict_lines[(l[0], who, tuple(l[4:4 + pl]))] = l[4 + pl:]
        for (code, who, p), rest in sorted(dict_lines.items()):
            if p not in spec.lmt:
                continue
            exp = sorted(q[-1] for q in spec.lmt if len(q) == len(p) + 1 and q[:len(p)] == p and q in spec.events) \
                if spec.lmt[p] == t else []
            side = "producer" if who == 0 else "consumer %d" % who
            if code == 22 and rest != exp:
                fails.append(("dict_modified_keys", "t=%d %s ep=%s modified_keys()=%s, elements written/invalidated in this cycle: %s"
                              % (t, side, list(p), rest, exp)))
            if code == 31 and rest[0] == 1 and rest[1:] != exp:
                fails.append(("dict_delta_keys", "t=%d %s ep=%s delta_value().modified has keys %s, elements written/invalidated in this cycle: %s"
                              % (t, side, list(p), rest[1:], exp)))
            if code == 32 and rest[0] == 1 and rest[1:] != exp:
                fails.append(("list_modified_indices", "t=%d %s ep=%s modified_indices()=%s, children written in this cycle: %s"
                              % (t, side, list(p), rest[1:], exp)))
            if code == 32 and who == 0 and rest[0] != int(spec.lmt[p] == t):
                fails.append(("list_modified_indices", "t=%d producer ep=%s list modified=%d, written in this cycle: %s"
                              % (t, list(p), rest[0], spec.lmt[p] == t)))
            if code == 31 and who == 0 and rest[0] != int(spec.lmt[p] == t):
                fails.append(("dict_delta_keys", "t=%d producer ep=%s dictionary delta readable=%d, written in this cycle: %s"
                              % (t, list(p), rest[0], spec.lmt[p] == t)))
        # (5) every consumer agrees with the producer
        for l in ls:
            if l[0] != 20 or l[1] == 0:
                continue
            who, pl = l[1], l[3]
            p = tuple(l[4:4 + pl])
            vals = l[4 + pl:]
            if p not in prod:
                continue
            if vals != prod[p]:
                ck, cbind, cpath = cons[who - 1]
                names = ["valid", "modified", "lmt", "value", "delta_readable", "delta"]
                diff = [names[i] for i in range(6) if vals[i] != prod[p][i]]
                rest = diff
                if p == cpath and prod[p][0] == 0 and vals[0] == 0 and rest and rest[0] in ("modified", "lmt"):
                    # the consumer's own position after its target was invalidated: the link keeps the invalidation time
                    fails.append(("consumer_after_invalidate_" + rest[0],
                                  "t=%d consumer %d ep=%s reads %s, producer %s" % (t, who, list(p), vals, prod[p])))
                    rest = [d for d in rest if d not in ("modified", "lmt")]
                if rest and rest[0] == "delta_readable" and vals[4] == 1 and prod[p][4] == 0:
                    fails.append(("consumer_stale_delta",
                                  "t=%d consumer %d ep=%s reads a delta (%d) in a cycle that did not write it; reads %s, producer %s"
                                  % (t, who, list(p), vals[5], vals, prod[p])))
                    rest = []
                if rest:
                    fails.append(("consumer_disagrees_" + rest[0],
                                  "t=%d consumer %d ep=%s reads %s, producer %s" % (t, who, list(p), vals, prod[p])))
        # active consumers run exactly when their endpoint was written or invalidated in this cycle
        ran = {l[1] for l in ls if l[0] == 21}
        for k, (ck, cbind, cpath) in enumerate(cons):
            who = k + 1
            if ck in (1, 2):
                exp = spec.lmt.get(cpath, MIN_DT) == t or cpath in killed_now
                if exp and who not in ran:
                    fails.append(("not_notified", "t=%d active consumer %d on %s not evaluated although written/invalidated" % (t, who, list(cpath))))
                if who in ran and not exp:
                    fails.append(("spurious_notify", "t=%d active consumer %d on %s evaluated without a write" % (t, who, list(cpath))))
    return fails


# Deviations of the unchanged tree from the letter of C04 (see docs/notes-track.md, findings F1-F3).  The mirror
# model reproduces them, so the differential stays quiet; the oracle names them with these kinds.  They are NOT
# listed in PROP_KINDS until the lead records them in known_findings.json (then move them there).
DEVIATION_KINDS = {"consumer_after_invalidate_modified", "consumer_after_invalidate_lmt",
                   "consumer_stale_delta", "whole_write_throws"}

PROP_KINDS = {
    "C04": {"modified_wrong", "lmt_wrong", "valid_wrong", "delta_leak", "delta_missing", "delta_children", "delta_value",
            "parent_without_child", "child_without_parent", "endpoint_missing", "endpoint_extra",
            "consumer_disagrees_valid", "consumer_disagrees_modified", "consumer_disagrees_lmt", "consumer_disagrees_value",
            "consumer_disagrees_delta_readable", "consumer_disagrees_delta",
            "not_notified", "spurious_notify", "notify_count", "dict_modified_keys", "dict_delta_keys", "list_modified_indices", "cycle_missing", "write_throws", "harness_error",
            # genuine deviations of the unchanged tree, listed in known_findings.json (docs/notes-track.md F1-F3)
            "consumer_after_invalidate_modified", "consumer_after_invalidate_lmt", "consumer_stale_delta", "whole_write_throws"},
}


def stats(case, out):
    start, end, shape, ops, cons = parse_case(case)
    st = {"cycles": end - start, "ops": len(ops), "consumers": len(cons),
          "op_set": sum(1 for o in ops if o[1] == 1), "op_invalidate": sum(1 for o in ops if o[1] == 2),
          "op_whole": sum(1 for o in ops if o[1] == 3), "op_dict": sum(1 for o in ops if o[1] in (4, 5)),
          "op_direct_element_write": sum(1 for o in ops if o[1] == 6),
          "has_dict": int(shape is not None and has_dict(shape)),
          "has_unbounded_list": int(shape is not None and has_dyn(shape)),
          "depth3": int(shape is not None and depth_of(shape) >= 3),
          "late_bound": sum(1 for c in cons if c[0] == 3),
          "child_consumers": sum(1 for c in cons if c[0] == 2)}
    times = [o[0] for o in ops]
    st["multi_write_cycles"] = sum(1 for t in set(times) if times.count(t) > 1)
    st["quiet_cycles"] = sum(1 for t in range(start, end) if t not in times)
    if isinstance(out, list):
        st["threw"] = sum(1 for l in out if l and l[0] == 29)
        st["endpoint_reads"] = sum(1 for l in out if l and l[0] == 20)
        for k, _ in oracle("C04", case, out):
            if k in DEVIATION_KINDS:
                st["finding_" + k] = st.get("finding_" + k, 0) + 1
    else:
        st["crash"] = 1
    return st


def depth_of(s):
    if s == 0:
        return 1
    if s[0] == 3:
        return 1 + depth_of(s[1])
    return 1 + max([depth_of(c) for c in kids(s)] or [0])


def nontrivial(case, out):
    if not isinstance(out, list):
        return False
    start, end, shape, ops, cons = parse_case(case)
    times = {o[0] for o in ops if start <= o[0] < end}
    return len(times) >= 2 and any(t not in times for t in range(start, end)) and shape != 0


def shrink(case):
    heads = [l for l in case if l[0] != 3]
    ops = [l for l in case if l[0] == 3]
    for i in range(len(ops)):
        yield heads + ops[:i] + ops[i + 1:]
    consl = [i for i, l in enumerate(case) if l[0] == 4]
    for i in consl[:-1]:
        yield case[:i] + case[i + 1:]
    for idx, l in enumerate(case):
        if l[0] == 1 and l[2] - l[1] > 2:
            yield case[:idx] + [[1, l[1], l[2] - 1]] + case[idx + 1:]
