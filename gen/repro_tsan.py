#!/usr/bin/env python3
"""ThreadSanitizer variant of the C07 thread phase — SUPPORTING EVIDENCE ONLY, never the deciding check.

  python3 gen/repro_tsan.py [--cases N] [--seed S] [--jobs J]

Not part of `./hgv check C07` (neither tier depends on it).  What it does:

  * compiles the anchored translation units of C07 and the whole runtime directory
    (src/hgraph/runtime/*.cpp, types/metadata/type_registry.cpp, type_record_registry.cpp,
    types/utils/counted_mutex.cpp; NOT record_replay_memory_impl.cpp: it crashes the clang 14 front end) and
    cxx/repro_driver.cpp (with -DHGV_REPRO_NO_RECORD: the companion graph loses its recorder node) with `clang++-14 -std=c++2b -O1 -g -fsanitize=thread` into
    /var/tmp/hgv-repro-tsan/obj (content-addressed by source + depfile hashes, so an edit of /repo
    recompiles what it touches);
  * takes every OTHER object of the tree from the shared g++ cache (hgvlib.build, read-only use);
    those are not instrumented: races inside them are invisible, and synchronisation they perform
    with bare atomics is invisible too (a possible source of false positives);
  * links with `clang++-14 -fsanitize=thread`, runs generated cases that have a thread phase (T >= 2)
    through the instrumented driver, and reports every "WARNING: ThreadSanitizer: data race" whose
    stack mentions hgraph.

Exit code 1 if a race in hgraph code was reported, 0 otherwise, 2 if the variant could not be built.
Honour HGV_REPO like the main build.  Each compile takes one of the machine-wide compile slots.
"""
import concurrent.futures as cf
import hashlib
import json
import os
import random
import re
import subprocess
import sys
import tempfile
import time

VERIF = os.path.dirname(os.path.dirname(os.path.abspath(__file__)))
sys.path.insert(0, VERIF)
from hgvlib import build, runner  # noqa: E402
from gen import repro  # noqa: E402

ROOT = "/var/tmp/hgv-repro-tsan"
OBJ = os.path.join(ROOT, "obj")
CLANG = "clang++-14"
# record_replay_memory_impl.cpp (and its header) crash the clang 14 front end (exit 139), so the recorder stays a g++
# object and the driver is compiled with -DHGV_REPRO_NO_RECORD (companion graph without the recorder node).
INSTRUMENTED = ["src/hgraph/types/metadata/type_registry.cpp", "src/hgraph/types/metadata/type_record_registry.cpp",
                "src/hgraph/types/utils/counted_mutex.cpp"]
ORACLE_KINDS = {"rep_differs", "noise_rep_differs", "comp_rep_differs", "state_leak", "child_state_leak", "gs_counter",
                "gs_foreign_read", "callback_cross_run", "crash", "build_error", "unexpected_error"}


def flags():
    fl = [f for f in build.flags(["-I", os.path.join(VERIF, "cxx")]) if f not in ("-std=c++23", "-O0", "-g0", "-fno-var-tracking")]
    return ["-std=c++2b", "-O1", "-g", "-fsanitize=thread", "-fno-omit-frame-pointer"] + fl


def key_of(src, deps, fl):
    """Paths enter the key relative to the tree root (build._norm), so HGV_REPO=<scratch copy> shares every
    object whose inputs it did not change."""
    h = hashlib.sha256(build._norm(" ".join(fl)).encode())
    for p in [src] + deps:
        h.update(build._norm(p).encode())
        h.update(build.file_hash(p).encode())
    return h.hexdigest()[:32]


def compile_one(src, fl, db):
    deps = db.get(build._norm(src))
    if deps is not None:
        deps = [build._denorm(d) for d in deps]
        obj = os.path.join(OBJ, key_of(src, deps, fl) + ".o")
        if os.path.exists(obj):
            return src, obj, deps, ""
    tmp = os.path.join(OBJ, "tmp-%d-%s" % (os.getpid(), hashlib.md5(src.encode()).hexdigest()))
    with build.CompileSlot():
        p = subprocess.run([CLANG] + fl + ["-MMD", "-MF", tmp + ".d", "-c", src, "-o", tmp + ".o"], capture_output=True, text=True)
    if p.returncode != 0:
        return src, None, deps, p.stderr[-3000:]
    deps = [d for d in build.parse_depfile(tmp + ".d") if d != src and not d.startswith("/usr/")]
    os.unlink(tmp + ".d")
    obj = os.path.join(OBJ, key_of(src, deps, fl) + ".o")
    os.replace(tmp + ".o", obj)
    return src, obj, deps, ""


def build_variant(jobs):
    os.makedirs(OBJ, exist_ok=True)
    build.gen_dir()
    repo = build.REPO
    tus = [os.path.join(repo, r) for r in build.repo_tus()]
    inst = [t for t in tus if "/src/hgraph/runtime/" in t or os.path.relpath(t, repo) in INSTRUMENTED]
    drv = os.path.join(VERIF, "cxx", "repro_driver.cpp")
    rest = [t for t in tus if t not in inst]
    with build.Lock():
        gobjs, errs, _ = build.build_objects(tus, jobs=jobs)      # every TU as a g++ object (fallbacks come from here)
    if errs:
        print("g++ objects failed:", list(errs)[:3])
        return None
    dbp = os.path.join(ROOT, "deps.json")
    try:
        db = json.load(open(dbp))
    except Exception:
        db = {}
    fl = flags()
    t0 = time.time()
    objs = {}
    fallback = []
    with cf.ThreadPoolExecutor(max_workers=jobs) as ex:
        for src, obj, deps, log in ex.map(lambda s: compile_one(s, fl + (["-DHGV_REPRO_NO_RECORD"] if s == drv else []), db), inst + [drv]):
            if obj is None:
                if src == drv:
                    print("clang TSan compile failed for the driver:\n%s" % log)
                    return None
                # clang 14 cannot compile some TUs against libstdc++ 12 (ranges): they stay uninstrumented g++ objects
                fallback.append(os.path.relpath(src, repo))
                objs[src] = gobjs[src]
                continue
            objs[src] = obj
            db[build._norm(src)] = [build._norm(d) for d in deps]
    json.dump(db, open(dbp, "w"))
    print("[tsan] %d TUs instrumented in %.0fs; not compilable by clang 14, left uninstrumented: %s"
          % (len(objs) - len(fallback), time.time() - t0, fallback))
    allobjs = [objs[drv]] + [objs[s] for s in inst] + [gobjs[s] for s in rest]
    binp = os.path.join(ROOT, "repro-tsan-" + hashlib.sha256(" ".join(allobjs).encode()).hexdigest()[:16])
    if not os.path.exists(binp):
        for f in os.listdir(ROOT):
            if f.startswith("repro-tsan-"):
                os.unlink(os.path.join(ROOT, f))
        p = subprocess.run([CLANG, "-fsanitize=thread", "-no-pie", "-o", binp] + allobjs + build.LINK_TAIL, capture_output=True, text=True)
        if p.returncode != 0:
            print("link failed:\n" + p.stderr[-3000:])
            return None
    return binp


def main():
    a = sys.argv[1:]
    n = int(a[a.index("--cases") + 1]) if "--cases" in a else 60
    seed = int(a[a.index("--seed") + 1]) if "--seed" in a else 1
    jobs = int(a[a.index("--jobs") + 1]) if "--jobs" in a else 4
    binp = build_variant(jobs)
    if binp is None:
        return 2
    rng = random.Random(seed)
    cases = []
    while len(cases) < n:
        c = repro.gen(rng, "thorough", "C07")
        if repro.plan_of(c)["T"] >= 2:
            cases.append(c)
    fd, batch = tempfile.mkstemp(prefix="hgv-repro-tsan-", suffix=".batch", dir="/var/tmp")
    os.close(fd)
    runner.write_batch(cases, batch)
    logp = os.path.join(ROOT, "tsan-report")
    for f in os.listdir(ROOT):
        if f.startswith("tsan-report"):
            os.unlink(os.path.join(ROOT, f))
    env = dict(build.RUN_ENV, TSAN_OPTIONS="halt_on_error=0 exitcode=0 second_deadlock_stack=1 history_size=4 log_path=" + logp)
    t0 = time.time()
    try:
        p = subprocess.run([binp, batch], capture_output=True, text=True, env=env, timeout=60 * 30)
        rc, so = p.returncode, p.stdout
    except subprocess.TimeoutExpired:
        rc, so = -999, ""
    finally:
        os.unlink(batch)
    outs = runner.parse_batch(so)
    bad = sum(1 for c, o in zip(cases, outs) if any(k in ORACLE_KINDS for k, _ in repro.oracle("C07", c, o)))
    reports = []
    for f in os.listdir(ROOT):
        if f.startswith("tsan-report"):
            txt = open(os.path.join(ROOT, f)).read()
            reports += [r for r in re.split(r"(?==================\nWARNING: ThreadSanitizer)", txt) if "WARNING: ThreadSanitizer" in r]
    hg = [r for r in reports if "hgraph::" in r and "data race" in r]
    print("[tsan] %d threaded cases, driver rc=%d, %d cases completed, %d with oracle failures, %.0fs"
          % (len(cases), rc, len(outs), bad, time.time() - t0))
    print("[tsan] ThreadSanitizer reports: %d total, %d data races with hgraph frames" % (len(reports), len(hg)))
    seen = set()
    for r in hg:
        m = re.findall(r"#0 (\S+)", r)
        sig = tuple(m[:2])
        if sig in seen:
            continue
        seen.add(sig)
        print("---- distinct race:\n" + "\n".join(r.splitlines()[:28]))
    return 1 if hg or bad or rc != 0 else 0


if __name__ == "__main__":
    sys.exit(main())
