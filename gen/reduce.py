"""Family `reduce` (property C11): the associative reduce of /repo's tree over a scripted collection.

Case lines
  1 coll comb has_zero zero ncycles   coll 0 TSD<Int,TS<Int>>, 1 dynamic TSL<TS<Int>>, 2 TSL<TS<Int>,6>
                                      comb 0 add_ (lifted kernel), 1 node combiner, 2 two-node sub-graph combiner
  2 cycle key value                   set key (list: index) in that engine cycle (cycle c runs at time 1+c)
  3 cycle key                         remove key (TSD only; removals of a cycle are applied before its sets)
  4 cycle                             empty tick of the TSD
Observation lines
  20 t (slot key)*                    removed slots of the TSD delta, in the order reduce_node.cpp walks them
  21 t (slot key)*                    added slots
  22 t (slot key)*                    modified slots
  30 t lhs rhs                        a combiner ran with these operands (node / sub-graph combiners only)
  32 t leaves combiners valid value modified     the reduce node was evaluated: ReduceNodeView counts and its output
  31 t valid value                    the recording sink ran (the result ticked)
  39 code                             1 bad cycle count, 2 exception, 3 index out of range for a list
Element values are distinct powers of two (bits 0..59, never reused while live) and the zero is 2^60, so a sum
says exactly which leaves were combined and how often.
"""
import itertools
import random

NAME = "reduce"
DRIVER_SRCS = ["reduce_driver.cpp"]
MODEL_FAMILY = "reduce"
MODE = "diff"
BUDGET = {"quick": 400, "thorough": 6000}
ZERO = 1 << 60
FIXED = 6
# "stale_singleton_while_zero_invalid" is deliberately NOT a C11 kind: it is behaviour of the unchanged tree
# (finding F1 in docs/notes-reduce.md) that the lead decides on (fix or known_findings.json).
PROP_KINDS = {"C11": {"wrong_value", "missing_eval", "no_tick", "sink_mismatch", "leaf_count", "combiner_count",
                      "zero_operand", "stale_operand", "too_many_evals", "error_line", "spurious_tick",
                      "stale_singleton_while_zero_invalid"}}


class _Script:
    """Builds a history and keeps the live map, handing out fresh bits."""

    def __init__(self, rng, coll, keys):
        self.rng, self.coll, self.keys = rng, coll, keys
        self.live = {}
        self.lines = []
        self.bit = rng.randint(0, 59)
        self.cycle_sets, self.cycle_rems = {}, []

    def fresh(self):
        used = {v.bit_length() - 1 for v in self.live.values()} | {v.bit_length() - 1 for v in self.cycle_sets.values()}
        for _ in range(60):
            self.bit = (self.bit + 1) % 60
            if self.bit not in used:
                return 1 << self.bit
        return None

    def begin(self):
        self.cycle_sets, self.cycle_rems = {}, []

    def set(self, k):
        v = self.fresh()
        if v is None:
            return False
        self.cycle_sets[k] = v
        return True

    def remove(self, k):
        if k not in self.cycle_rems:
            self.cycle_rems.append(k)

    def end(self, c, touch=False):
        for k in self.cycle_rems:
            self.lines.append([3, c, k])
            self.live.pop(k, None)
        for k in sorted(self.cycle_sets):
            self.lines.append([2, c, k, self.cycle_sets[k]])
            self.live[k] = self.cycle_sets[k]
        if touch:
            self.lines.append([4, c])


def _key_pool(rng, coll):
    if coll == 2:
        return list(range(FIXED))
    if coll == 1:
        return list(range(rng.choice([4, 9, 18])))
    base = rng.choice([0, 0, 100, -5])
    n = rng.choice([3, 5, 9, 17, 20, 34])
    ks = list(range(base, base + n))
    rng.shuffle(ks)
    return ks


def _large(rng, tier):
    """A history that grows to 65..140 live elements (leaf capacity 128 / 256, more than 64 combine points, so
    the evaluation candidates span several 64-bit bitmap words) and then ticks values, adds and removes a few
    elements per cycle all over the dense range.  More than 60 values cannot be distinct powers of two: values
    are distinct small integers (< 2^20), the oracle checks the exact sum and the model the exact operand log."""
    coll = rng.choice([0, 0, 1])
    comb = rng.choice([0, 1, 1, 2])
    has_zero = 1 if rng.random() < 0.4 else 0
    target = rng.choice([65, 66, 70, 80, 96, 100, 129, 140]) if tier != "quick" else rng.choice([65, 66, 72, 90, 130])
    nkeys = target + rng.randint(2, 12)
    keys = list(range(nkeys)) if coll == 1 else rng.sample(range(-20, 400), nkeys)
    pool = rng.sample(range(1, 1 << 20), 4000)
    live, lines = {}, []
    c = 0
    dead = list(keys)
    rng.shuffle(dead)
    # growth in a few bursts (crossing 64 -> 128 leaves mid-history)
    while len(live) < target:
        n = min(target - len(live), rng.choice([7, 20, 33, 64, 70]))
        for k in sorted(dead[:n]):
            v = pool.pop()
            lines.append([2, c, k, v])
            live[k] = v
        dead = dead[n:]
        c += 1
    # churn: sparse value ticks / a few adds / removes per cycle
    for _ in range(rng.randint(3, 7) if tier == "quick" else rng.randint(4, 12)):
        r = rng.random()
        lk = list(live)
        if r < 0.55 or coll == 1:
            for k in sorted(rng.sample(lk, rng.randint(1, 3))):
                v = pool.pop()
                lines.append([2, c, k, v])
                live[k] = v
            if coll == 1 and dead and rng.random() < 0.4:
                k = dead.pop()
                v = pool.pop()
                lines.append([2, c, k, v])
                live[k] = v
        elif r < 0.8:
            for k in rng.sample(lk, rng.randint(1, 3)):
                lines.append([3, c, k])
                del live[k]
            if rng.random() < 0.5 and live:
                k = rng.choice(list(live))
                v = pool.pop()
                lines.append([2, c, k, v])
                live[k] = v
        else:
            for k in sorted(dead[:rng.randint(1, 3)]):
                v = pool.pop()
                lines.append([2, c, k, v])
                live[k] = v
                dead.remove(k)
        c += 1
    return [[1, coll, comb, has_zero, ZERO if has_zero else 0, c]] + lines


def gen(rng, tier, prop):
    if rng.random() < 0.03:
        return _malformed(rng)
    if rng.random() < (0.04 if tier == "quick" else 0.02):
        return _large(rng, tier)
    coll = rng.choice([0, 0, 0, 0, 0, 0, 0, 1, 1, 2])
    comb = rng.choice([0, 1, 1, 1, 2, 2])
    has_zero = 1 if rng.random() < 0.5 else 0
    keys = _key_pool(rng, coll)
    n = rng.randint(3, 12 if tier == "quick" else 24)
    sc = _Script(rng, coll, keys)
    # a plan: target sizes the live count is steered towards, crossing capacity boundaries and returning to empty
    targets = []
    while len(targets) < n:
        targets += rng.choice([[1, 2, 3], [2, 5], [3, 9, 17], [4, 0, 2], [1, 0, 1, 2], [8, 3, 0, 5], [5, 4, 3, 2, 1, 0],
                               [16, 17, 8], [2, 1, 2, 1], [9, 0, 9], [3, 3, 3], [33, 16, 0, 4] if tier != "quick" else [12, 2]])
    burst = rng.random() < 0.5
    for c in range(n):
        sc.begin()
        if rng.random() < 0.12:
            sc.end(c, touch=(coll == 0 and rng.random() < 0.4))
            continue
        tgt = min(targets[c], len(keys))
        live_keys = list(sc.live)
        dead_keys = [k for k in keys if k not in sc.live]
        nl = len(live_keys)
        step = max(1, abs(tgt - nl)) if burst else rng.randint(1, 3)
        if coll == 0:
            if nl > tgt:
                for k in rng.sample(live_keys, min(step, nl - tgt)):
                    sc.remove(k)
            elif nl < tgt:
                for k in rng.sample(dead_keys, min(step, tgt - nl, len(dead_keys))):
                    sc.set(k)
            # churn on top: updates, swaps, resurrections, removal of an absent key
            r = rng.random()
            still = [k for k in live_keys if k not in sc.cycle_rems]
            if r < 0.35 and still:
                for k in rng.sample(still, min(len(still), rng.randint(1, 3))):
                    sc.set(k)
            elif r < 0.5 and still and dead_keys:
                sc.remove(rng.choice(still))
                k2 = rng.choice(dead_keys)
                if k2 not in sc.cycle_sets:
                    sc.set(k2)
            elif r < 0.6 and still:
                k = rng.choice(still)
                sc.remove(k)
                sc.set(k)                      # removed and set again in one cycle
            elif r < 0.66 and dead_keys:
                sc.remove(rng.choice(dead_keys))  # not present
            elif r < 0.72 and still:
                for k in still[:]:
                    if rng.random() < 0.5:
                        sc.remove(k)
        else:
            if nl < tgt or not live_keys:
                for k in rng.sample(dead_keys, min(step, max(1, tgt - nl), len(dead_keys))):
                    sc.set(k)
            if live_keys and rng.random() < 0.6:
                for k in rng.sample(live_keys, min(len(live_keys), rng.randint(1, 3))):
                    sc.set(k)
        sc.end(c, touch=(coll == 0 and rng.random() < 0.04))
    if has_zero and coll != 2 and rng.random() < 0.45:
        # a LIVE zero with its own tick script: first tick in cycle 0, later (after the collection, with two or
        # more elements live in between), or never; re-ticks with a new value (2^60 / 2^61 alternate)
        r = rng.random()
        first = 0 if r < 0.3 else (None if r > 0.88 else rng.randint(1, max(1, n - 1)))
        zl, k = [], 0
        if first is not None:
            c = first
            while c < n:
                zl.append([5, c, ZERO << (k % 2)])
                k += 1
                if rng.random() < 0.45:
                    break
                c += rng.randint(1, 4)
        return [[1, coll, comb, 2, 0, n]] + sc.lines + zl
    return [[1, coll, comb, has_zero, ZERO if has_zero else 0, n]] + sc.lines


def _malformed(rng):
    r = rng.random()
    if r < 0.3:
        return [[1, 0, 1, 0, 0, rng.choice([-1, 201, 5000])], [2, 0, 1, 1]]
    if r < 0.6:
        return [[1, rng.choice([1, 2]), 1, 0, 0, 3], [2, 0, rng.choice([-1, 6, 201, 999]), 1], [2, 1, 0, 2]]
    # duplicate lines, lines outside the cycle range, junk tags
    return [[1, 0, rng.choice([0, 1, 2]), rng.choice([0, 1]), ZERO, 3], [2, 0, 1, 1], [2, 0, 1, 2], [3, 1, 1], [3, 1, 1],
            [2, 7, 3, 4], [9, 9, 9], [3, 2, 44], [2, 2, 2, 8]]


# --------------------------------------------------------------------------- exhaustive small space
def enumerate_cases(prop):
    """All orders of the same multiset of <= 5 events, one event per cycle and two per cycle, with and
    without zero, for the lifted kernel and the node combiner (order independence, exhaustively)."""
    a, b, c, d = 1, 2, 3, 4
    multisets = [
        [("s", a), ("s", b), ("s", c), ("r", a), ("s", a)],
        [("s", a), ("s", b), ("r", a), ("r", b), ("s", c)],
        [("s", a), ("s", b), ("s", c), ("s", d), ("r", b)],
        [("s", a), ("s", b), ("s", c), ("r", a), ("r", c)],
        [("s", a), ("s", a), ("s", b), ("r", a), ("s", c)],
        [("s", a), ("s", b), ("s", c), ("s", d)],
        [("s", a), ("r", a), ("s", b), ("r", b)],
    ]
    out = []
    seen = set()
    for ms in multisets:
        for perm in set(itertools.permutations(ms)):
            for per_cycle in (1, 2):
                for comb in (0, 1):
                    for hz in (0, 1):
                        lines = []
                        bit = 0
                        ncyc = (len(perm) + per_cycle - 1) // per_cycle
                        for i, (op, k) in enumerate(perm):
                            cyc = i // per_cycle
                            if op == "s":
                                lines.append([2, cyc, k, 1 << bit])
                                bit += 1
                            else:
                                lines.append([3, cyc, k])
                        case = [[1, 0, comb, hz, ZERO if hz else 0, ncyc]] + lines
                        key = str(case)
                        if key not in seen:
                            seen.add(key)
                            out.append(case)
    return out


# --------------------------------------------------------------------------- reference semantics of the script
def parse_case(case):
    hdr = None
    for l in case:
        if l and l[0] == 1 and len(l) >= 6:
            hdr = l
    if hdr is None:
        hdr = [1, 0, 0, 0, 0, 0]
    coll = 0 if hdr[1] == 0 else (1 if hdr[1] == 1 else 2)
    return {"coll": coll, "comb": hdr[2] if hdr[2] in (0, 1) else 2, "hz": hdr[3] != 0, "zero": hdr[4], "n": hdr[5],
            "live_zero": hdr[3] == 2}


def zero_states(case, h):
    """Per cycle: (current value of the zero or None, did it tick).  A scalar zero is a constant that ticks in
    cycle 0; a live zero (header field 2) follows its own script of lines `5 cycle value`."""
    out, cur = [], None
    for c in range(max(0, min(h["n"], 200))):
        if not h["hz"]:
            out.append((None, False))
        elif not h["live_zero"]:
            out.append((h["zero"], c == 0))
        else:
            tick = [l[2] for l in case if l[0] == 5 and len(l) >= 3 and l[1] == c]
            if tick:
                cur = tick[-1]
            out.append((cur, bool(tick)))
    return out


def script_states(case):
    """Per cycle: (live dict after the cycle, collection ticked?, value multiset changed?)."""
    h = parse_case(case)
    live, valid = {}, False
    out = []
    for c in range(max(0, min(h["n"], 200))):
        sets, rems, touch = {}, [], False
        for l in case:
            if l[0] == 2 and len(l) >= 4 and l[1] == c:
                sets[l[2]] = l[3]
            elif l[0] == 3 and len(l) >= 3 and l[1] == c:
                rems.append(l[2])
            elif l[0] == 4 and len(l) >= 2 and l[1] == c:
                touch = True
        before = dict(live)
        event = False
        if h["coll"] == 0:
            if sets or rems or touch:
                changed = any(k in live for k in rems) or bool(sets)
                for k in rems:
                    live.pop(k, None)
                live.update(sets)
                # an empty delta validates a dictionary that never ticked; removing only absent keys is not a tick
                event = changed or ((not valid) and not rems)
                valid = valid or event
        else:
            if sets:
                live.update(sets)
                event = True
        out.append((dict(live), event, before != live))
    return h, out


def expected(h, live, zv):
    """zv: the zero's current value, None while a declared zero has not ticked (or no zero is declared)."""
    vals = list(live.values())
    if not vals:
        return (1, zv) if zv is not None else (0, 0)
    if len(vals) == 1:
        if not h["hz"]:
            return (1, vals[0])
        return (1, vals[0] + zv) if zv is not None else (0, 0)   # f(value, zero) needs the zero
    return (1, sum(vals))


def _is_lifted_tsl(h):
    return h["coll"] == 2 and h["comb"] == 0 and not h["hz"]


def oracle(prop, case, out):
    """C11 stated on the implementation's own output: at every tick the result is the fold of the combiner over
    exactly the live values of the script (zero rules by live count), independent of history; the operand log
    never contains the zero once two are live and only ever combines disjoint sets of live values."""
    if isinstance(out, dict):
        return [("crash", str(out)[:200])]
    fails = []
    h, states = script_states(case)
    if any(l and l[0] == 39 for l in out):
        bad = h["n"] < 0 or h["n"] > 200 or (h["live_zero"] and h["coll"] == 2) or (h["coll"] != 0 and any(
            l[0] == 2 and len(l) >= 4 and not (0 <= l[2] <= (200 if h["coll"] == 1 else FIXED - 1)) for l in case))
        if not bad:
            fails.append(("error_line", str([l for l in out if l[0] == 39])))
        return fails
    # beyond 60 elements the values are distinct small integers, not powers of two
    pow2 = all(l[3] > 0 and (l[3] & (l[3] - 1)) == 0 for l in case if l[0] == 2 and len(l) >= 4)
    by_t = {}
    for l in out:
        if len(l) >= 2:
            by_t.setdefault(l[1], []).append(l)
    cur = (0, 0)          # the result as last published
    evaluated_once = False
    zs = zero_states(case, h)
    zmask = (ZERO | (ZERO << 1)) if h["live_zero"] else h["zero"]
    prev_exp = (0, 0)
    for c, (live, event, changed) in enumerate(states):
        t = c + 1
        ls = by_t.get(t, [])
        e32 = [l for l in ls if l[0] == 32]
        e31 = [l for l in ls if l[0] == 31]
        e30 = [l for l in ls if l[0] == 30]
        zv, zero_event = zs[c]
        zc = zv if zv is not None else 0
        exp = expected(h, live, zv)
        if _is_lifted_tsl(h):
            if e31:
                cur = (e31[-1][2], e31[-1][3])
            if event and not e31:
                fails.append(("no_tick", "t=%d the list ticked but the result did not" % t))
        else:
            if (event or zero_event) and not e32:
                fails.append(("missing_eval", "t=%d collection/zero ticked but reduce was not evaluated" % t))
            if len(e32) > 1 or len(e31) > 1:
                fails.append(("spurious_tick", "t=%d evaluated/ticked more than once" % t))
            if e32:
                evaluated_once = True
                l = e32[-1]
                cur = (l[4], l[5])
                if l[2] != len(live):
                    fails.append(("leaf_count", "t=%d leaves=%d live=%d" % (t, l[2], len(live))))
                n = len(live)
                want = n - 1 if n >= 2 else (1 if (n == 1 and h["hz"]) else 0)
                if l[3] != want:
                    fails.append(("combiner_count", "t=%d combiners=%d want %d for %d live" % (t, l[3], want, n)))
                if e31 and (e31[-1][2], e31[-1][3]) != cur:
                    fails.append(("sink_mismatch", "t=%d sink saw %s, node output %s" % (t, e31[-1][2:], cur)))
                if (l[6] != 0) != bool(e31):
                    fails.append(("sink_mismatch", "t=%d modified=%d but sink ticks=%d" % (t, l[6], len(e31))))
            elif e31:
                fails.append(("spurious_tick", "t=%d sink ticked without an evaluation" % t))
            # operand log
            mask = sum(live.values())
            if len(e30) > max(0, len(live) - 1) + (1 if (len(live) == 1 and h["hz"]) else 0):
                fails.append(("too_many_evals", "t=%d %d combiner runs for %d live" % (t, len(e30), len(live))))
            for l in e30:
                lhs, rhs = l[2], l[3]
                if len(live) >= 2 and h["hz"] and (((lhs | rhs) & zmask) if pow2 else (lhs >= ZERO or rhs >= ZERO)):
                    fails.append(("zero_operand", "t=%d zero is an operand with %d live: %d %d" % (t, len(live), lhs, rhs)))
                allowed = mask | (zc if (h["hz"] and len(live) == 1) else 0)
                if not pow2:
                    if lhs <= 0 or rhs <= 0 or lhs + rhs > mask + (zc if (h["hz"] and len(live) == 1) else 0):
                        fails.append(("stale_operand", "t=%d operands %d %d exceed the sum of live values %d" % (t, lhs, rhs, mask)))
                elif (lhs & rhs) or ((lhs | rhs) & ~allowed) or lhs == 0 or rhs == 0:
                    fails.append(("stale_operand", "t=%d operands %d %d are not disjoint sums of live values %d" % (t, lhs, rhs, mask)))
        # the statement itself: the current result is the fold over exactly the live values
        started = evaluated_once or _is_lifted_tsl(h)
        undefined = h["hz"] and len(live) == 1 and zv is None      # f(value, zero) with a zero that has no value yet
        if undefined and cur != (0, 0):
            # observed on the unchanged tree: shrinking from >= 2 live to a singleton while the declared zero has
            # no value leaves the root combiner's OLD output published (a fold that still contains removed
            # elements).  Recorded under its own kind (not a C11 kind here; see docs/notes-reduce.md, finding F1).
            fails.append(("stale_singleton_while_zero_invalid", "t=%d result %s published for singleton %s, zero has no value" % (t, cur, sorted(live.items()))))
        elif cur != exp and (started or exp[0]):
            fails.append(("wrong_value", "t=%d result %s expected %s live=%s zero=%s" % (t, cur, exp, sorted(live.items()), zv)))
        if exp != prev_exp and not undefined and not _is_lifted_tsl(h) and not e31 and e32:
            fails.append(("no_tick", "t=%d the fold changed (%s -> %s) but the result did not tick" % (t, prev_exp, exp)))
        prev_exp = exp
    return fails


def nontrivial(case, out):
    if not isinstance(out, list) or not out:
        return False
    h, states = script_states(case)
    mx = max([len(s[0]) for s in states] + [0])
    removed = any(l[0] == 3 for l in case)
    return mx >= 3 and (removed or h["coll"] != 0) and any(l[0] in (32, 31) for l in out)


def stats(case, out):
    h, states = script_states(case)
    sizes = [len(s[0]) for s in states]
    mx = max(sizes + [0])
    st = {"cases": 1, "cycles": len(states), "sets": sum(1 for l in case if l[0] == 2), "removes": sum(1 for l in case if l[0] == 3),
          "with_zero": int(h["hz"]), "coll_%d" % h["coll"]: 1, "comb_%d" % h["comb"]: 1}
    for b in (2, 3, 5, 9, 17, 33, 65, 129):
        if mx >= b:
            st["reached_%d_live" % b] = 1
    if h["live_zero"]:
        zs = zero_states(case, h)
        st["live_zero"] = 1
        st["live_zero_late_with_2_live"] = int(any(zs[i][0] is None and sizes[i] >= 2 for i in range(len(sizes))))
        st["live_zero_reticks"] = max(0, sum(1 for z in zs if z[1]) - 1)
        st["live_zero_never"] = int(all(z[0] is None for z in zs))
    st["emptied_and_regrew"] = int(any(sizes[i] == 0 and any(x > 0 for x in sizes[:i]) and any(x > 0 for x in sizes[i:]) for i in range(len(sizes))))
    st["singleton_with_zero_cycles"] = sum(1 for s in sizes if s == 1) if h["hz"] else 0
    st["multi_event_cycles"] = sum(1 for c in range(len(states)) if sum(1 for l in case if l[0] in (2, 3) and l[1] == c) >= 2)
    st["same_cycle_remove_and_set"] = sum(1 for l in case if l[0] == 3 and any(m[0] == 2 and m[1] == l[1] and m[2] == l[2] for m in case))
    if isinstance(out, list):
        st["combiner_runs_logged"] = sum(1 for l in out if l[0] == 30)
        st["evaluations"] = sum(1 for l in out if l[0] == 32)
        st["error_lines"] = sum(1 for l in out if l[0] == 39)
        st["shrinks"] = sum(1 for i in range(1, len(sizes)) if sizes[i] < sizes[i - 1])
    else:
        st["crashes"] = 1
    return st


def shrink(case):
    hdr = [l for l in case if l[0] == 1][-1:] or [[1, 0, 0, 0, 0, 0]]
    body = [l for l in case if l[0] != 1]
    h = hdr[0]
    # drop trailing cycles
    if h[5] > 1:
        yield [[1, h[1], h[2], h[3], h[4], h[5] - 1]] + [l for l in body if l[1] < h[5] - 1]
    # drop a whole cycle's lines
    for c in sorted({l[1] for l in body}):
        yield hdr + [l for l in body if l[1] != c]
    # drop one line
    for i in range(len(body)):
        yield hdr + body[:i] + body[i + 1:]
    # merge: pull every later cycle one earlier when a cycle is empty
    used = {l[1] for l in body}
    for c in range(h[5]):
        if c not in used and any(x > c for x in used):
            yield [[1, h[1], h[2], h[3], h[4], h[5] - 1]] + [[l[0], l[1] - 1 if l[1] > c else l[1]] + l[2:] for l in body]
            break
    if h[3]:
        yield [[1, h[1], h[2], 0, 0, h[5]]] + body
