"""Family `delta` (property C20): capture_delta / apply_delta round trips and the real record /
replay operators over run-time generated time-series schemas.

Case lines
  1 mode start end [rstart rend]   mode 0: capture/apply probe, run [start,end)
                                   mode 1: dense record run [start,end), then replay run [rstart,rend)
                                   mode 2: the same through the sparse :memory: recording (recordable_id),
                                           plus the RECOVER seed as of every cycle
  1 3 start end rstart rend split  mode 3: sparse recording continued over two runs [start,split) [split,end)
  2 <schema>                       1=TS<int> 2=SIGNAL 3=TSS<int> 4 e=TSD<int,e> 5 n e=TSL<e,n>
                                   6 k f1..fk=TSB 7 p m=TSW<int,p,m>
  3 t np p1..pn op arg             one mutation at time t through a path (TSD key / TSL,TSB index)
                                   op 1 set v | 2 signal | 3 add k | 4 remove k | 5 touch | 6 clear
                                      7 erase k | 8 create k (no value) | 9 push v
Observation lines (second run of mode 1: code + 100)
  22 t <state>     state of the ticking source as its consumer sees it: [valid modified content..]
  21 t obs <delta> delta_is_observable, canonical delta from capture_delta
  23 t <state>     state of the copy after apply_delta(copy, delta)
  25 t obs <delta> delta captured again from the copy (only if the copy ticked)
  24 t eq cmod deq Value::equals(source.value, copy.value); copy modified; delta.equals(delta2) (-1: none)
  30 i <delta|0>   entry i of the buffer written by the real record node (0 = hole); 130: second run
  31 i t <delta>   entry i of the sparse recording (time t); 131: replay run; 35: after the continuing run
  33 T rv fv eq    RECOVER seed as of T: valid, source valid at T, Value::equals(seed, source value at T)
  28 0             end;  18 1 rejected case;  19 1 exception escaped;  29 t 1 exception in the probe
"""
import random

NAME = "delta"
DRIVER_SRCS = ["delta_driver.cpp"]
MODEL_FAMILY = "delta"
MODE = "diff"
BUDGET = {"quick": 500, "thorough": 150000}

TS, SIGNAL, TSS, TSD, TSL, TSB, TSW = 1, 2, 3, 4, 5, 6, 7

# failure kinds; the first three are distinct, explained deviations (see docs/notes-delta.md)
K_TSB = "tsb_default_validates_unset_field"
K_EMPTY = "empty_tick_not_replayed"
K_UNSET = "unset_child_key_not_replayed"
K_VALUE = "roundtrip_value"
K_DELTA = "roundtrip_delta"
K_TICK = "roundtrip_tick"
K_STREAM = "replay_stream"
K_RECOVER = "recover_state"
K_CONT = "continuation_lost"
K_SHAPE = "malformed_output"
PROP_KINDS = {"C20": {K_TSB, K_EMPTY, K_UNSET, K_VALUE, K_DELTA, K_TICK, K_STREAM, K_RECOVER, K_CONT, K_SHAPE}}


# ---------------------------------------------------------------- shapes
class Sh:
    __slots__ = ("kind", "a", "b", "kids")

    def __init__(self, kind, a=0, b=0, kids=()):
        self.kind, self.a, self.b, self.kids = kind, a, b, list(kids)

    def toks(self):
        if self.kind in (TS, SIGNAL, TSS):
            return [self.kind]
        if self.kind == TSD:
            return [TSD] + self.kids[0].toks()
        if self.kind == TSL:
            return [TSL, self.a] + self.kids[0].toks()
        if self.kind == TSB:
            out = [TSB, len(self.kids)]
            for k in self.kids:
                out += k.toks()
            return out
        return [TSW, self.a, self.b]

    def child(self, p):
        if self.kind == TSD:
            return self.kids[0]
        if self.kind == TSL:
            return self.kids[0] if 0 <= p < self.a else None
        if self.kind == TSB:
            return self.kids[p] if 0 <= p < len(self.kids) else None
        return None

    def is_collection(self):
        return self.kind in (TSS, TSD, TSL, TSB)


def parse_shape(toks, i=0, depth=0):
    if i >= len(toks) or depth > 6:
        raise ValueError("schema")
    k = toks[i]
    if k in (TS, SIGNAL, TSS):
        return Sh(k), i + 1
    if k == TSD:
        e, j = parse_shape(toks, i + 1, depth + 1)
        return Sh(TSD, kids=[e]), j
    if k == TSL:
        n = toks[i + 1]
        if not 1 <= n <= 4:
            raise ValueError("schema")
        e, j = parse_shape(toks, i + 2, depth + 1)
        return Sh(TSL, a=n, kids=[e]), j
    if k == TSB:
        n = toks[i + 1]
        if not 1 <= n <= 4:
            raise ValueError("schema")
        kids, j = [], i + 2
        for _ in range(n):
            c, j = parse_shape(toks, j, depth + 1)
            kids.append(c)
        return Sh(TSB, a=n, kids=kids), j
    if k == TSW:
        p, m = toks[i + 1], toks[i + 2]
        if not (1 <= p <= 6 and 0 <= m <= p):
            raise ValueError("schema")
        return Sh(TSW, a=p, b=m), i + 3
    raise ValueError("schema")


def gen_shape(rng, depth, maxdepth):
    leafy = depth >= maxdepth
    r = rng.random()
    if leafy or r < 0.30:
        r2 = rng.random()
        if r2 < 0.45:
            return Sh(TS)
        if r2 < 0.80:
            return Sh(TSS)
        if r2 < 0.90:
            return Sh(SIGNAL)
        p = rng.randint(1, 4)
        return Sh(TSW, a=p, b=rng.randint(0, p))
    if r < 0.62:
        return Sh(TSD, kids=[gen_shape(rng, depth + 1, maxdepth)])
    if r < 0.76:
        return Sh(TSL, a=rng.randint(1, 3), kids=[gen_shape(rng, depth + 1, maxdepth)])
    n = rng.randint(1, 3)
    return Sh(TSB, a=n, kids=[gen_shape(rng, depth + 1, maxdepth) for _ in range(n)])


# ---------------------------------------------------------------- generator
class Shadow:
    """What the generator believes exists (only used to aim the operations)."""
    second = False

    def __init__(self, sh):
        self.sh = sh
        self.elems = set()          # TSS members / TSD keys
        self.kids = {}              # TSD key / index -> Shadow
        self.touched = False
        self.last_t = None          # last cycle in which this node was modified

    def kid(self, p):
        if p not in self.kids:
            self.kids[p] = Shadow(self.sh.child(p))
        return self.kids[p]


def _init_tsb_fields(sh, sd, path, t, ops):
    """clean histories: when a TSB instance first ticks, tick every still-unset set / dict field too"""
    for i, f in enumerate(sh.kids):
        c = sd.kid(i)
        if f.kind in (TSS, TSD) and not c.touched:
            ops.append((t, path + [i], 5, 0))
            c.touched = True
            c.last_t = t
        elif f.kind == TSB:
            _init_tsb_fields(f, c, path + [i], t, ops)


def _gen_op(rng, sh, sd, path, t, ops, clean, pushes):
    """append one (or a short sequence of) mutation(s) below `path`"""
    first = not sd.touched
    sd.touched = True
    k = sh.kind
    if k == TS:
        ops.append((t, path, 1, rng.randint(0, 9)))
    elif k == SIGNAL:
        ops.append((t, path, 2, 0))
    elif k == TSW:
        key = (t, tuple(path))
        if key in pushes:
            return
        pushes.add(key)
        ops.append((t, path, 9, rng.randint(0, 9)))
    elif k == TSS:
        r = rng.random()
        absent = [x for x in range(6) if x not in sd.elems]
        if (r < 0.55 or not sd.elems) and absent:
            x = rng.choice(absent)
            ops.append((t, path, 3, x))
            sd.elems.add(x)
        elif r < 0.85 and sd.elems:
            x = rng.choice(sorted(sd.elems))
            ops.append((t, path, 4, x))
            sd.elems.discard(x)
        elif r < 0.90 and sd.elems and (not clean or len(sd.elems) > 0):
            ops.append((t, path, 6, 0))
            sd.elems.clear()
        elif first:
            ops.append((t, path, 5, 0))        # explicitly empty first tick validates the set
        elif clean:
            if absent:
                x = rng.choice(absent)
                ops.append((t, path, 3, x))
                sd.elems.add(x)
        else:
            r2 = rng.random()
            if r2 < 0.3:
                ops.append((t, path, 5, 0))    # empty tick on a valid set
            elif r2 < 0.6 and sd.elems:
                x = rng.choice(sorted(sd.elems))
                ops.append((t, path, 4, x))
                ops.append((t, path, 3, x))    # remove + add of one element
            elif r2 < 0.8:
                ops.append((t, path, 4, rng.randint(6, 8)))   # remove of an absent element
            elif sd.elems:
                ops.append((t, path, 3, rng.choice(sorted(sd.elems))))   # add of a present element
    elif k == TSD:
        r = rng.random()
        keys = sorted(sd.elems)
        if r < 0.55 or not keys:
            # child tick on a new or an existing key
            if keys and rng.random() < 0.55:
                x = rng.choice(keys)
            else:
                x = rng.randint(0, 4)
            sd.elems.add(x)
            _gen_op(rng, sh.kids[0], sd.kid(x), path + [x], t, ops, clean, pushes)
            sd.kid(x).last_t = t
        elif r < 0.78:
            x = rng.choice(keys)
            ops.append((t, path, 7, x))
            sd.elems.discard(x)
            sd.kids.pop(x, None)
            if rng.random() < 0.45:
                # remove and re-add of the key in one cycle (the slot is resurrected)
                sd.elems.add(x)
                _gen_op(rng, sh.kids[0], sd.kid(x), path + [x], t, ops, clean, pushes)
                sd.kid(x).last_t = t
        elif r < 0.83 and keys:
            ops.append((t, path, 6, 0))
            sd.elems.clear()
            sd.kids.clear()
        elif first:
            ops.append((t, path, 5, 0))
        elif clean:
            x = rng.randint(0, 4)
            sd.elems.add(x)
            _gen_op(rng, sh.kids[0], sd.kid(x), path + [x], t, ops, clean, pushes)
            sd.kid(x).last_t = t
        else:
            r2 = rng.random()
            if r2 < 0.25:
                ops.append((t, path, 5, 0))                     # empty tick on a valid dict
            elif r2 < 0.45:
                ops.append((t, path, 7, rng.randint(5, 7)))     # lenient erase of an absent key
            elif r2 < 0.65:
                ops.append((t, path, 8, rng.randint(0, 5)))     # key created, child never set
            elif keys:
                # child tick, erase, child tick again in one cycle
                x = rng.choice(keys)
                _gen_op(rng, sh.kids[0], sd.kid(x), path + [x], t, ops, clean, pushes)
                ops.append((t, path, 7, x))
                sd.kids.pop(x, None)
                _gen_op(rng, sh.kids[0], sd.kid(x), path + [x], t, ops, clean, pushes)
    elif k == TSL:
        i = rng.randrange(sh.a)
        _gen_op(rng, sh.kids[0], sd.kid(i), path + [i], t, ops, clean, pushes)
    elif k == TSB:
        if clean and first:
            _init_tsb_fields(sh, sd, path, t, ops)
        i = rng.randrange(len(sh.kids))
        _gen_op(rng, sh.kids[i], sd.kid(i), path + [i], t, ops, clean, pushes)
    sd.last_t = t


def _malformed(rng):
    r = rng.random()
    if r < 0.3:
        return [[1, 0, 1, 8], [2, TSS], [3, 2, 0, 1, 4]]                # set on a set
    if r < 0.5:
        return [[1, 0, 1, 8], [2, TSD, TSL, 9, TS], [3, 2, 0, 5, 0]]    # TSL size out of range
    if r < 0.65:
        return [[1, 0, 1, 8], [2, TS], [3, 9, 0, 1, 4]]                 # time outside the run
    if r < 0.8:
        return [[1, 0, 1, 8], [2, TSB, 2, TS], [3, 2, 1, 0, 1, 4]]      # truncated schema
    if r < 0.9:
        return [[1, 0, 1, 8], [2, TSW, 2, 1], [3, 2, 0, 9, 4], [3, 2, 0, 9, 5]]   # two pushes in one cycle
    return [[1, 1, 3, 3, 1, 5], [2, TS], [3, 3, 0, 1, 4]]               # empty run


def gen(rng, tier, prop):
    if rng.random() < 0.03:
        return _malformed(rng)
    maxdepth = 3
    sh = gen_shape(rng, 1, maxdepth)
    r = rng.random()
    mode = 0 if r < 0.4 else (1 if r < 0.6 else (2 if r < 0.85 else 3))
    clean = rng.random() < 0.6
    start = 1 if rng.random() < 0.7 else rng.randint(2, 5)
    span = rng.randint(4, 12 if tier == "quick" else 20)
    end = start + span
    cycles = [t for t in range(start, end) if rng.random() < rng.choice([0.35, 0.6, 0.9])]
    if not cycles:
        cycles = [rng.randrange(start, end)]
    sd = Shadow(sh)
    ops = []
    pushes = set()
    split = None
    if mode == 3:
        # two recording runs [start,split) and [split,end) continuing one recording
        if end - start < 2:
            end = start + 2
        split = rng.randint(start + 1, end - 1)
    for t in cycles:
        if split is not None and t >= split and sd is not None and not getattr(sd, "second", False):
            sd = Shadow(sh)               # the second run's source starts from fresh state
            sd.second = True
        for _ in range(rng.choice([1, 1, 2, 2, 3, 4])):
            _gen_op(rng, sh, sd, [], t, ops, clean, pushes)
    if mode == 0:
        case = [[1, 0, start, end]]
    elif mode in (2, 3):
        # sparse absolute-time recording: the replay window may start after the first entry and end early
        r = rng.random()
        if r < 0.35:
            rstart = rng.randint(1, cycles[0])
        else:
            rstart = rng.randint(cycles[0], cycles[-1] + 1)
        rend = max(rstart + 1, rng.choice([end, end + 1, rng.randint(rstart + 1, end + 1)]))
        case = [[1, 2, start, end, rstart, rend]] if mode == 2 else [[1, 3, start, end, rstart, rend, split]]
    else:
        rstart = 1 if rng.random() < 0.9 else rng.randint(2, 4)
        rend = rstart + (end - 1) + rng.choice([1, 1, 2, 0, -1 if end > 3 else 1])
        rend = max(rend, rstart + 1)
        case = [[1, 1, start, end, rstart, rend]]
    case.append([2] + sh.toks())
    for (t, path, op, arg) in ops:
        case.append([3, t, len(path)] + list(path) + [op, arg])
    return case


def enumerate_cases(prop):
    """thorough tier: every history of two cycles (second one after a gap) with at most two mutations
    each, over a small alphabet, for a handful of small schemas - all orderings, including every
    erase / re-insert / child-tick interleaving"""
    import itertools
    menus = [
        ([TSS], [([], 3, 0), ([], 3, 1), ([], 4, 0), ([], 4, 1), ([], 5, 0), ([], 6, 0)]),
        ([TSD, TS], [([0], 1, 1), ([0], 1, 2), ([1], 1, 3), ([], 7, 0), ([], 7, 1), ([], 8, 0), ([], 5, 0), ([], 6, 0)]),
        ([TSD, TSS], [([0], 3, 0), ([0], 4, 0), ([0], 3, 1), ([1], 3, 0), ([], 7, 0), ([], 8, 0), ([], 6, 0)]),
        ([TSB, 2, TSS, TS], [([0], 3, 0), ([0], 4, 0), ([0], 5, 0), ([1], 1, 1), ([1], 1, 2)]),
        ([TSD, TSD, TS], [([0, 0], 1, 1), ([0, 1], 1, 2), ([0], 7, 0), ([0], 8, 1), ([], 7, 0), ([1, 0], 1, 3)]),
        ([TSL, 2, TSS], [([0], 3, 0), ([0], 4, 0), ([1], 3, 0), ([1], 5, 0)]),
    ]
    for toks, alpha in menus:
        seqs = [()] + [(a,) for a in alpha] + list(itertools.product(alpha, alpha))
        for s1 in seqs[1:]:
            for s2 in seqs:
                case = [[1, 0, 1, 6], [2] + toks]
                for (path, op, arg) in s1:
                    case.append([3, 1, len(path)] + list(path) + [op, arg])
                for (path, op, arg) in s2:
                    case.append([3, 3, len(path)] + list(path) + [op, arg])
                yield case
    # every replay window over a few fixed sparse recordings (late start, early end)
    hists = [
        ([TS], [(1, [], 1, 10), (2, [], 1, 20), (4, [], 1, 30), (6, [], 1, 40)]),
        ([TSS], [(1, [], 3, 1), (2, [], 3, 2), (4, [], 4, 1), (4, [], 3, 3), (6, [], 6, 0)]),
        ([TSD, TSS], [(2, [1], 3, 1), (3, [2], 3, 2), (3, [1], 3, 3), (5, [], 7, 1), (6, [2], 4, 2)]),
        ([TSW, 2, 1], [(1, [], 9, 1), (3, [], 9, 2), (4, [], 9, 3), (6, [], 9, 4)]),
    ]
    for toks, ops in hists:
        for rs in range(1, 8):
            for re_ in range(rs + 1, 9):
                case = [[1, 2, 1, 8, rs, re_], [2] + toks]
                for (t, path, op, arg) in ops:
                    case.append([3, t, len(path)] + list(path) + [op, arg])
                yield case
    # RECOVER and continuation over dictionaries of composite elements: a key removed and re-created later
    rec = [
        ([TSD, TSS], [(1, [1], 3, 10), (1, [1], 3, 11), (2, [2], 3, 5), (3, [], 7, 1), (5, [1], 3, 12), (6, [2], 4, 5), (7, [], 7, 2), (8, [2], 3, 6)]),
        ([TSD, TSB, 2, TS, TS], [(1, [1, 0], 1, 10), (1, [1, 1], 1, 11), (3, [], 7, 1), (4, [1, 0], 1, 12), (6, [1, 1], 1, 13), (7, [], 7, 1), (8, [1, 1], 1, 14)]),
        ([TSD, TSD, TS], [(1, [1, 1], 1, 10), (2, [1, 2], 1, 11), (4, [], 7, 1), (5, [1, 3], 1, 12), (7, [1], 7, 3), (8, [1, 3], 1, 13)]),
    ]
    for toks, ops in rec:
        body = [[2] + toks] + [[3, t, len(path)] + list(path) + [op, arg] for (t, path, op, arg) in ops]
        yield [[1, 2, 1, 10, 1, 10]] + body
        for split in range(2, 9):
            for rs in (1, split, 9):
                yield [[1, 3, 1, 10, rs, 10, split]] + body


# ---------------------------------------------------------------- decoding of observations
def parse_case(case):
    hdr = None
    sh = None
    ops = []
    for l in case:
        if l[0] == 1:
            hdr = l
        elif l[0] == 2:
            sh, j = parse_shape(l, 1)
            if j != len(l):
                raise ValueError("schema")
        elif l[0] == 3:
            n = l[2]
            ops.append((l[1], l[3:3 + n], l[3 + n], l[4 + n]))
    return hdr, sh, ops


def dec_state(sh, t, i):
    """-> (node, next index); node = dict(valid, mod, v / elems / items / kids)"""
    n = {"valid": t[i], "mod": t[i + 1]}
    i += 2
    k = sh.kind
    if k == TS:
        n["v"] = t[i]
        i += 1
    elif k == SIGNAL:
        pass
    elif k in (TSS, TSW):
        c = t[i]
        n["elems"] = t[i + 1:i + 1 + c]
        if len(n["elems"]) != c:
            raise IndexError
        i += 1 + c
    elif k == TSD:
        c = t[i]
        i += 1
        items = {}
        for _ in range(c):
            key = t[i]
            items[key], i = dec_state(sh.kids[0], t, i + 1)
        n["items"] = items
    elif k == TSL:
        kids = []
        for _ in range(sh.a):
            c, i = dec_state(sh.kids[0], t, i)
            kids.append(c)
        n["kids"] = kids
    elif k == TSB:
        kids = []
        for f in sh.kids:
            c, i = dec_state(f, t, i)
            kids.append(c)
        n["kids"] = kids
    return n, i


def dec_delta(sh, t, i):
    """-> (delta, next); delta None = unset"""
    if t[i] == 0:
        return None, i + 1
    i += 1
    k = sh.kind
    if k in (TS, SIGNAL, TSW):
        return {"v": t[i]}, i + 1
    if k == TSS:
        na = t[i]
        ad = t[i + 1:i + 1 + na]
        i += 1 + na
        nr = t[i]
        rm = t[i + 1:i + 1 + nr]
        if len(ad) != na or len(rm) != nr:
            raise IndexError
        return {"added": ad, "removed": rm}, i + 1 + nr
    if k == TSD:
        nr = t[i]
        rm = t[i + 1:i + 1 + nr]
        i += 1 + nr
        nm = t[i]
        i += 1
        md = {}
        for _ in range(nm):
            key = t[i]
            md[key], i = dec_delta(sh.kids[0], t, i + 1)
        return {"removed": rm, "modified": md}, i
    if k == TSL:
        nm = t[i]
        i += 1
        md = {}
        for _ in range(nm):
            key = t[i]
            md[key], i = dec_delta(sh.kids[0], t, i + 1)
        return {"items": md}, i
    if k == TSB:
        fs = []
        for f in sh.kids:
            d, i = dec_delta(f, t, i)
            fs.append(d)
        return {"fields": fs}, i
    raise IndexError


def _content_equal(sh, a, b):
    """same validity and contents, ignoring the modified flags"""
    if a["valid"] != b["valid"]:
        return False
    k = sh.kind
    if k == TS:
        return (not a["valid"]) or a["v"] == b["v"]
    if k == SIGNAL:
        return True
    if k in (TSS, TSW):
        return a["elems"] == b["elems"]
    if k == TSD:
        return a["items"].keys() == b["items"].keys() and all(
            _content_equal(sh.kids[0], a["items"][x], b["items"][x]) for x in a["items"])
    if k == TSL:
        return all(_content_equal(sh.kids[0], x, y) for x, y in zip(a["kids"], b["kids"]))
    return all(_content_equal(f, x, y) for f, x, y in zip(sh.kids, a["kids"], b["kids"]))


def _empty_delta(sh, d):
    """a delta that carries no change at any depth (unset, or only empty structural deltas)"""
    if d is None:
        return True
    k = sh.kind
    if k == TSS:
        return not d["added"] and not d["removed"]
    if k == TSD:
        return not d["removed"] and all(_empty_delta(sh.kids[0], x) for x in d["modified"].values())
    if k == TSL:
        return all(_empty_delta(sh.kids[0], x) for x in d["items"].values())
    if k == TSB:
        return all(_empty_delta(f, x) for f, x in zip(sh.kids, d["fields"]))
    return False


def _is_empty_collection(sh, n):
    k = sh.kind
    if k == TSS:
        return not n["elems"]
    if k == TSD:
        return not n["items"]
    if k == TSB:
        return all((not c["valid"]) or (f.is_collection() and _is_empty_collection(f, c)) for f, c in zip(sh.kids, n["kids"]))
    if k == TSL:
        return all(not c["valid"] for c in n["kids"])
    return False


def _cycle_info(ops, t):
    """what the script did in cycle t, for the finding signatures: keys erased / created, dicts cleared"""
    erased, created, cleared = set(), set(), set()
    for (tt, path, op, arg) in ops:
        if op == 8 and tt <= t:
            created.add((tuple(path), arg))     # a key created without a value stays unset until it gets one
        if tt != t:
            continue
        if op == 7:
            erased.add((tuple(path), arg))
        elif op == 6:
            cleared.add(tuple(path))
    return {"erased": erased, "created": created, "cleared": cleared, "self": False}


def _diff(sh, a, b, d, out, in_bundle, path=(), cyc=None):
    """explain every difference between the ticking original `a` (its delta `d`) and the re-created `b`;
    appends failure kinds to `out`; returns True when this subtree differs in any way.
    `path`/`cyc`: where we are and what the script did this cycle - findings C and D are only
    recognised when the script really created a key without a value / erased the key this cycle"""
    if cyc is None:
        cyc = {"erased": set(), "created": set(), "cleared": set(), "self": False}
    k = sh.kind
    before = len(out)
    differs = False
    # a collection field of a bundle that never ticked is validated (made valid, empty) on replay
    if in_bundle and k in (TSS, TSD) and not a["valid"] and not a["mod"] and b["valid"] and _is_empty_collection(sh, b):
        out.append(K_TSB)
        return True
    if k == TSD:
        dm = d["modified"] if d else {}
        for key, ca in a["items"].items():
            cb = b["items"].get(key)
            if not ca["valid"] and (cb is None or cyc["self"]) and (path, key) in cyc["created"]:
                out.append(K_UNSET)          # key created without a value: in the value, not in the delta
                differs = True
                continue
            if ca["mod"] and ca["valid"] and key not in dm and d is not None:
                out.append(K_DELTA)          # the child changed this cycle but the dictionary's delta omits it
                differs = True
                continue
            if cb is None:
                out.append(K_VALUE)
                differs = True
                continue
            if _diff(sh.kids[0], ca, cb, dm.get(key), out, False, path + (key,), cyc):
                differs = True
        for key in b["items"]:
            if key not in a["items"]:
                out.append(K_VALUE)
                differs = True
    elif k == TSL:
        di = d["items"] if d else {}
        for i, (ca, cb) in enumerate(zip(a["kids"], b["kids"])):
            if _diff(sh.kids[0], ca, cb, di.get(i), out, False, path + (i,), cyc):
                differs = True
    elif k == TSB:
        df = d["fields"] if d else [None] * len(sh.kids)
        for i, (f, ca, cb, cd) in enumerate(zip(sh.kids, a["kids"], b["kids"], df)):
            if _diff(f, ca, cb, cd, out, True, path + (i,), cyc):
                differs = True
    elif k == TS:
        if a["valid"] != b["valid"] or (a["valid"] and a["v"] != b["v"]):
            out.append(K_VALUE)
            differs = True
    elif k in (TSS, TSW):
        if a["elems"] != b["elems"]:
            out.append(K_VALUE)
            differs = True
    # flags of this node
    explained = len(out) > before
    if a["valid"] != b["valid"] and not explained:
        out.append(K_VALUE)
        differs = True
    if a["mod"] != b["mod"]:
        differs = True
        if not explained:
            if a["mod"] and not b["mod"] and k in (TSS, TSD, TSL, TSB) and _empty_delta(sh, d):
                out.append(K_EMPTY)          # ticked with an empty delta: recorded, not re-created
            else:
                out.append(K_TICK)
    return differs


def _delta_diff(sh, d, d2, out):
    """differences between the captured delta and the one captured again from the copy"""
    if d == d2:
        return
    k = sh.kind
    if d is None or d2 is None:
        if _empty_delta(sh, d) and _empty_delta(sh, d2):
            return
        out.append(K_DELTA)
        return
    if k == TSD:
        if d["removed"] != d2["removed"]:
            out.append(K_DELTA)
        for key in set(d["modified"]) | set(d2["modified"]):
            x, y = d["modified"].get(key), d2["modified"].get(key)
            if x is not None and y is None and _empty_delta(sh.kids[0], x) and sh.kids[0].is_collection():
                out.append(K_EMPTY)          # an empty child tick is in the delta but is not re-created
            elif x is None or y is None:
                out.append(K_DELTA)
            else:
                _delta_diff(sh.kids[0], x, y, out)
    elif k == TSL:
        for key in set(d["items"]) | set(d2["items"]):
            x, y = d["items"].get(key), d2["items"].get(key)
            if x is not None and y is None and _empty_delta(sh.kids[0], x) and sh.kids[0].is_collection():
                out.append(K_EMPTY)
            elif x is None or y is None:
                out.append(K_DELTA)
            else:
                _delta_diff(sh.kids[0], x, y, out)
    elif k == TSB:
        for f, x, y in zip(sh.kids, d["fields"], d2["fields"]):
            _delta_diff(f, x, y, out)
    else:
        out.append(K_DELTA)


def _lines(impl_out, code):
    return {l[1]: l[2:] for l in impl_out if l and l[0] == code}


# ---------------------------------------------------------------- the property, on the implementation's output
def oracle(prop, case, impl_out):
    if isinstance(impl_out, dict):
        return [("crash", str(impl_out)[:200])]
    try:
        hdr, sh, ops = parse_case(case)
    except Exception:
        return []
    if impl_out == [[18, 1]] or sh is None or hdr is None:
        return []
    fails = []
    if any(l and l[0] in (19, 29, 129) for l in impl_out):
        fails.append((K_SHAPE, "exception escaped: %s" % [l for l in impl_out if l[0] in (19, 29, 129)][:2]))
    try:
        probe_diverged_at = None
        if True:
            # every recording run carries the round-trip probe (modes 0-3)
            src, dl, cp, dl2, cmp_ = (_lines(impl_out, c) for c in (22, 21, 23, 25, 24))
            in_sync = True
            split = hdr[6] if hdr[1] == 3 and len(hdr) >= 7 else None
            resynced = False
            for t in sorted(src):
                if split is not None and t >= split and not resynced:
                    in_sync, resynced = True, True          # the second run starts from fresh state
                # the statement is about a copy of the PRE-tick state: once the copy has diverged
                # (reported at that tick) later ticks say nothing
                if not in_sync:
                    if split is not None and t < split:
                        continue
                    break
                a, _ = dec_state(sh, src[t], 0)
                if not a["mod"] or t not in dl:
                    fails.append((K_SHAPE, "t=%d probe ran without a tick" % t))
                    continue
                d, _ = dec_delta(sh, dl[t], 1)
                if t not in cp or t not in cmp_:
                    fails.append((K_SHAPE, "t=%d incomplete probe output" % t))
                    continue
                b, _ = dec_state(sh, cp[t], 0)
                eq, cmod, deq = cmp_[t]
                kinds = []
                # post == apply(pre, delta): same validity, contents and ticks everywhere
                differs = _diff(sh, a, b, d, kinds, False, (), _cycle_info(ops, t))
                if (not eq or differs) and not kinds:
                    kinds.append(K_VALUE)
                # delta2 == delta
                if cmod:
                    d2, _ = dec_delta(sh, dl2[t], 1)
                    dk = []
                    _delta_diff(sh, d, d2, dk)
                    if not deq and not dk and not kinds:
                        dk.append(K_DELTA)
                    kinds += [x for x in dk if x not in kinds or x == K_DELTA]
                for kd in sorted(set(kinds)):
                    fails.append((kd, "t=%d eq=%d copy_modified=%d delta_eq=%d" % (t, eq, cmod, deq)))
                in_sync = _content_equal(sh, a, b)
                if not in_sync and probe_diverged_at is None:
                    probe_diverged_at = t
        if hdr[1] != 0:
            rstart, rend = (hdr[4], hdr[5]) if len(hdr) >= 6 else (1, hdr[3])
            shift = rstart - 1
            src, dl = _lines(impl_out, 22), _lines(impl_out, 21)
            rsrc, rdl = _lines(impl_out, 122), _lines(impl_out, 121)
            buf, buf2 = _lines(impl_out, 30), _lines(impl_out, 130)
            if hdr[1] == 2:
                # RECOVER: the seed as of T (fold of the recorded deltas up to T) is the source's state at T
                for l in impl_out:
                    if l and l[0] == 33 and not l[4]:
                        if probe_diverged_at is None or probe_diverged_at > l[1]:
                            fails.append((K_RECOVER, "recovered seed as of t=%d differs from the recorded stream's state (valid %d/%d)" % (l[1], l[2], l[3])))
                            break
            if hdr[1] == 3:
                # continuation: the second run appends to the first run's recording
                first = [l[2:] for l in impl_out if l and l[0] == 31]
                final = [l[2:] for l in impl_out if l and l[0] == 35]
                second = [[t] + dl[t][1:] for t in sorted(src) if t >= hdr[6]]
                if final != first + second:
                    fails.append((K_CONT, "recording after the second run is not first run (%d entries) ++ second run (%d ticks): %d entries" % (len(first), len(second), len(final))))
            if hdr[1] >= 2:
                # the sparse recording keeps absolute times: one (time, delta) entry per tick, in order;
                # seen as a cycle-aligned buffer it obeys the same statements with no shift
                sb = [l for l in impl_out if l and l[0] == (31 if hdr[1] == 2 else 35)]
                sb2 = [l for l in impl_out if l and l[0] == 131]
                times = [l[2] for l in sb]
                if times != sorted(src) or [l[1] for l in sb] != list(range(len(sb))):
                    fails.append((K_STREAM, "sparse recording %s is not one entry per tick %s" % (times, sorted(src))))
                buf = {i: [0] for i in range(max(times))} if times else {}
                for l in sb:
                    buf[l[2] - 1] = l[3:]
                buf2 = {i: [0] for i in range(max(l[2] for l in sb2))} if sb2 else {}
                for l in sb2:
                    buf2[l[2] - 1] = l[3:]
                shift = 0
                if (times and rstart > times[0]) or hdr[1] == 3:
                    # a replay window that starts after the first entry: the deltas are applied to an
                    # output without the earlier history, so only this much is demanded of it: it
                    # ticks in recorded cycles of the window only (an older entry is never applied)
                    for rt in sorted(rsrc):
                        if rt not in src or rt < rstart or rt >= rend:
                            fails.append((K_STREAM, "replay window [%d,%d): ticked at %d, not a recorded cycle of the window" % (rstart, rend, rt)))
                    for l in sb2:
                        if l[2] not in src or l[2] < rstart:
                            fails.append((K_STREAM, "re-recorded entry at %d outside the replay window" % l[2]))
                    src, rsrc, buf, buf2 = {}, {}, {}, {}
            # the recording is cycle aligned: entry i is the observable tick at MIN_ST + i
            for t in sorted(src):
                obs = dl[t][0]
                ent = buf.get(t - 1)
                if obs and ent != dl[t][1:]:
                    fails.append((K_STREAM, "t=%d recorded entry differs from the captured delta" % t))
            for i, ent in buf.items():
                if ent != [0] and (i + 1 not in dl or not dl[i + 1][0]):
                    fails.append((K_STREAM, "buffer entry %d without a tick" % i))
            # replaying reproduces the same cycles, deltas and values (up to the end of the replay run)
            diverged_at = None
            for t in sorted(src):
                if t + shift >= rend or not dl[t][0]:
                    continue
                if diverged_at is not None:
                    break
                a, _ = dec_state(sh, src[t], 0)
                d, _ = dec_delta(sh, dl[t], 1)
                rt = t + shift
                if rt not in rsrc:
                    # a change that the captured delta does not carry (K_UNSET / K_RESURRECT)?
                    kinds = []
                    _diff(sh, a, a, d, kinds, False, (), dict(_cycle_info(ops, t), self=True))
                    if kinds:
                        for kd in sorted(set(kinds)):
                            fails.append((kd, "t=%d not replayed" % t))
                        diverged_at = t
                    elif _empty_delta(sh, d) and a["valid"]:
                        fails.append((K_EMPTY, "t=%d ticked with an empty delta; recorded, not replayed" % t))
                    else:
                        fails.append((K_STREAM, "t=%d tick missing from the replay" % t))
                        diverged_at = t
                    continue
                b, _ = dec_state(sh, rsrc[rt], 0)
                kinds = []
                differs = _diff(sh, a, b, d, kinds, False, (), _cycle_info(ops, t))
                if differs and not kinds:
                    kinds.append(K_VALUE)
                if not _content_equal(sh, a, b):
                    diverged_at = t
                d2, _ = dec_delta(sh, rdl[rt], 1)
                dk = []
                _delta_diff(sh, d, d2, dk)
                kinds += dk
                for kd in sorted(set(kinds)):
                    fails.append((kd if kd not in (K_VALUE, K_DELTA, K_TICK) else K_STREAM,
                                  "t=%d replayed tick differs (%s)" % (t, kd)))
            for rt in sorted(rsrc):
                if rt - shift not in src and (diverged_at is None or rt - shift <= diverged_at):
                    fails.append((K_STREAM, "replay ticked at %d where the original did not" % rt))
            # recording the replay gives the recording back
            if shift == 0:
                n = min(len(buf), rend - 1)
                if diverged_at is not None:
                    n = min(n, diverged_at - 1)
                for i in range(n):
                    x, y = buf.get(i), buf2.get(i, [0])
                    if x != y:
                        if x != [0] and y == [0] and i + 1 in dl:
                            a, _ = dec_state(sh, src[i + 1], 0)
                            d, _ = dec_delta(sh, dl[i + 1], 1)
                            if _empty_delta(sh, d) and a["valid"]:
                                fails.append((K_EMPTY, "entry %d: empty delta recorded, hole after replay" % i))
                                continue
                        if x != [0] and y != [0]:
                            dx, _ = dec_delta(sh, x, 0)
                            dy, _ = dec_delta(sh, y, 0)
                            dk = []
                            _delta_diff(sh, dx, dy, dk)
                            if dk and all(kd == K_EMPTY for kd in dk):
                                fails.append((K_EMPTY, "entry %d: empty child delta not re-created" % i))
                                continue
                        fails.append((K_STREAM, "entry %d of the re-recorded buffer differs" % i))
    except (IndexError, KeyError, ValueError, TypeError) as e:
        fails.append((K_SHAPE, "undecodable output: %r" % (e,)))
    # one entry per kind is enough
    seen, out = set(), []
    for kd, det in fails:
        if kd not in seen:
            seen.add(kd)
            out.append((kd, det))
    return out


def nontrivial(case, impl_out):
    if not isinstance(impl_out, list):
        return False
    ticks = sum(1 for l in impl_out if l and l[0] == 22)
    try:
        hdr, sh, ops = parse_case(case)
    except Exception:
        return False
    interesting = any(op in (4, 6, 7) or path for (_, path, op, _) in ops)
    return ticks >= 2 and interesting


def stats(case, impl_out):
    st = {}

    def add(k, v=1):
        st[k] = st.get(k, 0) + v
    if not isinstance(impl_out, list):
        add("crashed")
        return st
    if impl_out == [[18, 1]]:
        add("rejected_cases")
        return st
    try:
        hdr, sh, ops = parse_case(case)
    except Exception:
        add("undecodable_cases")
        return st
    add("mode%d_cases" % hdr[1])
    names = {TS: "TS", SIGNAL: "SIGNAL", TSS: "TSS", TSD: "TSD", TSL: "TSL", TSB: "TSB", TSW: "TSW"}

    def walk(s, depth):
        add("shape_" + names[s.kind])
        st["max_depth"] = max(st.get("max_depth", 0), depth)
        for c in s.kids:
            walk(c, depth + 1)
    md = st.get("max_depth", 0)
    walk(sh, 1)
    add("depth%d_cases" % st["max_depth"])
    st["max_depth"] = 0   # summed by the orchestrator: keep it neutral
    add("ops", len(ops))
    for (_, path, op, _) in ops:
        add("op_%d" % op)
        if path:
            add("nested_ops")
    ts = sorted({t for (t, _, _, _) in ops})
    add("tick_cycles", len(ts))
    add("gaps", sum(1 for x, y in zip(ts, ts[1:]) if y > x + 1))
    if hdr[2] > 1:
        add("late_start_cases")
    by_t = {}
    for (t, path, op, arg) in ops:
        by_t.setdefault(t, []).append((tuple(path), op, arg))
    for t, l in by_t.items():
        erased = set()
        for (path, op, arg) in l:
            if op == 7:
                erased.add(path + (arg,))
            elif any(path[:len(e)] == e for e in erased):
                add("remove_readd_same_cycle")
                break
    if hdr[1] == 2:
        ets = [l[2] for l in impl_out if l and l[0] == 31]
        add("sparse_entries", len(ets))
        if ets and len(hdr) >= 6:
            if hdr[4] > ets[0]:
                add("sparse_late_window_cases")
                add("sparse_entries_older_than_window", sum(1 for x in ets if x < hdr[4]))
            if hdr[5] <= ets[-1]:
                add("sparse_early_end_cases")
    for l in impl_out:
        if l[0] in (21, 121):
            try:
                d, _ = dec_delta(sh, l, 3)
                if _empty_delta(sh, d):
                    add("empty_structural_deltas")
                if d and sh.kind == TSD and d["removed"]:
                    add("ticks_with_removed_keys")
                if d and sh.kind == TSS and d["removed"]:
                    add("ticks_with_removed_elems")
            except Exception:
                pass
        if l[0] == 33:
            add("recover_queries")
            if l[4]:
                add("recover_exact")
        if l[0] == 35:
            add("continued_recording_entries")
        if l[0] == 30 and l[2:] == [0]:
            add("buffer_holes")
        if l[0] == 30 and l[2:] != [0]:
            add("buffer_ticks")
        if l[0] == 122:
            add("replayed_ticks")
        if l[0] == 24:
            add("roundtrips")
            if l[2] == 1 and l[3] == 1 and l[4] == 1:
                add("roundtrips_exact")
    for kd, _ in oracle("C20", case, impl_out):
        add("oracle_" + kd)
    return st


def shrink(case):
    ops = [i for i, l in enumerate(case) if l[0] == 3]
    # drop whole cycles, then single operations, then lower values
    times = sorted({case[i][1] for i in ops})
    for t in times:
        yield [l for l in case if not (l[0] == 3 and l[1] == t)]
    for i in ops:
        yield case[:i] + case[i + 1:]
    for i in ops:
        l = case[i]
        if l[-1] > 0 and l[-2] in (1, 9):
            yield case[:i] + [l[:-1] + [0]] + case[i + 1:]
