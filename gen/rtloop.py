"""Family `rtloop` (property C17): the real real-time executor under a virtual wall clock and
named sync points (hook mode), or free running on the real clock.

Case lines
  1 start end slice virt v0 dflt     window [start,end), max_wait_slice, virt=1: virtual clock starting at v0 whose
                                     readings advance by the scripted deltas (line 2) and then by dflt per reading;
                                     virt=0: real clock, every time is rebased so that v0 = the real time at case start
  6 nnodes                           timer nodes 1..nnodes (node 0 is a push source)
  2 d1 d2 ...                        clock deltas (virt)
  3 node k kind arg                  op of timer node in its k-th evaluation (k=-1 start hook, k=-2 default)
        1 schedule(now+arg)   2 schedule(arg, on_wall_clock)   3 schedule(TimeDelta arg, on_wall_clock)
        4 schedule(arg)       5 request_stop() from the node   6 work: clock += arg (virt) / sleep arg us (free)
        7 clock.now()
  4 code occ kind ncode nocc         (virt) arrival: after the occ-th loop event `code` a thread calls
                                     kind 1 mark_push_update_pending() / 2 request_stop(); its notify_all is held back
                                     until the nocc-th event ncode (ncode=0: not held back).  code 13 = inside the wait.
  5 delay kind [early]               (free) arrival `delay` real us after the graph started (early=1: after graph.start
                                     was ENTERED, i.e. while start hooks run; run_storage's reset is already behind)
  7 1                                request_stop() is called before run() is entered
  8 1                                a second node in the push-source prefix: a push-kind "heartbeat" (script id 0) owning a
                                     raw timer; op kind 8 arg = graph.schedule_node(self, now+arg), made only when it holds
                                     no future wake-up.  It is evaluated when due and whenever a push is pending.
Observation lines (first line 90 mode)
  hook mode (1): 9 i start hook of node i begins | 10 started | 11 loop body entered | 12 w clock reading in advance_realtime | 13 about to wait_for
     14 wait_for returned | 15 t advance_realtime returned t | 16 t graph.evaluate(t) entered | 17 push source evaluated
     18 i k timer node i runs (k-th) | 19 i kind arg eff n w1 w2 request, entered under eff (0: ignored), readings made
     20 evaluate returned | 23 nx graph.next_scheduled_time() after the cycle (-1 none) | 21 run returned | 22 w node read the clock
     30 push: critical section | 31 push: notify_all done | 32 stop: critical section | 33 stop: notify_all done
     40 waiter woken only by its slice time-out although notified | 96..99 harness trouble
  free mode (0): 10 | 16 t w | 17 | 18 i k | 19 i kind arg eff 0 wb wa | 20 w | 21 w | 36 kind call begins | 35 kind call returned
"""
import random

NAME = "rtloop"
DRIVER_SRCS = ["rtloop_driver.cpp"]
MODEL_FAMILY = "rtloop"
PIPE = True
BUDGET = {"quick": 170, "thorough": 3000}
MAX_DRAIN = 1024
MAX_DT = 10413792000000000

PLACE = [9, 10, 11, 12, 13, 13, 13, 13, 15, 16, 17, 18, 18, 20]


# ---------------------------------------------------------------- generation
def _clock_script(rng, span, style):
    n = rng.randint(0, 24)
    small = max(1, span // 12)
    out = []
    for _ in range(n):
        if style == "slow":
            out.append(rng.choice([0, 1, 1, 2, small]))
        elif style == "fast":
            out.append(rng.randint(span // 4 + 1, span + 5))
        elif style == "stuck":
            out.append(0 if rng.random() < 0.7 else rng.randint(1, span))
        else:
            out.append(rng.choice([0, 1, 2, small, small * 3, span // 2 + 1, span + 3]))
    return out


def _timer_ops(rng, v0, start, end, span, nnodes, lines, allow_stop=True):
    for i in range(1, nnodes + 1):
        # start hook
        r = rng.random()
        if r < 0.55:
            lines.append([3, i, -1, 1, rng.choice([0, 0, 1, 2, span // 5 + 1, span // 2])])
        elif r < 0.70:
            lines.append([3, i, -1, 2, v0 + rng.choice([-50, -1, 0, 1, 5, span // 3])])      # wall alarm, maybe already due
        elif r < 0.80:
            lines.append([3, i, -1, 3, rng.choice([1, 2, 10, span // 4 + 1])])
        elif r < 0.88:
            lines.append([3, i, -1, 4, start + rng.choice([-3, 0, 1, span // 3, span + 10])])
        if rng.random() < 0.25:
            lines.append([3, i, -1, rng.choice([1, 2, 3]), rng.choice([1, 3, 9])] if rng.random() < 0.5
                         else [3, i, -1, 2, start + rng.randint(0, span)])
        # default script
        r = rng.random()
        if r < 0.45:
            lines.append([3, i, -2, 1, rng.choice([1, 1, 1, 2, 3, 7, span // 6 + 1])])
        elif r < 0.60:
            lines.append([3, i, -2, 3, rng.choice([1, 2, 5, span // 8 + 1])])
        elif r < 0.70:
            lines.append([3, i, -2, 2, rng.randint(start - 5, end + 5)])
        if rng.random() < 0.2:
            lines.append([3, i, -2, 6, rng.choice([1, 3, span // 5 + 1, span])])                 # a slow evaluation
        if rng.random() < 0.1:
            lines.append([3, i, -2, 7, 0])
        # specific evaluations
        for k in range(rng.randint(0, 3)):
            if rng.random() < 0.6:
                for _ in range(rng.randint(1, 3)):
                    r = rng.random()
                    if r < 0.35:
                        lines.append([3, i, k, 1, rng.choice([-1, 0, 1, 1, 2, 4, span // 4 + 1])])
                    elif r < 0.55:
                        lines.append([3, i, k, 2, rng.randint(start - 20, end + 5)])
                    elif r < 0.68:
                        lines.append([3, i, k, 3, rng.choice([1, 1, 3, span // 5 + 1])])
                    elif r < 0.78:
                        lines.append([3, i, k, 4, rng.randint(start - 2, end + 2)])
                    elif r < 0.90:
                        lines.append([3, i, k, 6, rng.choice([1, 2, span // 3 + 1, span + 1])])
                    elif r < 0.95 and allow_stop:
                        lines.append([3, i, k, 5, 0])
                    else:
                        lines.append([3, i, k, 7, 0])


def _gen_virt(rng, tier):
    v0 = rng.choice([1000, 5000, 20000]) + rng.randint(0, 50)
    span = rng.choice([8, 20, 40, 90, 200, 500])
    start = v0 + rng.choice([-2 * span, -span // 2, -3, 0, 0, 1, 4, span // 3, span])
    if start < 2:
        start = 2
    end = start + span
    slice_ = rng.choice([1, 2, 5, 20, 100])
    style = rng.choice(["slow", "fast", "stuck", "mixed", "mixed"])
    dflt = rng.choice([1, 1, 2, max(1, span // 10), max(1, span // 3)])
    nnodes = rng.choice([0, 1, 1, 1, 2, 2, 3])
    lines = [[1, start, end, slice_, 1, v0, dflt], [6, max(1, nnodes)]]
    ds = _clock_script(rng, span, style)
    if ds:
        lines.append([2] + ds)
    if nnodes:
        _timer_ops(rng, v0, start, end, span, nnodes, lines)
    nact = rng.choice([0, 1, 1, 2, 2, 3])
    have_stop = False
    for _ in range(nact):
        code = rng.choice(PLACE)
        occ = rng.choice([1, 1, 1, 2, 2, 3, 4, 6])
        kind = 2 if (rng.random() < 0.3 and not have_stop) else 1
        have_stop = have_stop or kind == 2
        if rng.random() < 0.3:
            ncode = rng.choice(PLACE + [14, 21])
            nocc = rng.choice([1, 1, 2, 3, 5])
        else:
            ncode, nocc = 0, 0
        lines.append([4, code, occ, kind, ncode, nocc])
    return lines


def _gen_drain(rng, tier):
    """A graph re-scheduling itself every smallest step with the wall clock already past end: the drain bound.
    Variants: an unbroken chain (cut after 1024 cycles), a chain broken by one larger step (counter resets)."""
    start = 1000
    span = rng.choice([1040, 1100, 1300])
    end = start + span
    if rng.random() < 0.4:
        # the wall clock stands exactly at end_time (boundary of "past end")
        v0, dflt = end, 0
    else:
        v0, dflt = 50000, 1
    lines = [[1, start, end, 10, 1, v0, dflt], [6, 1], [3, 1, -1, 1, 0], [3, 1, -2, 1, 1]]
    if rng.random() < 0.5:
        k = rng.randint(3, 400)
        lines.append([3, 1, k, 1, rng.choice([2, 3])])
    return lines


def drain_guard_case(m, k, jump_at_end, tail=0):
    """A source re-arming itself every MIN_TD for m cycles, then asking for an ORDINARY wake-up +k (k > 1, due before
    end) while the wall clock is past end_time: with m >= 1024 the consecutive-cycle counter is at the drain bound, but
    the cut does not apply (the rule does not advance by the smallest step): the wake-up must still be evaluated.
    jump_at_end: the wall clock follows logical time and jumps past end in cycle m; else it is past end throughout
    (then m must be <= 1024 or the chain itself is cut).  tail: further MIN_TD steps after the ordinary wake-up."""
    start = 1000
    end = start + m + k + tail + 40
    if jump_at_end:
        head = [1, start, end, 10, 1, start + 1, 1]
    else:
        head = [1, start, end, 10, 1, end + 500, 1]
    lines = [head, [6, 1], [3, 1, -1, 1, 0], [3, 1, -2, 1, 1]]
    if jump_at_end:
        lines.append([3, 1, m, 6, m + k + tail + 5000])
    lines.append([3, 1, m, 1, k])
    if tail == 0:
        lines.append([3, 1, m + 1, 6, 0])          # the ordinary wake-up is the last one
    else:
        lines.append([3, 1, m + 1 + tail, 6, 0])
    return lines


def _gen_drain_guard(rng, tier):
    jump = rng.random() < 0.7
    if jump:
        m = rng.choice([1020, 1023, 1024, 1024, 1025, 1040, 1100])
    else:
        m = rng.choice([1022, 1023, 1024, 1024])
    return drain_guard_case(m, rng.choice([2, 3, 7, 30]), jump, rng.choice([0, 0, 3]))


def stop_in_start_case(variant, nnodes=2, who=1, deferred=0, kind=2):
    """A stop (kind 2; or a push, kind 1) requested DURING the start phase, after run_storage's reset:
       'own'    : from the start hook of node `who` (hook mode)
       'other'  : from another thread while the start hook of node `who` is executing (hook mode, event 9)
       'after'  : from another thread when graph.start has just returned, still inside the Start phase (event 10)
       'fown'   : free running, from the node's own start hook
       'fother' : free running, from another thread while a start hook sleeps."""
    if variant in ('fown', 'fother'):
        lines = [[1, 1000000, 1060000, 10000000, 0, 1000000, 0], [6, nnodes]]
    else:
        lines = [[1, 1000, 1200, 7, 1, 1000, 3], [6, nnodes]]
    far = 20000 if variant in ('fown', 'fother') else 40
    for i in range(1, nnodes + 1):
        if variant == 'fother' and i == who:
            lines.append([3, i, -1, 6, 30000])            # the start hook takes 30 ms
        if variant in ('own', 'fown') and i == who:
            lines.append([3, i, -1, 1, 0])
            lines.append([3, i, -1, 5, 0])                 # request_stop() from the start hook
            lines.append([3, i, -1, 1, far])
        else:
            lines.append([3, i, -1, 1, 0])
        lines.append([3, i, -2, 1, far])
    if variant == 'other':
        lines.append([4, 9, who, kind, 13 if deferred else 0, 1 if deferred else 0])
    elif variant == 'after':
        lines.append([4, 10, 1, kind, 0, 0])
    elif variant == 'fother':
        lines.append([5, 3000, kind, 1])
    return lines


def _gen_stop_in_start(rng, tier):
    v = rng.choice(['own', 'own', 'other', 'other', 'other', 'after', 'fown', 'fother'])
    n = rng.choice([1, 2, 3])
    return stop_in_start_case(v, n, rng.randint(1, n), rng.random() < 0.3, 2 if rng.random() < 0.8 else 1)


def heartbeat_case(free, period, first, pushes, span, nnodes=0, slow=True):
    """A push-kind heartbeat with a raw timer next to the push source; pushes land before / at / after its instants.
    Every push evaluates the whole push-source prefix, i.e. also the heartbeat while it holds a future wake-up."""
    if free:
        lines = [[1, 1000000, 1000000 + span, 10000000, 0, 1000000, 0], [6, max(1, nnodes)], [8, 1]]
    else:
        lines = [[1, 1000, 1000 + span, 7, 1, 1000, 1 if slow else max(1, period // 3)], [6, max(1, nnodes)], [8, 1]]
    lines.append([3, 0, -1, 8, first])
    lines.append([3, 0, -2, 8, period])
    for i in range(1, nnodes + 1):
        lines.append([3, i, -1, 1, 0])
        lines.append([3, i, -2, 1, period + 3 * i])
    for p in pushes:
        lines.append(([5, p, 1] if free else [4] + list(p)))
    return lines


def _gen_heartbeat(rng, tier):
    if rng.random() < 0.25:
        period = rng.choice([8000, 12000])
        span = rng.choice([40000, 60000])
        pushes = sorted(rng.randint(500, span - 2000) for _ in range(rng.randint(1, 4)))
        return heartbeat_case(True, period, rng.choice([0, 3000]), pushes, span, rng.choice([0, 0, 1]))
    period = rng.choice([6, 11, 25, 40])
    span = period * rng.randint(4, 9) + rng.randint(0, 5)
    pushes = []
    for _ in range(rng.randint(1, 5)):
        code = rng.choice([13, 13, 13, 13, 16, 18, 20, 11, 15])
        pushes.append((code, rng.randint(1, 12), 1, 0, 0) if rng.random() < 0.8
                      else (code, rng.randint(1, 12), 1, rng.choice([13, 14, 20]), rng.randint(1, 6)))
    return heartbeat_case(False, period, rng.choice([0, 0, 2, period]), pushes, span, rng.choice([0, 0, 1, 2]),
                          rng.random() < 0.7)


def join_case(free, ta2, db, t, span, nnodes=0, push=None):
    """The one wired shape (case line 9 ta2 db t): sources A, B and a join J (a active, b passive, default gate) that arms
    a NodeScheduler timer at start+t in its start hook.  A ticks in the start cycle and at +ta2, B at +db (db < 0: never):
    a tick of a while b is still invalid notifies J, which is gated out - its timer must stay armed and fire at start+t."""
    if free:
        lines = [[1, 1000000, 1000000 + span, 10000000, 0, 1000000, 0], [6, max(1, nnodes)]]
    else:
        lines = [[1, 1000, 1000 + span, 7, 1, 1000, max(1, t // 9)], [6, max(1, nnodes)]]
    lines.append([9, ta2, db, t])
    for i in range(1, nnodes + 1):
        lines.append([3, i, -1, 1, 0])
        lines.append([3, i, -2, 1, t // 2 + i])
    if push is not None:
        lines.append([5, push, 1] if free else [4, 13, push, 1, 0, 0])
    return lines


def _gen_join(rng, tier):
    if rng.random() < 0.25:
        t = rng.choice([15000, 25000])
        return join_case(True, rng.choice([0, 4000, 9000]), rng.choice([-1, 7000, t + 3000]), t, t + 15000,
                         rng.choice([0, 1]), rng.choice([None, 3000]))
    t = rng.choice([20, 45, 90])
    return join_case(False, rng.choice([0, 3, t // 3, t - 1]), rng.choice([-1, -1, t // 2, t + 5, 1]), t, t + rng.randint(10, 60),
                     rng.choice([0, 0, 1]), rng.choice([None, None, 1, 3]))


def _gen_lag_end(rng, tier):
    """The wall clock passes end while the graph still has work at exact logical times; steps of 1 and more."""
    v0 = 3000
    start = v0 - rng.choice([0, 10, 200])
    span = rng.choice([12, 30, 60])
    end = start + span
    lines = [[1, start, end, 3, 1, v0, rng.choice([1, 5, span])], [6, 2],
             [2] + [rng.choice([0, 1, span // 2, span, 2 * span]) for _ in range(rng.randint(1, 8))],
             [3, 1, -1, 1, 0], [3, 1, -2, 1, 1], [3, 2, -1, 1, rng.choice([0, 2, 5])], [3, 2, -2, 1, rng.choice([2, 3, 5])]]
    if rng.random() < 0.5:
        lines.append([4, rng.choice([11, 15, 16, 18]), rng.randint(1, 8), rng.choice([1, 1, 2]), 0, 0])
    return lines


def _gen_idle(rng, tier):
    """Nothing scheduled: the loop waits for end_time in slices; pushes and stops arrive inside the waits."""
    v0 = 7000
    start = v0 + rng.choice([-5, 0, 3])
    span = rng.choice([20, 60, 150])
    end = start + span
    lines = [[1, start, end, rng.choice([1, 4, 15]), 1, v0, rng.choice([1, 2, 5, span // 4 + 1])], [6, 1]]
    ds = _clock_script(rng, span, rng.choice(["slow", "stuck", "mixed"]))
    if ds:
        lines.append([2] + ds)
    have_stop = False
    for _ in range(rng.randint(1, 3)):
        kind = 2 if (rng.random() < 0.35 and not have_stop) else 1
        have_stop = have_stop or kind == 2
        if rng.random() < 0.35:
            nc, no = rng.choice([13, 14, 12, 15, 16, 21]), rng.randint(1, 4)
        else:
            nc, no = 0, 0
        lines.append([4, 13, rng.randint(1, 5), kind, nc, no])
    return lines


def nowake_case(first_kind):
    """Long slices: a waiter that is not woken by the notify would sleep for seconds."""
    lines = [[1, 1000, 1000 + 400000000, 20000000, 1, 1000, 120000000], [6, 1]]
    if first_kind == 1:
        lines += [[4, 13, 1, 1, 0, 0], [4, 13, 2, 2, 0, 0]]
    else:
        lines += [[4, 13, 1, 2, 0, 0]]
    return lines


def _gen_free(rng, tier):
    v0 = 1000000
    start = v0 + rng.choice([-30000, -2000, 0, 0, 3000, 10000])
    span = rng.choice([40000, 70000, 110000])
    end = start + span
    slice_ = rng.choice([1500, 7000, 10000000])
    nnodes = rng.choice([0, 1, 1, 2])
    lines = [[1, start, end, slice_, 0, v0, 0], [6, max(1, nnodes)]]
    for i in range(1, nnodes + 1):
        r = rng.random()
        if r < 0.6:
            lines.append([3, i, -1, 1, rng.choice([0, 0, 4000, 15000])])
        elif r < 0.8:
            lines.append([3, i, -1, 2, v0 + rng.choice([-1000, 0, 5000, 12000])])
        else:
            lines.append([3, i, -1, 3, rng.choice([1, 3000, 9000])])
        # (every default re-arm is at least a few ms away: a free-running chain of tiny steps would run for
        #  span/step cycles in real time)
        r = rng.random()
        if r < 0.5:
            lines.append([3, i, -2, 1, rng.choice([3000, 8000, 20000])])
        elif r < 0.75:
            lines.append([3, i, -2, 3, rng.choice([4000, 10000])])
        if rng.random() < 0.3:
            lines.append([3, i, -2, 6, rng.choice([200, 1500, 6000])])
        for k in range(rng.randint(0, 2)):
            if rng.random() < 0.5:
                r = rng.random()
                if r < 0.4:
                    lines.append([3, i, k, 1, rng.choice([-5, 0, 1, 2, 2500, 9000])])
                elif r < 0.7:
                    lines.append([3, i, k, 2, v0 + rng.randint(-3000, span)])
                elif r < 0.85:
                    lines.append([3, i, k, 6, rng.choice([500, 3000])])
                elif r < 0.93:
                    lines.append([3, i, k, 5, 0])
                else:
                    lines.append([3, i, k, 3, rng.choice([1, 2000])])
    have_stop = False
    for _ in range(rng.choice([0, 1, 2, 3])):
        kind = 2 if (rng.random() < 0.3 and not have_stop) else 1
        have_stop = have_stop or kind == 2
        lines.append([5, rng.randint(100, span * 3 // 4), kind])
    return lines


def gen(rng, tier, prop):
    c = _gen(rng, tier, prop)
    if rng.random() < 0.03:
        c = c + [[7, 1]]
    return c


def _gen(rng, tier, prop):
    r = rng.random()
    if r < 0.56:
        return _gen_virt(rng, tier)
    if r < 0.70:
        return _gen_idle(rng, tier)
    if r < 0.80:
        return _gen_lag_end(rng, tier)
    if r < 0.815:
        return _gen_drain(rng, tier)
    if r < 0.83:
        return _gen_drain_guard(rng, tier)
    if r < 0.86:
        return _gen_stop_in_start(rng, tier)
    if r < 0.90:
        return _gen_heartbeat(rng, tier)
    if r < 0.93:
        return _gen_join(rng, tier)
    if r < 0.94:
        return nowake_case(rng.choice([1, 2]))
    return _gen_free(rng, tier)


def enumerate_cases(prop):
    """Thorough tier: every placement of one push and one stop over the loop's sync points, with the notify
    immediate or held back, on a small fixed scenario (two timers, a slow clock)."""
    base = [[1, 1000, 1060, 3, 1, 1000, 2], [6, 2], [2, 0, 1, 1, 3, 0, 2, 5, 1],
            [3, 1, -1, 1, 0], [3, 1, -2, 1, 7], [3, 2, -1, 3, 4], [3, 2, -2, 1, 11]]
    places = [(c, o) for c in (10, 11, 12, 13, 15, 16, 17, 18, 20) for o in (1, 2, 3)]
    out = []
    for (pc, po) in places:
        for (sc, so) in places:
            out.append(base + [[4, pc, po, 1, 0, 0], [4, sc, so, 2, 0, 0]])
    for (pc, po) in places:
        for hold in ((13, po + 1), (14, po), (15, po + 1), (20, po + 1), (21, 1)):
            out.append(base + [[4, pc, po, 1, hold[0], hold[1]]])
            out.append(base + [[4, pc, po, 2, hold[0], hold[1]]])
    out.append(nowake_case(1))
    out.append(nowake_case(2))
    for v in ('own', 'other', 'after', 'fown', 'fother'):
        for n in (1, 2, 3):
            for who in range(1, n + 1):
                out.append(stop_in_start_case(v, n, who))
                if v == 'other':
                    out.append(stop_in_start_case(v, n, who, 1))
                    out.append(stop_in_start_case(v, n, who, 0, 1))
    for t in (20, 45):
        for ta2 in (0, 3, t - 1):
            for db in (-1, 1, t // 2, t + 5):
                out.append(join_case(False, ta2, db, t, t + 30))
    for period in (6, 25):
        for occ in range(1, 9):
            for code in (13, 16, 20):
                out.append(heartbeat_case(False, period, 0, [(code, occ, 1, 0, 0)], period * 5 + 3))
            out.append(heartbeat_case(False, period, 2, [(13, occ, 1, 0, 0), (13, occ + 2, 1, 0, 0)], period * 6, 1))
    for m in (1022, 1023, 1024, 1025, 1026, 1100):
        for k in (2, 5):
            out.append(drain_guard_case(m, k, True))
            if m <= 1024:
                out.append(drain_guard_case(m, k, False))
    return out


# ---------------------------------------------------------------- helpers
def parse_case(case):
    d = dict(start=1000, end=2000, slice=1000, virt=1, v0=900, dflt=1, nnodes=1, ops=[], acts=[], facts=[], deltas=[], prestop=0)
    for l in case:
        if l[0] == 1 and len(l) >= 7:
            d.update(start=l[1], end=l[2], slice=l[3], virt=l[4], v0=l[5], dflt=l[6])
        elif l[0] == 2:
            d["deltas"] += l[1:]
        elif l[0] == 3:
            d["ops"].append(l[1:])
        elif l[0] == 4:
            d["acts"].append(l[1:])
        elif l[0] == 5:
            d["facts"].append(l[1:])
        elif l[0] == 6:
            d["nnodes"] = l[1]
        elif l[0] == 7:
            d["prestop"] = l[1]
    return d


def agree(case, impl_out, model_out):
    return isinstance(impl_out, list) and model_out == [[1]]


def _mode(out):
    if isinstance(out, list) and out and out[0][:1] == [90] and len(out[0]) > 1:
        return out[0][1]
    return -1


def stats(case, out):
    if not isinstance(out, list):
        return {"crashed": 1}
    m = _mode(out)
    c = {}

    def inc(k, v=1):
        c[k] = c.get(k, 0) + v
    inc("mode_hook" if m == 1 else "mode_free")
    cnt = {}
    for l in out:
        cnt[l[0]] = cnt.get(l[0], 0) + 1
    inc("cycles", cnt.get(16, 0))
    inc("push_cycles", cnt.get(17, 0))
    inc("requests", cnt.get(19, 0))
    inc("requests_wall", sum(1 for l in out if l[0] == 19 and l[2] in (2, 3)))
    inc("requests_ignored", sum(1 for l in out if l[0] == 19 and l[4] == 0))
    if m == 1:
        inc("waits", cnt.get(13, 0))
        inc("push_arrivals", cnt.get(30, 0))
        inc("stop_arrivals", cnt.get(32, 0))
        # arrivals that landed while the loop was blocked in wait_for; notifies held back
        inwait = False
        owed = 0
        prev_adv, last_w, tgt_lag = None, None, 0
        for l in out:
            if l[0] == 13:
                inwait = True
            elif l[0] == 14:
                inwait = False
            elif l[0] in (30, 32):
                if inwait:
                    inc("arrival_in_wait")
                owed += 1
            elif l[0] in (31, 33):
                owed -= 1
            elif l[0] in (11, 16, 20) and owed > 0:
                inc("loop_steps_with_notify_owed")
            elif l[0] == 12:
                last_w = l[1]
            elif l[0] == 15:
                if last_w is not None and l[1] < last_w:
                    inc("lagging_advances")
        inc("alarms_already_due", sum(1 for l in out if l[0] == 19 and l[2] == 2 and l[4] != 0 and l[4] != l[3]))
        d = parse_case(case)
        if cnt.get(16, 0) >= MAX_DRAIN:
            inc("drain_runs")
    else:
        inc("free_arrivals", cnt.get(36, 0))
    return c


def nontrivial(case, out):
    if not isinstance(out, list):
        return False
    cnt = {}
    for l in out:
        cnt[l[0]] = cnt.get(l[0], 0) + 1
    return cnt.get(16, 0) >= 2 or cnt.get(30, 0) + cnt.get(32, 0) + cnt.get(36, 0) >= 1 or cnt.get(13, 0) >= 2


# ---------------------------------------------------------------- property oracle (model independent)
def _sched_rule(fails, started, now, kind, arg, eff, w_lo, w_hi):
    """NodeScheduler::schedule as C17 states it: a logical request for the past/present is ignored, a wall-clock
    alarm is never dropped: already due -> next evaluatable cycle max(now+1, wall) (during start: max(now, wall))."""
    if kind in (1, 4, 8):
        when = arg if kind == 4 else now + arg
        ok = (when > now) if started else (when >= now)
        exp = when if ok else 0
        if eff != exp:
            fails.append(("sched_rule", "logical request for %d at %d entered as %d, expected %d" % (when, now, eff, exp)))
        return
    if eff == 0:
        fails.append(("alarm_dropped", "wall-clock alarm (kind %d arg %d) at logical %d, wall in [%d,%d] was dropped"
                      % (kind, arg, now, w_lo, w_hi)))
        return
    if (eff <= now) if started else (eff < now):
        fails.append(("alarm_not_future", "wall-clock alarm entered at %d, not after logical now %d" % (eff, now)))
    if kind == 2:
        step = 1 if started else 0
        due_lo, due_hi = max(now + step, w_lo), max(now + step, w_hi)
        surely_future = arg > max(now, w_hi) if started else arg >= max(now, w_hi)
        surely_due = arg <= max(now, w_lo) if started else arg < max(now, w_lo)
        if surely_future and eff != arg:
            fails.append(("alarm_time", "future alarm for %d entered at %d" % (arg, eff)))
        elif surely_due and not (due_lo <= eff <= due_hi):
            fails.append(("alarm_due_time", "already-due alarm for %d (now %d, wall [%d,%d]) entered at %d, expected in [%d,%d]"
                          % (arg, now, w_lo, w_hi, eff, due_lo, due_hi)))
        elif not surely_future and not surely_due and not (eff == arg or due_lo <= eff <= due_hi):
            fails.append(("alarm_due_time", "alarm for %d entered at %d" % (arg, eff)))
    elif kind == 3 and arg >= 1:
        if not (max(now, w_lo) + arg <= eff <= max(now, w_hi) + arg):
            fails.append(("alarm_time", "alarm in %d (now %d, wall [%d,%d]) entered at %d" % (arg, now, w_lo, w_hi, eff)))


def _oracle_hook(d, out):
    fails = []
    start, end = d["start"], d["end"]
    pend = set()
    prev = start
    ncyc = 0
    consec = 0
    wall = d["v0"]
    push = stop = False
    owed = 0
    started = False
    last_read = None
    tgt = None
    adv = None
    cur = None
    push_at_begin = False
    saw_pushnode = False
    cut_taken = False
    exited = False
    waits_since_push = 0
    stop_in_start = False
    loop_tested = False          # the loop's first  while (!stop_requested)  test has been made
    for l in out[1:]:
        k = l[0]
        if k in (96, 97, 98, 99):
            fails.append(("harness_abort", "line %s" % l))
        elif k == 40:
            fails.append(("late_wakeup", "a waiter was notified of a push/stop but slept on until its slice time-out"))
        elif k == 10:
            started = True
        elif k == 19:
            _, i, kind, arg, eff, n, w1, w2 = l
            now = cur if started else start
            ws = [w1, w2][:n]
            for w in ws:
                if w < wall:
                    fails.append(("harness_clock", "clock went back"))
                wall = max(wall, w)
            _sched_rule(fails, started, now, kind, arg, eff, ws[0] if ws else wall, ws[-1] if ws else wall)
            if kind == 3 and n == 2 and eff != 0:
                # exact: when = max(now, w1) + arg checked against w2
                when = max(now, w1) + arg
                exp = when if when > max(now, w2) else max(now + 1, w2)
                if started and eff != exp:
                    fails.append(("alarm_time", "alarm in %d entered at %d expected %d" % (arg, eff, exp)))
            if eff:
                pend.add(eff)
        elif k == 22:
            wall = max(wall, l[1])
        elif k == 11:
            if stop and stop_in_start:
                fails.append(("stop_during_start_lost", "a stop requested during the start phase (after run_storage's reset) "
                              "was lost: the loop body was entered"))
                stop_in_start = False
            elif stop:
                fails.append(("stop_ignored", "the loop body was entered although a stop request had landed"))
            loop_tested = True
            nxt = min(pend) if pend else MAX_DT
            tgt = min(nxt, end)
            last_read = None
        elif k == 12:
            if l[1] < wall:
                fails.append(("harness_clock", "clock went back"))
            wall = l[1]
            last_read = l[1]
        elif k == 13:
            if push or stop:
                fails.append(("wait_with_flag", "the loop went to wait although %s was flagged" % ("a push" if push else "a stop")))
            if last_read is not None and tgt is not None and last_read >= tgt:
                fails.append(("wait_past_target", "the loop waits at wall %d although its target %d is due" % (last_read, tgt)))
        elif k == 15:
            t = l[1]
            w = last_read
            if w is None or tgt is None:
                fails.append(("trace_shape", "advance without a clock reading"))
                continue
            if not (push or stop) and w < tgt:
                fails.append(("wake_without_cause", "wait abandoned at wall %d before target %d with nothing flagged" % (w, tgt)))
            formula = min(tgt, max(w, prev + 1))
            if t != formula:
                cut_ok = (t == end and w >= end and formula <= prev + 1 and consec >= MAX_DRAIN)
                if cut_ok:
                    cut_taken = True
                elif t == end and w >= end and formula <= prev + 1:
                    fails.append(("drain_cut_early", "run cut short at wall %d after only %d consecutive smallest-step cycles" % (w, consec)))
                    cut_taken = True
                else:
                    if t > tgt:
                        fails.append(("skipped_pending", "cycle time %d jumps past the pending time/end %d" % (t, tgt)))
                    elif t > max(w, prev + 1):
                        fails.append(("ran_early", "cycle time %d is ahead of wall %d (previous cycle %d)" % (t, w, prev)))
                    elif ncyc > 0 and t <= prev:
                        fails.append(("not_increasing", "cycle time %d after %d" % (t, prev)))
                    else:
                        fails.append(("eval_time_formula", "cycle time %d, expected min(%d, max(%d, %d+1)) = %d" % (t, tgt, w, prev, formula)))
            adv = t
        elif k == 16:
            t = l[1]
            if stop:
                fails.append(("cycle_after_stop", "a cycle at %d starts after the stop request landed" % t))
            if t >= end:
                fails.append(("cycle_at_or_after_end", "a cycle at %d with end_time %d" % (t, end)))
            if adv is None or t != adv:
                fails.append(("trace_shape", "cycle at %s but advance returned %s" % (t, adv)))
            if ncyc > 0 and t <= prev:
                fails.append(("not_increasing", "cycle time %d after %d" % (t, prev)))
            if ncyc == 0 and t < start:
                fails.append(("not_increasing", "first cycle at %d before start %d" % (t, start)))
            if any(p < t for p in pend):
                fails.append(("skipped_pending", "cycle at %d although %d is pending" % (t, min(pend))))
            if t in pend and last_read is not None and last_read < t:
                # the literal statement of C17: "a node scheduled for T is ... never [evaluated] before the wall clock
                # has reached T".  The rule min(target, max(wall, prev+MIN_TD)) allows it when T is the smallest step
                # after the previous cycle (or start_time itself) and a push wakes the loop early.
                fails.append(("scheduled_cycle_before_wall",
                              "the wake-up scheduled for %d is evaluated at wall clock %d (%d us early; previous cycle %d, start %d)"
                              % (t, last_read, t - last_read, prev, start)))
            consec = consec + 1 if t == prev + 1 else 0
            cur = t
            ncyc += 1
            push_at_begin = push
            saw_pushnode = False
        elif k == 17:
            if not push:
                fails.append(("push_eval_without_push", "push sources evaluated with no push pending"))
            push = False
            saw_pushnode = True
        elif k == 20:
            if push_at_begin and not saw_pushnode:
                fails.append(("push_missed", "a push was pending when the cycle at %d began but push sources were not evaluated" % cur))
            pend = set(p for p in pend if p > cur)
            prev = cur
        elif k == 23:
            exp = min(pend) if pend else -1
            if l[1] != exp:
                fails.append(("next_scheduled_time_wrong", "after the cycle at %s graph.next_scheduled_time() is %d but the "
                              "earliest pending wake-up is %d" % (cur, l[1], exp)))
        elif k == 21:
            exited = True
            loop_tested = True
            if not stop:
                if adv is None or adv < end:
                    fails.append(("early_exit", "run returned without a stop request before reaching end (last advance %s)" % adv))
                left = sorted(p for p in pend if p < end)
                if left and not cut_taken:
                    fails.append(("dropped_wakeup", "run ended with wake-ups %s (< end %d) never evaluated" % (left[:5], end)))
        elif k == 30:
            if not stop:
                push = True
                owed += 1
        elif k == 32:
            if not stop and not loop_tested:
                stop_in_start = True
            stop = True
            owed += 1
        elif k in (31, 33):
            owed -= 1
            if owed < 0:
                fails.append(("notify_before_flag", "a notify_all happened before its flag was set under the mutex"))
                owed = 0
    if not exited:
        fails.append(("no_exit", "run did not return"))
    if d["prestop"] and any(l[0] == 11 for l in out):
        fails.append(("stop_before_run_lost", "request_stop() made before run() was entered was discarded: the loop body ran"))
    return fails


def _oracle_free(d, out):
    fails = []
    start, end = d["start"], d["end"]
    pend = set()
    prev = start
    ncyc = 0
    consec = 0
    wlast = None
    started = False
    stopinit = stopret = False
    after_stop = 0
    cur = None
    need_push = saw_push = False
    exited = False
    stop_in_start = False
    for l in out[1:]:
        k = l[0]
        if k in (96, 97, 98, 99):
            fails.append(("harness_abort", "line %s" % l))
        elif k == 10:
            started = True
        elif k == 19:
            _, i, kind, arg, eff, n, wb, wa = l
            now = cur if started else start
            _sched_rule(fails, started, now, kind, arg, eff, wb, wa)
            if eff:
                pend.add(eff)
            wlast = wa
        elif k == 16:
            t, w = l[1], l[2]
            nxt = min(pend) if pend else MAX_DT
            tgt = min(nxt, end)
            if ncyc > 0 and t <= prev:
                fails.append(("not_increasing", "cycle time %d after %d" % (t, prev)))
            if ncyc == 0 and t < start:
                fails.append(("not_increasing", "first cycle at %d before start %d" % (t, start)))
            if t > tgt:
                fails.append(("skipped_pending", "cycle time %d jumps past the pending time/end %d" % (t, tgt)))
            if t >= end:
                fails.append(("cycle_at_or_after_end", "a cycle at %d with end_time %d" % (t, end)))
            if t > max(w, prev + 1):
                fails.append(("ran_early", "cycle at %d but the wall clock read afterwards is only %d (previous cycle %d)" % (t, w, prev)))
            elif t in pend and w < t:
                fails.append(("scheduled_cycle_before_wall",
                              "the wake-up scheduled for %d is evaluated with the wall clock (read afterwards) at %d" % (t, w)))
            need_push = t < tgt
            if need_push and wlast is not None and t < wlast:
                fails.append(("eval_time_formula", "wake-up cycle stamped %d, before an earlier clock reading %d" % (t, wlast)))
            if stop_in_start:
                fails.append(("stop_during_start_lost", "a stop requested during the start phase had returned before graph.start "
                              "did, yet a cycle (%d) is evaluated" % t))
                stop_in_start = False
            if stopret:
                after_stop += 1
                if after_stop > 1:
                    fails.append(("cycle_after_stop", "a second cycle (%d) begins after request_stop returned" % t))
            consec = consec + 1 if t == prev + 1 else 0
            cur = t
            ncyc += 1
            saw_push = False
            wlast = w
        elif k == 17:
            saw_push = True
        elif k == 20:
            if need_push and not saw_push:
                fails.append(("wake_without_cause", "cycle at %d before the pending time/end with no push delivered in it" % cur))
            pend = set(p for p in pend if p > cur)
            prev = cur
            wlast = l[1]
        elif k == 23:
            exp = min(pend) if pend else -1
            if l[1] != exp:
                fails.append(("next_scheduled_time_wrong", "after the cycle at %s graph.next_scheduled_time() is %d but the "
                              "earliest pending wake-up is %d" % (cur, l[1], exp)))
        elif k == 36:
            stopinit = stopinit or l[1] == 2
        elif k == 35:
            if l[1] == 2 and not started:
                stop_in_start = True
            stopret = stopret or l[1] == 2
        elif k == 21:
            exited = True
            w = l[1]
            if not stopinit:
                if not (w >= end or prev + 1 >= end):
                    fails.append(("early_exit", "run returned at wall %d before end %d with no stop request" % (w, end)))
                left = sorted(p for p in pend if p < end)
                if left and not (w >= end and consec >= MAX_DRAIN):
                    fails.append(("dropped_wakeup", "run ended with wake-ups %s (< end %d) never evaluated" % (left[:5], end)))
    if not exited:
        fails.append(("no_exit", "run did not return"))
    if d["prestop"] and not stopinit and any(l[0] == 16 for l in out):
        fails.append(("stop_before_run_lost", "request_stop() made before run() was entered was discarded: cycles were evaluated"))
    return fails


def oracle(prop, case, out):
    if not isinstance(out, list):
        return [("crash", str(out)[:300])]
    m = _mode(out)
    d = parse_case(case)
    if m == 1:
        return _oracle_hook(d, out)
    if m == 0:
        return _oracle_free(d, out)
    return [("harness_abort", "no mode line")]


PROP_KINDS = {"C17": {
    "not_increasing", "skipped_pending", "ran_early", "eval_time_formula", "wake_without_cause", "wait_past_target",
    "wait_with_flag", "stop_ignored", "cycle_after_stop", "cycle_at_or_after_end", "push_missed", "push_eval_without_push",
    "early_exit", "dropped_wakeup", "drain_cut_early", "alarm_dropped", "alarm_not_future", "alarm_time", "alarm_due_time",
    "sched_rule", "notify_before_flag", "late_wakeup", "no_exit", "harness_abort", "trace_shape",
    # candidate findings (see docs/notes-rtloop.md); listed in known_findings.json
    "scheduled_cycle_before_wall", "stop_before_run_lost",
    "stop_during_start_lost", "next_scheduled_time_wrong"}}


def shrink(case):
    heads = [l for l in case if l[0] in (1, 6)]
    rest = [l for l in case if l[0] not in (1, 6)]
    # with long wait slices (seconds of real time) every wait must keep the arrival that ends it
    long_slice = any(l[0] == 1 and len(l) > 3 and l[3] >= 1000000 for l in case)
    for i in range(len(rest)):
        if long_slice and rest[i][0] == 4:
            continue
        yield heads + rest[:i] + rest[i + 1:]
    if long_slice:
        return
    for idx, l in enumerate(case):
        if l[0] == 2 and len(l) > 2:
            yield case[:idx] + [l[:-1]] + case[idx + 1:]
            yield case[:idx] + [[2] + l[2:]] + case[idx + 1:]
        if l[0] == 4 and l[4] != 0:
            yield case[:idx] + [l[:4] + [0, 0]] + case[idx + 1:]
        if l[0] == 4 and l[2] > 1:
            yield case[:idx] + [l[:2] + [l[2] - 1] + l[3:]] + case[idx + 1:]
