(* main.ml — generic glue of the model runner: reads a batch of cases (lines of
   integers, cases separated by "#"), applies the extracted [run_<family>] and
   prints the resulting lines, "#" after each case.  Nothing here interprets a
   case: decoding is part of the Coq model. *)
open BinNums

let rec pos_of_int n =
  if n = 1 then Coq_xH
  else if n land 1 = 0 then Coq_xO (pos_of_int (n lsr 1))
  else Coq_xI (pos_of_int (n lsr 1))
let z_of_int n = if n = 0 then Z0 else if n > 0 then Zpos (pos_of_int n) else Zneg (pos_of_int (-n))
let rec int_of_pos = function Coq_xH -> 1 | Coq_xO p -> 2 * int_of_pos p | Coq_xI p -> 2 * int_of_pos p + 1
let int_of_z = function Z0 -> 0 | Zpos p -> int_of_pos p | Zneg p -> - (int_of_pos p)

let families : (string * (coq_Z list list -> coq_Z list list)) list = Families.table

let parse_line s =
  String.split_on_char ' ' s |> Stdlib.List.filter (fun x -> x <> "") |> Stdlib.List.map (fun x -> z_of_int (int_of_string x))

let () =
  let fam = Sys.argv.(1) in
  let run = try Stdlib.List.assoc fam families with Not_found -> (prerr_endline ("unknown family " ^ fam); exit 2) in
  let ic = open_in Sys.argv.(2) in
  let cur = ref [] in
  let flush_case () =
    let out = run (Stdlib.List.rev !cur) in
    Stdlib.List.iter (fun l -> print_endline (String.concat " " (Stdlib.List.map (fun z -> string_of_int (int_of_z z)) l))) out;
    print_endline "#"; cur := [] in
  (try
     while true do
       let s = input_line ic in
       if String.length s > 0 && s.[0] = '#' then flush_case ()
       else begin match parse_line s with [] -> () | l -> cur := l :: !cur end
     done
   with End_of_file -> if !cur <> [] then flush_case ())
