(* families.ml — name -> extracted entry point.  One line per family. *)
let table = [
  "core", Engine.run_core;
]
