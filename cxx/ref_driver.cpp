// ref_driver.cpp — family "ref" (property C13): graphs that route time-series
// through a REFERENCE (if_then_else / if_cmp / ...) from the tree's standard
// operators, with scripted sources for the selector and every branch, several
// logging consumers below the one reference, and recorder sinks bound directly
// to the targets.  See gen/ref.py for the case format; coq/Ref.v is the model
// that must print the same lines.
//
// Case lines
//   1 start end shape op [prod [wrap]]  wrap 1..4 (ops 0,1,6,7,8): the consumers sit in their OWN nested graph and the
//                               dereferenced value reaches them through a nested pass-through (depths 1/2 each)
//                               prod 1: the targets are the three fields of ONE producer node's bundle output
//                               (selected through getattr_), 0/absent: outputs of separate source nodes
//                               shape 0 TS<Int>, 1 TSS<Int>, 2 TSD<Int,TS<Int>>
//                               op    0 if_then_else, 1 if_cmp,
//                                     3 if_then_else with the consumers inside a nested graph (nested_<>),
//                                     5 as 3, but the REF itself crosses the boundary and is dereferenced inside,
//                                     6 chained: if_then_else(c2, if_then_else(c1, A, B), C); c2 is source k=4,
//                                     7 chained: if_cmp(cmp2, if_then_else(c1, A, B), C, C),
//                                     8 list[key]: ONE producer with a TSL<S,3> output, getitem_ with a ticking index
//                                       (source 0: <=0 -> 0, 1 -> 1, >=2 -> 2); targets are always siblings,
//                                     4 if_then_else inside a nested graph, its result exported (no line 22)
//   2 k t payload...            script of source k at time t:
//                               k=0 selector (payload: one integer), k=1..3 targets, k=4 second (outer) selector, k=7 poke
//                               TS payload: v ; TSS payload: +key add / -key remove (keys >= 1);
//                               TSD payload: pairs key value (value -1 = erase)
// Observation lines (uniform "keyed" rendering; a scalar is the single key 0, a set has values 0)
//   20 cid t valid modified lmt  nv (k v)*  nu (k v)*  nr k*    consumer cid evaluated at t
//   21 k   t valid modified lmt  nv (k v)*  nu (k v)*  nr k*    direct reader of target k evaluated at t
//   22 t                                                         the reference output ticked at t
//   28/29 code                                                   wiring / run error
#include "hgv_io.h"

#include <hgraph/lib/std/std_operators.h>
#include <hgraph/runtime/node_scheduler.h>
#include <hgraph/runtime/runtime.h>
#include <hgraph/types/graph_wiring.h>
#include <hgraph/types/metadata/type_registry.h>
#include <hgraph/types/static_node.h>
#include <hgraph/types/subgraph_wiring.h>

#include <algorithm>
#include <map>
#include <stdexcept>

namespace hgraph::stdlib { void register_json_operators() {} }

using namespace hgraph;
using hgv::Line;

namespace
{
    std::int64_t us(DateTime t) { return t.time_since_epoch().count(); }
    DateTime     dt(std::int64_t v) { return DateTime{TimeDelta{v}}; }

    // ---- run-time tables read by the static nodes -----------------------------------
    using Payload = std::vector<std::int64_t>;
    using Script  = std::map<std::int64_t, Payload>;   // time -> payload
    struct Ctx
    {
        Script    script[8];     // 0 selector, 1..3 targets, 7 poke
        hgv::Out *out{nullptr};
    };
    Ctx g;

    template <typename Emit>
    void drive(std::int64_t k, DateTime now, NodeScheduler &sched, Emit &&emit)
    {
        const Script &s  = g.script[k];
        auto          it = s.find(us(now));
        if (it != s.end()) { emit(it->second); }
        auto nx = s.upper_bound(us(now));
        if (nx != s.end()) { sched.schedule(dt(nx->first)); }
    }

    using KV = std::vector<std::pair<std::int64_t, std::int64_t>>;
    void push_kv(Line &l, KV kv)
    {
        std::sort(kv.begin(), kv.end());
        l.push_back((std::int64_t)kv.size());
        for (auto &[k, v] : kv) { l.push_back(k); l.push_back(v); }
    }
    void push_keys(Line &l, std::vector<std::int64_t> ks)
    {
        std::sort(ks.begin(), ks.end());
        l.push_back((std::int64_t)ks.size());
        for (auto k : ks) { l.push_back(k); }
    }

    // ---- per-shape payload application and reading -----------------------------------
    void apply_payload(const Out<TS<Int>> &out, const Payload &p) { out.set(p.at(0)); }
    void apply_payload(const Out<TSS<Int>> &out, const Payload &p)
    {
        for (auto x : p)
        {
            if (x > 0) { static_cast<void>(out.add(x)); }
            else if (x < 0) { static_cast<void>(out.remove(-x)); }
        }
    }
    void apply_payload(const Out<TSD<Int, TS<Int>>> &out, const Payload &p)
    {
        for (std::size_t i = 0; i + 1 < p.size(); i += 2)
        {
            if (p[i + 1] < 0) { static_cast<void>(out.erase(p[i])); }
            else { out.set(p[i], p[i + 1]); }
        }
    }

    template <fixed_string N, auto... P>
    void read_into(Line &l, const In<N, TS<Int>, P...> &ts)
    {
        const bool valid = ts.valid();
        KV         vals, upd;
        if (valid)
        {
            vals.emplace_back(0, ts.value());
            ValueView d = ts.delta_value();
            if (d.has_value()) { upd.emplace_back(0, d.template checked_as<Int>()); }
        }
        push_kv(l, vals);
        push_kv(l, upd);
        push_keys(l, {});
    }
    template <fixed_string N, auto... P>
    void read_into(Line &l, const In<N, TSS<Int>, P...> &ts)
    {
        const bool                valid = ts.valid();
        KV                        vals, upd;
        std::vector<std::int64_t> rem;
        if (valid)
        {
            for (auto k : ts.values()) { vals.emplace_back(k, 0); }
            for (auto k : ts.added()) { upd.emplace_back(k, 0); }
        }
        // removals are readable in the cycle in which a keyed reference lost its target
        if (valid || ts.modified()) { for (auto k : ts.removed()) { rem.push_back(k); } }
        push_kv(l, vals);
        push_kv(l, upd);
        push_keys(l, rem);
    }
    template <fixed_string N, auto... P>
    void read_into(Line &l, const In<N, TSD<Int, TS<Int>>, P...> &ts)
    {
        const bool                valid = ts.valid();
        KV                        vals, upd;
        std::vector<std::int64_t> rem;
        if (valid)
        {
            for (auto [k, child] : ts.valid_items()) { vals.emplace_back(k.template checked_as<Int>(), child.value()); }
            for (auto [k, child] : ts.modified_items())
            {
                upd.emplace_back(k.template checked_as<Int>(), child.valid() ? child.value() : -1);
            }
        }
        if (valid || ts.modified()) { for (auto k : ts.removed_keys()) { rem.push_back(k.template checked_as<Int>()); } }
        push_kv(l, vals);
        push_kv(l, upd);
        push_keys(l, rem);
    }

    template <typename InT>
    void log_input(std::int64_t code, std::int64_t id, DateTime now, const InT &ts)
    {
        Line l{code, id, us(now), ts.valid(), ts.modified(), us(ts.last_modified_time())};
        read_into(l, ts);
        g.out->line(l);
    }

    // ---- scripted sources ------------------------------------------------------------
    struct SrcBool
    {
        static constexpr auto name              = "hgv_src_bool";
        static constexpr bool schedule_on_start = true;
        static void           eval(NodeScheduler sched, DateTime now, Scalar<"k", Int> k, Out<TS<Bool>> out)
        {
            drive(k.value(), now, sched, [&](const Payload &p) { out.set(p.at(0) != 0); });
        }
    };
    struct SrcCmp
    {
        static constexpr auto name              = "hgv_src_cmp";
        static constexpr bool schedule_on_start = true;
        static void           eval(NodeScheduler sched, DateTime now, Scalar<"k", Int> k, Out<TS<stdlib::CmpResult>> out)
        {
            drive(k.value(), now, sched, [&](const Payload &p) {
                out.set(p.at(0) <= 0 ? stdlib::CmpResult::LT : p.at(0) == 1 ? stdlib::CmpResult::EQ : stdlib::CmpResult::GT);
            });
        }
    };
    template <typename S>
    struct Src
    {
        static constexpr auto name              = "hgv_src";
        static constexpr bool schedule_on_start = true;
        static void           eval(NodeScheduler sched, DateTime now, Scalar<"k", Int> k, Out<S> out)
        {
            drive(k.value(), now, sched, [&](const Payload &p) { apply_payload(out, p); });
        }
    };

    // ---- consumers below the reference ------------------------------------------------
    // 0: active on the reference only, no validity requirement
    template <typename S>
    struct Cons0
    {
        static constexpr auto name = "hgv_cons0";
        static void           eval(In<"ts", S, InputValidity::Unchecked> ts, DateTime now) { log_input(20, 0, now, ts); }
    };
    // 1: active on the reference and on an unrelated poke source
    template <typename S>
    struct Cons1
    {
        static constexpr auto name = "hgv_cons1";
        static void           eval(In<"ts", S, InputValidity::Unchecked> ts, In<"poke", TS<Int>, InputValidity::Unchecked> poke,
                                   DateTime now)
        {
            log_input(20, 1, now, ts);
        }
    };
    // 2: PASSIVE on the reference, active on the poke source
    template <typename S>
    struct Cons2
    {
        static constexpr auto name = "hgv_cons2";
        static void           eval(In<"ts", S, InputValidity::Unchecked, InputActivity::Passive> ts,
                                   In<"poke", TS<Int>, InputValidity::Unchecked> poke, DateTime now)
        {
            log_input(20, 2, now, ts);
        }
    };
    // 3: the ordinary node: active, input must be valid
    template <typename S>
    struct Cons3
    {
        static constexpr auto name = "hgv_cons3";
        static void           eval(In<"ts", S> ts, DateTime now) { log_input(20, 3, now, ts); }
    };
    // direct reader of one target (not through the reference)
    template <typename S>
    struct Direct
    {
        static constexpr auto name = "hgv_direct";
        static void           eval(In<"ts", S, InputValidity::Unchecked> ts, Scalar<"k", Int> k, DateTime now)
        {
            log_input(21, k.value(), now, ts);
        }
    };
    // watches the reference output itself: logs whenever the REF ticks
    template <typename S>
    struct RefWatch
    {
        static constexpr auto name = "hgv_ref_watch";
        static void           eval(In<"r", REF<S>, InputValidity::Unchecked> r, DateTime now)
        {
            if (r.modified()) { g.out->line({22, us(now)}); }
        }
    };

    // the consumers INSIDE a nested graph: the dereferenced value crosses the boundary
    template <typename S>
    struct Below
    {
        static constexpr auto name = "hgv_below";
        static void           compose(Wiring &w, Port<S> sel, Port<TS<Int>> poke)
        {
            wire<Cons0<S>>(w, sel);
            wire<Cons1<S>>(w, sel, poke);
            wire<Cons2<S>>(w, sel, poke);
            wire<Cons3<S>>(w, sel);
        }
    };
    template <typename S>
    struct BelowRef
    {
        static constexpr auto name = "hgv_below_ref";
        static void           compose(Wiring &w, Port<REF<S>> ref, Port<TS<Int>> poke)
        {
            auto sel = ref.template as<S>();
            wire<Cons0<S>>(w, sel);
            wire<Cons1<S>>(w, sel, poke);
            wire<Cons2<S>>(w, sel, poke);
            wire<Cons3<S>>(w, sel);
        }
    };
    // the selection INSIDE a nested graph, its result passed out
    template <typename S>
    struct Choose
    {
        static constexpr auto name = "hgv_choose";
        static Port<S>        compose(Wiring &w, Port<TS<Bool>> cond, Port<S> a, Port<S> b)
        {
            return wire<stdlib::if_then_else>(w, cond, a, b).template as<S>();
        }
    };

    // ONE producer node whose output is a bundle of three fields of schema S: the selectable targets are then
    // SUB-OUTPUTS OF THE SAME NODE (prod = 1); field k is driven by script k (k = 1..n)
    template <typename S>
    using Bundle3 = UnNamedTSB<Field<"a", S>, Field<"b", S>, Field<"c", S>>;
    template <typename S>
    struct ProdB
    {
        static constexpr auto name              = "hgv_prod_bundle";
        static constexpr bool schedule_on_start = true;
        static void           eval(NodeScheduler sched, DateTime now, Scalar<"n", Int> n, Out<Bundle3<S>> out)
        {
            std::int64_t next = 0;
            for (std::int64_t k = 1; k <= n.value(); ++k)
            {
                const Script &s  = g.script[k];
                auto          it = s.find(us(now));
                if (it != s.end())
                {
                    if (k == 1) { apply_payload(out.template field<"a">(), it->second); }
                    else if (k == 2) { apply_payload(out.template field<"b">(), it->second); }
                    else { apply_payload(out.template field<"c">(), it->second); }
                }
                auto nx = s.upper_bound(us(now));
                if (nx != s.end() && (next == 0 || nx->first < next)) { next = nx->first; }
            }
            if (next != 0) { sched.schedule(dt(next)); }
        }
    };

    // ONE producer node whose output is a fixed list of three elements of schema S (op 8): the selection is
    // list[key] with a TICKING key (stdlib getitem_ -> getitem_tsl_by_index), the reference moves between
    // elements of the same output
    template <typename S>
    struct ProdL
    {
        static constexpr auto name              = "hgv_prod_list";
        static constexpr bool schedule_on_start = true;
        static void           eval(NodeScheduler sched, DateTime now, Out<TSL<S, 3>> out)
        {
            std::int64_t next = 0;
            for (std::int64_t k = 1; k <= 3; ++k)
            {
                const Script &s  = g.script[k];
                auto          it = s.find(us(now));
                if (it != s.end()) { apply_payload(out[static_cast<std::size_t>(k - 1)], it->second); }
                auto nx = s.upper_bound(us(now));
                if (nx != s.end() && (next == 0 || nx->first < next)) { next = nx->first; }
            }
            if (next != 0) { sched.schedule(dt(next)); }
        }
    };
    // the ticking index: <= 0 -> 0, 1 -> 1, >= 2 -> 2
    struct SrcIndex
    {
        static constexpr auto name              = "hgv_src_index";
        static constexpr bool schedule_on_start = true;
        static void           eval(NodeScheduler sched, DateTime now, Scalar<"k", Int> k, Out<TS<Int>> out)
        {
            drive(k.value(), now, sched, [&](const Payload &p) { out.set(p.at(0) <= 0 ? Int{0} : p.at(0) == 1 ? Int{1} : Int{2}); });
        }
    };

    // a value passed THROUGH a nested graph (depth 1 / 2), and the consumers in their OWN nested graph (depth 1 / 2)
    template <typename S>
    struct PassThrough
    {
        static constexpr auto name = "hgv_pass_through";
        static Port<S>        compose(Wiring &, Port<S> ts) { return ts; }
    };
    template <typename S>
    struct PassThrough2
    {
        static constexpr auto name = "hgv_pass_through2";
        static Port<S>        compose(Wiring &w, Port<S> ts) { return nested_<PassThrough<S>>(w, ts); }
    };
    template <typename S>
    struct Below2
    {
        static constexpr auto name = "hgv_below2";
        static void           compose(Wiring &w, Port<S> sel, Port<TS<Int>> poke) { nested_<Below<S>>(w, sel, poke); }
    };

    template <typename S, typename PA, typename PB, typename PC, typename PP>
    void wire_ops(Wiring &w, std::int64_t op, std::int64_t wrap, PA a, PB b, PC c, PP poke)
    {
        auto below = [&](auto sel) {
            if (wrap >= 1 && wrap <= 4)
            {
                // wrap 1..4: the dereferenced value goes through nested_<PassThrough> (depth 1: wrap 1,3; depth 2:
                // wrap 2,4) and the consumers sit in their own nested graph (depth 1: wrap 1,2; depth 2: wrap 3,4)
                Port<S> v = sel.template as<S>();
                Port<S> p = (wrap == 1 || wrap == 3) ? nested_<PassThrough<S>>(w, v) : nested_<PassThrough2<S>>(w, v);
                if (wrap <= 2) { nested_<Below<S>>(w, p, poke); }
                else { nested_<Below2<S>>(w, p, poke); }
                wire<RefWatch<S>>(w, sel);
                return;
            }
            wire<Cons0<S>>(w, sel);
            wire<Cons1<S>>(w, sel, poke);
            wire<Cons2<S>>(w, sel, poke);
            wire<Cons3<S>>(w, sel);
            wire<RefWatch<S>>(w, sel);
        };
        if (op == 3)
        {
            // the consumers live INSIDE a nested graph: the dereferenced value crosses the boundary inwards
            auto cond = wire<SrcBool>(w, Int{0});
            auto sel  = wire<stdlib::if_then_else>(w, cond, a, b);
            nested_<Below<S>>(w, sel.template as<S>(), poke);
            wire<RefWatch<S>>(w, sel);
        }
        else if (op == 5)
        {
            // the REFERENCE itself crosses the boundary; it is dereferenced inside the nested graph, so target
            // ticks reach the inner consumers only through the child graph's own scheduling (graph.cpp
            // nested_schedule_node_impl wakes the parent node)
            auto cond = wire<SrcBool>(w, Int{0});
            auto sel  = wire<stdlib::if_then_else>(w, cond, a, b);
            nested_<BelowRef<S>>(w, sel.template as<REF<S>>(), poke);
            wire<RefWatch<S>>(w, sel);
        }
        else if (op == 6 || op == 7)
        {
            // CHAINED selection: the selected branch of the outer selector is itself a reference output
            //   inner = if_then_else(c1, a, b);  outer = if_then_else(c2, inner, c)   (op 6)
            //                                    outer = if_cmp(cmp2, inner, c, c)     (op 7)
            auto c1    = wire<SrcBool>(w, Int{0});
            auto inner = wire<stdlib::if_then_else>(w, c1, a, b);
            if (op == 6)
            {
                auto c2 = wire<SrcBool>(w, Int{4});
                below(wire<stdlib::if_then_else>(w, c2, inner, c));
            }
            else
            {
                auto c2 = wire<SrcCmp>(w, Int{4});
                below(wire<stdlib::if_cmp>(w, c2, inner, c, c));
            }
        }
        else if (op == 4)
        {
            // the selection lives INSIDE a nested graph, its dereferenced result is exported
            auto cond = wire<SrcBool>(w, Int{0});
            auto sel  = nested_<Choose<S>>(w, cond, a, b);
            wire<Cons0<S>>(w, sel);
            wire<Cons1<S>>(w, sel, poke);
            wire<Cons2<S>>(w, sel, poke);
            wire<Cons3<S>>(w, sel);
        }
        else if (op == 1)
        {
            auto cmp = wire<SrcCmp>(w, Int{0});
            below(wire<stdlib::if_cmp>(w, cmp, a, b, c));
        }
        else
        {
            auto cond = wire<SrcBool>(w, Int{0});
            below(wire<stdlib::if_then_else>(w, cond, a, b));
        }
    }

    template <typename S>
    void wire_case(Wiring &w, std::int64_t op, std::int64_t prod, std::int64_t wrap)
    {
        auto       poke   = wire<Src<TS<Int>>>(w, Int{7});
        const bool need_c = op == 1 || op == 6 || op == 7;
        if (op == 8)
        {
            auto list = wire<ProdL<S>>(w);
            wire<Direct<S>>(w, tsl_element(list, 0), Int{1});
            wire<Direct<S>>(w, tsl_element(list, 1), Int{2});
            wire<Direct<S>>(w, tsl_element(list, 2), Int{3});
            auto key = wire<SrcIndex>(w, Int{0});
            auto sel = wire<stdlib::getitem_>(w, list, key);
            if (wrap >= 1 && wrap <= 4)
            {
                Port<S> v = sel.template as<S>();
                Port<S> p = (wrap == 1 || wrap == 3) ? nested_<PassThrough<S>>(w, v) : nested_<PassThrough2<S>>(w, v);
                if (wrap <= 2) { nested_<Below<S>>(w, p, poke); }
                else { nested_<Below2<S>>(w, p, poke); }
                wire<RefWatch<S>>(w, sel);
                return;
            }
            wire<Cons0<S>>(w, sel);
            wire<Cons1<S>>(w, sel, poke);
            wire<Cons2<S>>(w, sel, poke);
            wire<Cons3<S>>(w, sel);
            wire<RefWatch<S>>(w, sel);
            return;
        }
        if (prod == 1)
        {
            // the targets are three fields of ONE node's bundle output, selected individually
            auto bundle = wire<ProdB<S>>(w, Int{need_c ? 3 : 2});
            auto a      = wire<stdlib::getattr_>(w, bundle, Str{"a"}).template as<S>();
            auto b      = wire<stdlib::getattr_>(w, bundle, Str{"b"}).template as<S>();
            auto c      = wire<stdlib::getattr_>(w, bundle, Str{"c"}).template as<S>();
            wire<Direct<S>>(w, a, Int{1});
            wire<Direct<S>>(w, b, Int{2});
            if (need_c) { wire<Direct<S>>(w, c, Int{3}); }
            wire_ops<S>(w, op, wrap, a, b, c, poke);
        }
        else
        {
            auto a = wire<Src<S>>(w, Int{1});
            auto b = wire<Src<S>>(w, Int{2});
            wire<Direct<S>>(w, a, Int{1});
            wire<Direct<S>>(w, b, Int{2});
            if (need_c)
            {
                auto c = wire<Src<S>>(w, Int{3});
                wire<Direct<S>>(w, c, Int{3});
                wire_ops<S>(w, op, wrap, a, b, c, poke);
            }
            else { wire_ops<S>(w, op, wrap, a, b, a, poke); }
        }
    }

    void run_case(const hgv::Case &c, hgv::Out &out)
    {
        g     = Ctx{};
        g.out = &out;
        std::int64_t start = 1, end = 10, shape = 0, op = 0, prod = 0, wrap = 0;
        for (const Line &l : c)
        {
            if (l[0] == 1 && l.size() >= 3) { start = l[1]; end = l[2]; shape = l.size() > 3 ? l[3] : 0; op = l.size() > 4 ? l[4] : 0; prod = l.size() > 5 ? l[5] : 0; wrap = l.size() > 6 ? l[6] : 0; }
            else if (l[0] == 2 && l.size() >= 4 && l[1] >= 0 && l[1] < 8)
            {
                g.script[l[1]][l[2]] = Payload(l.begin() + 3, l.end());
            }
        }
        try
        {
            Wiring w;
            switch (shape)
            {
                case 1: wire_case<TSS<Int>>(w, op, prod, wrap); break;
                case 2: wire_case<TSD<Int, TS<Int>>>(w, op, prod, wrap); break;
                default: wire_case<TS<Int>>(w, op, prod, wrap); break;
            }
            GraphBuilder         gb = std::move(w).finish();
            GraphExecutorBuilder eb;
            eb.graph_builder(std::move(gb)).start_time(dt(start)).end_time(dt(end));
            GraphExecutorValue executor = eb.make_executor();
            auto               ev       = executor.view();
            try { ev.run(); }
            catch (const std::exception &e)
            {
                out.line({29, 1});
                std::fprintf(stderr, "run error: %s\n", e.what());
            }
        }
        catch (const std::exception &e)
        {
            out.line({28, 1});
            std::fprintf(stderr, "build error: %s\n", e.what());
        }
    }
}  // namespace

int main(int argc, char **argv)
{
    if (argc < 2) { std::fprintf(stderr, "usage: ref_driver <batch>\n"); return 2; }
    stdlib::register_standard_operators();
    auto     batch = hgv::read_batch(argv[1]);
    hgv::Out out;
    for (const auto &c : batch)
    {
        run_case(c, out);
        out.end_case();
    }
    return 0;
}
