#include <../tests/cpp/test_nested_wiring.cpp>
