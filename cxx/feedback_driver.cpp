// feedback_driver.cpp — family "feedback" (property C08): generated flat dataflow
// programs of native scripted nodes over TS<int64> (exactly the vocabulary of
// core_driver.cpp) plus feedback pairs built with the REAL
// make_feedback_source_node / make_feedback_sink_node of /repo's tree, run by the
// real simulation executor.  See gen/feedback.py for the case format;
// coq/Feedback.v is the model that must print the same lines.
#include "hgv_io.h"

#include <hgraph/lib/std/std_operators.h>
#include <hgraph/lib/testing/runtime_support.h>
#include <hgraph/runtime/executor.h>
#include <hgraph/types/static_node.h>
#include <hgraph/runtime/feedback_node.h>
#include <hgraph/runtime/lifecycle_observer.h>
#include <hgraph/runtime/node_scheduler.h>
#include <hgraph/runtime/runtime.h>
#include <hgraph/types/graph_wiring.h>
#include <hgraph/types/metadata/type_registry.h>
#include <hgraph/types/value/value.h>
#include <hgraph/types/value/compact_container_ops.h>
#include <hgraph/types/value/value_builder.h>
#include <hgraph/util/verif_hook.h>

#include <algorithm>
#include <atomic>
#include <cstdlib>
#include <cstring>
#include <map>
#include <optional>
#include <stdexcept>

namespace hgraph::stdlib { void register_json_operators() {} }

using namespace hgraph;
using hgv::Line;

namespace
{
    std::int64_t us(DateTime t) { return t.time_since_epoch().count(); }
    DateTime     dt(std::int64_t v) { return DateTime{TimeDelta{v}}; }

    // active / marked: the node's own declaration (schema.active_inputs) and the wiring-time passive marker
    // (NodeBuilder::with_passive_inputs); wire value 0 passive, 1 active, 2 active + marked, 3 passive + marked
    struct InSpec { std::size_t src; bool active; bool required; bool marked{false}; };
    struct Op { std::int64_t code, a, b; };
    struct NodeSpec
    {
        int                          kind{0};           // 0 native, 1 feedback source, 2 feedback sink
        bool                         has_init{false};
        std::int64_t                 init{0};
        std::size_t                  fb_prod{0}, fb_src{0};
        bool                         uses_sched{false}, sched_on_start{false}, has_out{false};
        int                          valid_mode{0};
        std::vector<InSpec>          ins;
        std::map<std::int64_t, std::vector<Op>> scripts;  // k -> ops; -1 start; -2 default
        std::int64_t                 runs{0};
    };

    struct Ctx
    {
        std::vector<NodeSpec> nodes;
        hgv::Out             *out{nullptr};
    };

    const std::string &tag_name(std::int64_t t)
    {
        static const std::string names[] = {"", "a", "b", "c", "d"};
        return names[t < 0 || t > 4 ? 0 : t];
    }

    void snapshot(hgv::Out &out, std::int64_t code, std::size_t i, DateTime now, std::int64_t k, const NodeScheduler &s,
                  std::int64_t extra)
    {
        out.line({code, (std::int64_t)i, us(now), k, us(s.next_scheduled_time()), s.is_scheduled(), s.is_scheduled_now(),
                  s.has_tag("a"), us(s.tag_time("a")), s.tag_is_scheduled_now("a"),
                  s.has_tag("b"), us(s.tag_time("b")), s.tag_is_scheduled_now("b"),
                  s.has_tag("c"), us(s.tag_time("c")), s.tag_is_scheduled_now("c"), extra});
    }

    void run_ops(Ctx &ctx, std::size_t i, const NodeView &view, DateTime now, bool started, std::int64_t k)
    {
        NodeSpec &n  = ctx.nodes[i];
        auto      it = n.scripts.find(k);
        if (it == n.scripts.end() && k >= 0) { it = n.scripts.find(-2); }
        if (it == n.scripts.end()) { return; }
        std::optional<NodeScheduler> sched;
        if (n.uses_sched) { sched.emplace(view.scheduler_state(), view.graph_value(), i, now, started); }
        std::int64_t opi = 0;
        for (const Op &op : it->second)
        {
            std::int64_t extra = 0;
            switch (op.code)
            {
                case 1: if (sched) { sched->schedule(dt(us(now) + op.a), op.b == 0 ? std::nullopt : std::optional<std::string>{tag_name(op.b)}); } break;
                case 2: if (sched) { sched->un_schedule(tag_name(op.b)); } break;
                case 3: if (sched) { sched->un_schedule(); } break;
                case 4: if (sched) { extra = us(sched->pop_tag(tag_name(op.b))); } break;
                case 5: if (sched) { sched->reset(); } break;
                case 6:
                {
                    if (!n.has_out || !started) { break; }
                    std::int64_t v = op.a;
                    if (!n.ins.empty())
                    {
                        auto root   = view.input(now);
                        auto bundle = root.as_bundle();
                        for (std::size_t s = 0; s < n.ins.size(); ++s)
                        {
                            auto in = bundle[s];
                            if (in.valid()) { v += in.value().template checked_as<std::int64_t>(); }
                        }
                    }
                    {
                        // move_value_from returns "first write for this time", not success
                        auto mutation = view.output(now).begin_mutation(now);
                        static_cast<void>(mutation.move_value_from(Value{v}));
                    }
                    ctx.out->line({14, (std::int64_t)i, us(now), v});
                    break;
                }
                case 7: view.graph_value()->schedule_node(i, dt(us(now) + op.a)); break;
                case 8: throw std::runtime_error("hgv boom");
                case 9:
                case 10:
                {
                    if (op.a < 0 || (std::size_t)op.a >= n.ins.size()) { break; }
                    auto root   = view.input(now);
                    auto bundle = root.as_bundle();
                    auto in     = bundle[(std::size_t)op.a];
                    if (op.code == 9) { in.make_passive(); } else { in.make_active(); }
                    break;
                }
                case 11:
                {
                    // the producer invalidates its own output (public mutation API)
                    if (!n.has_out || !started) { break; }
                    bool did = false;
                    {
                        auto mutation = view.output(now).begin_mutation(now);
                        did = mutation.invalidate();
                    }
                    ctx.out->line({16, (std::int64_t)i, us(now), did});
                    break;
                }
                default: break;
            }
            if (sched && op.code >= 1 && op.code <= 5) { snapshot(*ctx.out, 13, i, now, opi, *sched, extra); }
            ++opi;
        }
    }

    struct Obs : LifecycleObserver
    {
        hgv::Out *out;
        Ctx      *ctx;
        Obs(hgv::Out *o, Ctx *c) : out(o), ctx(c) {}
        void on_before_graph_evaluation(const GraphView &g) override { out->line({10, us(g.evaluation_time())}); }
        void on_after_graph_evaluation(const GraphView &g) override
        {
            out->line({20, us(g.evaluation_time()), us(g.next_scheduled_time())});
        }
        void on_before_node_evaluation(const NodeView &n) override
        {
            out->line({11, (std::int64_t)n.node_index(), us(n.graph().evaluation_time())});
        }
        void on_after_node_evaluation(const NodeView &n) override
        {
            const std::size_t i = n.node_index();
            if (i >= ctx->nodes.size()) { return; }
            const NodeSpec &spec = ctx->nodes[i];
            const DateTime  now  = n.graph().evaluation_time();
            if (spec.kind == 1)
            {
                // the reader-side port of the feedback: the source's output after it was evaluated
                auto       o     = n.output(now);
                const bool valid = o.valid();
                out->line({16, (std::int64_t)i, us(now), valid, valid ? o.value().checked_as<std::int64_t>() : 0,
                           us(o.last_modified_time())});
            }
            else if (spec.kind == 2)
            {
                // the sink's effect: graph slot and delta state of the paired source
                auto            g     = n.graph();
                NodeView        src   = g.node_at(spec.fb_src);
                const ValueView state = src.state();
                const auto     *pv    = state.has_value() ? state.try_as<std::int64_t>() : nullptr;
                out->line({17, (std::int64_t)i, us(now), (std::int64_t)spec.fb_src, us(g.node_scheduled_time(spec.fb_src)),
                           pv != nullptr, pv != nullptr ? *pv : 0});
            }
        }
    };


    // ===================================================================================
    // Collection-shaped feedback through the wiring layer (case line "7 kind passive structural"):
    //   kind 1  TSS<Int> delay line:       scripted set source -> feedback<TSS<Int>>; probes on both sides
    //   kind 2  TSD<Int,TS<Int>> delay line: scripted dict source -> feedback<TSD<..>>; probes on both sides
    //   kind 3  TSD loop: grow(x, [passive](fb())) adds one key per evaluation, fb(grow); the reader's
    //           feedback input has activity Structural (structural=1) or the default (0)
    // Script lines "8 t op key value" (absolute time t): kind 1: op 1 add key, 2 remove key;
    // kind 2: op 1 set key value, 2 erase key; kind 3: op 1 x.set(value).
    // These go through stdlib::feedback<>, i.e. the real make_feedback_*_node over the collection
    // schemas, the real ranking, and the Passive argument tag (NodeBuilder::with_passive_inputs).
    struct WStep { std::int64_t t, op, key, value; };
    std::vector<WStep> g_wsteps;
    hgv::Out          *g_wout{nullptr};

    template <typename F>
    void apply_steps(NodeScheduler &sched, State<Int> &index, DateTime now, F &&f)
    {
        auto i = static_cast<std::size_t>(index.get());
        while (i < g_wsteps.size() && g_wsteps[i].t == us(now)) { f(g_wsteps[i]); ++i; }
        index.set(static_cast<Int>(i));
        if (i < g_wsteps.size()) { sched.schedule(dt(g_wsteps[i].t)); }
    }

    struct WSetSource
    {
        static constexpr auto name              = "hgv_set_source";
        static constexpr bool schedule_on_start = true;
        static void start(State<Int> index) { index.set(Int{0}); }
        static void eval(NodeScheduler sched, State<Int> index, DateTime now, Out<TSS<Int>> out)
        {
            apply_steps(sched, index, now, [&](const WStep &st) {
                if (st.op == 1) { (void)out.add(Int{st.key}); }
                else if (st.op == 2) { (void)out.remove(Int{st.key}); }
            });
        }
    };

    struct WDictSource
    {
        static constexpr auto name              = "hgv_dict_source";
        static constexpr bool schedule_on_start = true;
        static void start(State<Int> index) { index.set(Int{0}); }
        static void eval(NodeScheduler sched, State<Int> index, DateTime now, Out<TSD<Int, TS<Int>>> out)
        {
            apply_steps(sched, index, now, [&](const WStep &st) {
                if (st.op == 1) { out.set(Int{st.key}, Int{st.value}); }
                else if (st.op == 2) { (void)out.erase(Int{st.key}); }
            });
        }
    };

    struct WIntSource
    {
        static constexpr auto name              = "hgv_int_source";
        static constexpr bool schedule_on_start = true;
        static void start(State<Int> index) { index.set(Int{0}); }
        static void eval(NodeScheduler sched, State<Int> index, DateTime now, Out<TS<Int>> out)
        {
            apply_steps(sched, index, now, [&](const WStep &st) {
                if (st.op == 1)
                {
                    out.set(Int{st.value});
                    g_wout->line({33, us(now), st.value});
                }
            });
        }
    };

    struct WSetProbe
    {
        static constexpr auto name = "hgv_set_probe";
        static void eval(In<"s", TSS<Int>> s, Scalar<"id", Int> id, DateTime now)
        {
            std::vector<std::int64_t> added, removed, all;
            for (Int a : s.added()) { added.push_back(static_cast<std::int64_t>(a)); }
            for (Int r : s.removed()) { removed.push_back(static_cast<std::int64_t>(r)); }
            for (Int v : s.values()) { all.push_back(static_cast<std::int64_t>(v)); }
            std::sort(added.begin(), added.end());
            std::sort(removed.begin(), removed.end());
            std::sort(all.begin(), all.end());
            Line l{30, static_cast<std::int64_t>(id.value()), us(now)};
            l.push_back((std::int64_t)added.size());
            l.insert(l.end(), added.begin(), added.end());
            l.push_back((std::int64_t)removed.size());
            l.insert(l.end(), removed.begin(), removed.end());
            l.push_back((std::int64_t)all.size());
            l.insert(l.end(), all.begin(), all.end());
            g_wout->line(l);
        }
    };

    template <typename D>
    void dict_probe_line(std::int64_t id, const D &d, DateTime now)
    {
        std::vector<std::pair<std::int64_t, std::int64_t>> mod, all;
        std::vector<std::int64_t>                          rem;
        for (auto [k, v] : d.modified_items())
        {
            mod.emplace_back(static_cast<std::int64_t>(k.template checked_as<Int>()), v.valid() ? static_cast<std::int64_t>(v.value()) : -999);
        }
        for (auto [k, v] : d.removed_items()) { rem.push_back(static_cast<std::int64_t>(k.template checked_as<Int>())); }
        for (auto [k, v] : d.items())
        {
            all.emplace_back(static_cast<std::int64_t>(k.template checked_as<Int>()), v.valid() ? static_cast<std::int64_t>(v.value()) : -999);
        }
        std::sort(mod.begin(), mod.end());
        std::sort(rem.begin(), rem.end());
        std::sort(all.begin(), all.end());
        Line l{31, id, us(now)};
        l.push_back((std::int64_t)mod.size());
        for (auto &[k, v] : mod) { l.push_back(k); l.push_back(v); }
        l.push_back((std::int64_t)rem.size());
        l.insert(l.end(), rem.begin(), rem.end());
        l.push_back((std::int64_t)all.size());
        for (auto &[k, v] : all) { l.push_back(k); l.push_back(v); }
        g_wout->line(l);
    }

    struct WDictProbe
    {
        static constexpr auto name = "hgv_dict_probe";
        static void eval(In<"d", TSD<Int, TS<Int>>> d, Scalar<"id", Int> id, DateTime now)
        {
            dict_probe_line(static_cast<std::int64_t>(id.value()), d, now);
        }
    };

    // adds one new key per evaluation, derived from what has already come back through the feedback
    struct WGrowStructural
    {
        static constexpr auto name = "hgv_grow_structural";
        static void eval(In<"x", TS<Int>> x,
                         In<"seen", TSD<Int, TS<Int>>, InputActivity::Structural, InputValidity::Unchecked> seen,
                         DateTime now, Out<TSD<Int, TS<Int>>> out)
        {
            g_wout->line({32, us(now)});
            const Int next_key = static_cast<Int>(seen.valid() ? seen.size() : 0) + 1;
            out.set(next_key, x.value());
        }
    };

    struct WGrowActive
    {
        static constexpr auto name = "hgv_grow_active";
        static void eval(In<"x", TS<Int>> x,
                         In<"seen", TSD<Int, TS<Int>>, InputActivity::Active, InputValidity::Unchecked> seen,
                         DateTime now, Out<TSD<Int, TS<Int>>> out)
        {
            g_wout->line({32, us(now)});
            const Int next_key = static_cast<Int>(seen.valid() ? seen.size() : 0) + 1;
            out.set(next_key, x.value());
        }
    };

    // ---- feedback loops INSIDE child graphs (kind 4: nested_<> depth 1/2, kind 5: map_ body, one child per key).
    // variant 0: delay line   fb = feedback<TS<Int>>(); fb(ts); written = ts, delivered = fb()
    // variant 1: accumulator  fb = feedback<TS<Int>>(0); total = add(ts, passive(fb())); fb(total); written = total
    // Values carry the key (key * 100000 + ...) so the recorders need no key; lines 34 side t v (1 written, 2 delivered).
    struct WRecWritten
    {
        static constexpr auto name = "hgv_rec_written";
        static void eval(In<"ts", TS<Int>> ts, DateTime now) { g_wout->line({34, 1, us(now), static_cast<std::int64_t>(ts.value())}); }
    };
    struct WRecDelivered
    {
        static constexpr auto name = "hgv_rec_delivered";
        static void eval(In<"ts", TS<Int>> ts, DateTime now) { g_wout->line({34, 2, us(now), static_cast<std::int64_t>(ts.value())}); }
    };
    struct WAddKeep
    {
        // total = ts + (fed back total mod 100000): stays inside the key's value range
        static constexpr auto name = "hgv_add_keep";
        static void eval(In<"lhs", TS<Int>> lhs, In<"rhs", TS<Int>> rhs, Out<TS<Int>> out)
        {
            out.set(lhs.value() + (rhs.value() % 1000) * 7 % 1000);
        }
    };
    struct WChildDelay
    {
        static constexpr auto name = "hgv_child_delay";
        static Port<TS<Int>> compose(Wiring &w, Port<TS<Int>> ts)
        {
            auto fb = stdlib::feedback<TS<Int>>(w);
            fb(ts);
            wire<WRecWritten>(w, ts);
            wire<WRecDelivered>(w, fb());
            return fb();
        }
    };
    struct WChildAcc
    {
        static constexpr auto name = "hgv_child_acc";
        static Port<TS<Int>> compose(Wiring &w, Port<TS<Int>> ts)
        {
            auto fb    = stdlib::feedback<TS<Int>>(w);
            auto total = wire<WAddKeep>(w, ts, passive(fb()));
            auto first = wire<WFirst>(w, ts, total);
            fb(first);
            wire<WRecWritten>(w, first);
            wire<WRecDelivered>(w, fb());
            return first;
        }
        // the loop needs a first value: until the feedback is valid the write is ts itself
        struct WFirst
        {
            static constexpr auto name = "hgv_first";
            static void eval(In<"ts", TS<Int>> ts, In<"total", TS<Int>, InputActivity::Active, InputValidity::Unchecked> total, Out<TS<Int>> out)
            {
                out.set(total.valid() && total.modified() ? total.value() : ts.value());
            }
        };
    };
    template <typename C>
    struct WNest1
    {
        static constexpr auto name = "hgv_nest1";
        static Port<TS<Int>> compose(Wiring &w, Port<TS<Int>> ts) { return nested_<C>(w, ts); }
    };

    // ---- kind 6: feedback of TSB shape with partial-field writes.  Script "8 t 1 field value" (field 0/1/2 = a/b/c).
    // Two feedbacks on the same producer: without and with a declared initial value {a:0,b:0,c:0}.
    // Probe lines 35 id t (modified valid value) x3; id 1 written side, 2 feedback, 3 feedback with initial value.
    using WABC = TSB<"HgvABC", Field<"a", TS<Int>>, Field<"b", TS<Int>>, Field<"c", TS<Int>>>;

    struct WBundleSource
    {
        static constexpr auto name              = "hgv_bundle_source";
        static constexpr bool schedule_on_start = true;
        static void start(State<Int> index) { index.set(Int{0}); }
        static void eval(NodeScheduler sched, State<Int> index, DateTime now, Out<WABC> out)
        {
            apply_steps(sched, index, now, [&](const WStep &st) {
                if (st.op != 1) { return; }
                if (st.key == 0) { out.template field<"a">().set(Int{st.value}); }
                else if (st.key == 1) { out.template field<"b">().set(Int{st.value}); }
                else { out.template field<"c">().set(Int{st.value}); }
            });
        }
    };

    struct WBundleProbe
    {
        static constexpr auto name = "hgv_bundle_probe";
        static void eval(In<"s", WABC> s, Scalar<"id", Int> id, DateTime now)
        {
            auto a = s.template field<"a">();
            auto b = s.template field<"b">();
            auto c = s.template field<"c">();
            g_wout->line({35, static_cast<std::int64_t>(id.value()), us(now),
                          a.modified(), a.valid(), a.valid() ? static_cast<std::int64_t>(a.value()) : 0,
                          b.modified(), b.valid(), b.valid() ? static_cast<std::int64_t>(b.value()) : 0,
                          c.modified(), c.valid(), c.valid() ? static_cast<std::int64_t>(c.value()) : 0});
        }
    };

    // ---- kind 7: a feedback loop inside a try_except_ child; a validating node ranked AFTER the sink throws on
    // negative values (captured by try_except_), so the write and the failure happen in the same child cycle.
    struct WIdent
    {
        static constexpr auto name = "hgv_ident";
        static void eval(In<"x", TS<Int>> x, Out<TS<Int>> out) { out.set(x.value()); }
    };
    struct WRejectNegative
    {
        static constexpr auto name = "hgv_reject_negative";
        static void eval(In<"x", TS<Int>> x)
        {
            if (x.value() < 0) { throw std::runtime_error("negative value rejected"); }
        }
    };
    struct WRecError
    {
        static constexpr auto name = "hgv_rec_error";
        static void eval(In<"e", TS<NodeError>> e, DateTime now) { g_wout->line({36, us(now)}); }
    };
    struct WTryLoop
    {
        static constexpr auto name = "hgv_try_loop";
        static void compose(Wiring &w, Port<TS<Int>> x)
        {
            auto fb = stdlib::feedback<TS<Int>>(w);
            fb(x);
            wire<WRecWritten>(w, x);
            wire<WRecDelivered>(w, fb());
            auto y = wire<WIdent>(w, x);
            wire<WRejectNegative>(w, y);
        }
    };

    // ---- kind 8: feedback<TS<HomogeneousTuple<Int>>> whose producer writes IMMUTABLE COMPACT tuples: the source's
    // planned state does not accept them in place, the sink goes through replace_state(capture_delta(ts)).
    // Script "8 t 1 len base": the tuple (base, base+1, ..).  passive field = 1: declared initial value (1, 2).
    // Probe lines 37 id t n x1..xn (id 1 written, 2 delivered).
    using WTup = TS<HomogeneousTuple<Int>>;
    [[nodiscard]] Value compact_tuple(std::int64_t len, std::int64_t base)
    {
        const auto *meta    = scalar_descriptor<HomogeneousTuple<Int>>::value_meta();
        const auto  binding = ValuePlanFactory::instance().type_for(scalar_descriptor<Int>::value_meta());
        ListBuilder builder{binding};
        for (std::int64_t i = 0; i < len; ++i) { builder.push_back(Int{base + i}); }
        ListStorage storage = builder.build_storage();
        return Value{compact_list_type(binding, *meta), &storage};
    }
    struct WTupleSource
    {
        static constexpr auto name              = "hgv_tuple_source";
        static constexpr bool schedule_on_start = true;
        static void start(State<Int> index) { index.set(Int{0}); }
        static void eval(NodeScheduler sched, State<Int> index, DateTime now, Out<WTup> out)
        {
            apply_steps(sched, index, now, [&](const WStep &st) {
                if (st.op == 1)
                {
                    auto mutation = static_cast<const TSOutputView &>(out).begin_mutation(now);
                    static_cast<void>(mutation.move_value_from(compact_tuple(st.key, st.value)));
                }
            });
        }
    };
    struct WTupleProbe
    {
        static constexpr auto name = "hgv_tuple_probe";
        static void eval(In<"x", WTup> x, Scalar<"id", Int> id, DateTime now)
        {
            Line l{37, static_cast<std::int64_t>(id.value()), us(now)};
            const ValueView v = static_cast<const TSInputView &>(x).value();
            if (v.has_value())
            {
                const auto list = v.as_indexed_view();
                l.push_back((std::int64_t)list.size());
                for (std::size_t i = 0; i < list.size(); ++i) { l.push_back(static_cast<std::int64_t>(list.at(i).template checked_as<Int>())); }
            }
            else { l.push_back(-1); }
            g_wout->line(l);
        }
    };

    struct CycleObs : LifecycleObserver
    {
        hgv::Out *out;
        explicit CycleObs(hgv::Out *o) : out(o) {}
        void on_before_graph_evaluation(const GraphView &g) override { out->line({10, us(g.evaluation_time())}); }
    };

    void run_wired(const hgv::Case &c, hgv::Out &out)
    {
        std::int64_t start = 1, end = 10, kind = 1, passive_flag = 0, structural = 1;
        g_wsteps.clear();
        g_wout = &out;
        for (const Line &l : c)
        {
            if (l[0] == 1) { start = l[1]; end = l[2]; }
            else if (l[0] == 7) { kind = l[1]; passive_flag = l.size() > 2 ? l[2] : 0; structural = l.size() > 3 ? l[3] : 1; }
            else if (l[0] == 8) { g_wsteps.push_back({l[1], l[2], l[3], l.size() > 4 ? l[4] : 0}); }
        }
        std::stable_sort(g_wsteps.begin(), g_wsteps.end(), [](const WStep &a, const WStep &b) { return a.t < b.t; });
        try
        {
            Wiring w;
            if (kind == 1)
            {
                auto s  = wire<WSetSource>(w);
                auto fb = stdlib::feedback<TSS<Int>>(w);
                fb(s);
                wire<WSetProbe>(w, s, Int{1});
                wire<WSetProbe>(w, fb(), Int{2});
            }
            else if (kind == 2)
            {
                auto s  = wire<WDictSource>(w);
                auto fb = stdlib::feedback<TSD<Int, TS<Int>>>(w);
                fb(s);
                wire<WDictProbe>(w, s, Int{1});
                wire<WDictProbe>(w, fb(), Int{2});
            }
            else if (kind == 4)
            {
                // passive_flag = variant, structural = nesting depth (1 or 2)
                auto x = wire<WIntSource>(w);
                if (passive_flag == 0)
                {
                    if (structural >= 2) { (void)nested_<WNest1<WChildDelay>>(w, x); } else { (void)nested_<WChildDelay>(w, x); }
                }
                else
                {
                    if (structural >= 2) { (void)nested_<WNest1<WChildAcc>>(w, x); } else { (void)nested_<WChildAcc>(w, x); }
                }
            }
            else if (kind == 6)
            {
                auto pr = wire<WBundleSource>(w);
                auto fb = stdlib::feedback<WABC>(w);
                fb(pr);
                BundleBuilder init{ValuePlanFactory::instance().type_for(schema_descriptor<WABC>::ts_meta()->delta_value_schema)};
                init.set("a", Value{Int{0}});
                init.set("b", Value{Int{0}});
                init.set("c", Value{Int{0}});
                auto fbi = stdlib::feedback<WABC>(w, init.build());
                fbi(pr);
                wire<WBundleProbe>(w, pr, Int{1});
                wire<WBundleProbe>(w, fb(), Int{2});
                wire<WBundleProbe>(w, fbi(), Int{3});
            }
            else if (kind == 8)
            {
                auto pr = wire<WTupleSource>(w);
                auto fb = passive_flag != 0 ? stdlib::feedback<WTup>(w, compact_tuple(2, 1)) : stdlib::feedback<WTup>(w);
                fb(pr);
                wire<WTupleProbe>(w, pr, Int{1});
                wire<WTupleProbe>(w, fb(), Int{2});
            }
            else if (kind == 7)
            {
                auto x   = wire<WIntSource>(w);
                auto err = try_except_<WTryLoop>(w, x).template as<TS<NodeError>>();
                wire<WRecError>(w, err);
            }
            else if (kind == 5)
            {
                auto d = wire<WDictSource>(w);
                if (passive_flag == 0) { (void)wire<stdlib::map_>(w, fn<WChildDelay>(), d).template as<TSD<Int, TS<Int>>>(); }
                else { (void)wire<stdlib::map_>(w, fn<WChildAcc>(), d).template as<TSD<Int, TS<Int>>>(); }
            }
            else
            {
                auto x  = wire<WIntSource>(w);
                auto fb = stdlib::feedback<TSD<Int, TS<Int>>>(w);
                if (structural != 0)
                {
                    auto grown = passive_flag != 0 ? wire<WGrowStructural>(w, x, passive(fb())) : wire<WGrowStructural>(w, x, fb());
                    fb(grown);
                    wire<WDictProbe>(w, grown, Int{1});
                }
                else
                {
                    auto grown = passive_flag != 0 ? wire<WGrowActive>(w, x, passive(fb())) : wire<WGrowActive>(w, x, fb());
                    fb(grown);
                    wire<WDictProbe>(w, grown, Int{1});
                }
                wire<WDictProbe>(w, fb(), Int{2});
            }
            GraphBuilder         gb = std::move(w).finish();
            CycleObs             obs{&out};
            GraphExecutorBuilder eb;
            eb.graph_builder(std::move(gb)).start_time(dt(start)).end_time(dt(end)).add_lifecycle_observer(&obs);
            GraphExecutorValue executor = eb.make_executor();
            executor.view().run();
        }
        catch (const std::exception &e)
        {
            out.line({19, 1});
            std::fprintf(stderr, "wired error: %s\n", e.what());
        }
    }

    // ---- real-time executor under a virtual wall clock (case line "9 1"), through include/hgraph/util/verif_hook.h.
    // The clock stands one microsecond before end_time: every scheduled cycle is already due (a lagging graph never
    // waits) and runs at its own logical time; when nothing is due the loop waits for end_time - one microsecond of
    // real time - and the clock then reads end_time, which ends the run.  Deterministic and as fast as simulation.
    std::atomic<std::int64_t> g_vclock{0};
    std::int64_t              g_vend{0};
    std::int64_t rt_clock_cb(void *) { return g_vclock.load(); }
    void         rt_sync_cb(const char *name, void *)
    {
        if (std::strcmp(name, "rt.wait.after") == 0) { g_vclock.store(g_vend); }
    }

    void run_case(const hgv::Case &c, hgv::Out &out)
    {
        for (const Line &l : c) { if (l[0] == 7) { run_wired(c, out); return; } }
        bool realtime = false;
        for (const Line &l : c) { if (l[0] == 9 && l.size() > 1 && l[1] == 1) { realtime = true; } }
        auto       &registry = TypeRegistry::instance();
        const auto *int_meta = registry.register_scalar<std::int64_t>("int64");
        const auto *ts_int   = registry.ts(int_meta);

        Ctx          ctx;
        ctx.out = &out;
        std::int64_t start = 1, end = 10;
        for (const Line &l : c)
        {
            if (l[0] == 1) { start = l[1]; end = l[2]; }
            else if (l[0] == 2)
            {
                NodeSpec n;
                n.uses_sched     = l[2] != 0;
                n.sched_on_start = l[3] != 0;
                n.has_out        = l[4] != 0;
                n.valid_mode     = (int)l[6];
                for (std::int64_t s = 0; s < l[5]; ++s)
                {
                    const std::int64_t a = l[8 + 3 * s];
                    n.ins.push_back({(std::size_t)l[7 + 3 * s], a == 1 || a == 2, l[9 + 3 * s] != 0, a == 2 || a == 3});
                }
                ctx.nodes.push_back(std::move(n));
            }
            else if (l[0] == 4)
            {
                NodeSpec n;
                n.kind     = 1;
                n.has_out  = true;
                n.has_init = l[2] != 0;
                n.init     = l[3];
                ctx.nodes.push_back(std::move(n));
            }
            else if (l[0] == 5)
            {
                NodeSpec n;
                n.kind    = 2;
                n.fb_prod = (std::size_t)l[2];
                n.fb_src  = (std::size_t)l[3];
                n.ins.push_back({n.fb_prod, true, true, false});
                n.ins.push_back({n.fb_src, false, false, false});
                ctx.nodes.push_back(std::move(n));
            }
            else if (l[0] == 3) { ctx.nodes.at(l[1]).scripts[l[2]].push_back({l[3], l[4], l[5]}); }
        }

        GraphBuilder gb;
        for (std::size_t i = 0; i < ctx.nodes.size(); ++i)
        {
            NodeSpec        &n = ctx.nodes[i];
            if (n.kind == 1)
            {
                NodeBuilder b = make_feedback_source_node(*ts_int, n.has_init);
                if (n.has_init) { b.scalars(Value{n.init}); }
                gb.add_node(std::move(b));
                continue;
            }
            if (n.kind == 2)
            {
                gb.add_node(make_feedback_sink_node(*ts_int));
                continue;
            }
            NodeTypeMetaData schema;
            schema.display_name      = "hgv_node";
            schema.uses_scheduler    = n.uses_sched;
            schema.schedule_on_start = n.sched_on_start;
            if (n.has_out) { schema.output_schema = ts_int; }
            schema.node_kind = n.ins.empty() ? NodeKind::PullSource : (n.has_out ? NodeKind::Compute : NodeKind::Sink);
            std::optional<TSEndpointSchema> endpoint;
            if (!n.ins.empty())
            {
                std::vector<std::pair<std::string, const TSValueTypeMetaData *>> fields;
                std::vector<TSEndpointSchema>                                    children;
                std::vector<std::size_t>                                         active, valid;
                bool                                                             all_active = true;
                for (std::size_t s = 0; s < n.ins.size(); ++s)
                {
                    fields.emplace_back("i" + std::to_string(s), ts_int);
                    children.push_back(TSEndpointSchema::peered(ts_int));
                    if (n.ins[s].active) { active.push_back(s); } else { all_active = false; }
                    if (n.ins[s].required) { valid.push_back(s); }
                }
                const auto *in_schema = registry.un_named_tsb(fields);
                schema.input_schema   = in_schema;
                if (!all_active) { schema.active_inputs = active; }
                if (n.valid_mode == 1) { schema.valid_inputs = valid; }
                endpoint = TSEndpointSchema::non_peered(in_schema, std::move(children));
            }
            NodeCallbacks cb;
            Ctx          *pc = &ctx;
            cb.start    = [pc, i](const NodeView &v, DateTime t) { run_ops(*pc, i, v, t, false, -1); };
            cb.evaluate = [pc, i](const NodeView &v, DateTime t) {
                NodeSpec          &n = pc->nodes[i];
                const std::int64_t k = n.runs++;
                Line               l{12, (std::int64_t)i, us(t), k};
                if (n.uses_sched)
                {
                    NodeScheduler s{v.scheduler_state(), v.graph_value(), i, t, true};
                    l.push_back(s.is_scheduled_now());
                    l.push_back(us(s.next_scheduled_time()));
                }
                else { l.push_back(0); l.push_back(0); }
                if (!n.ins.empty())
                {
                    auto root   = v.input(t);
                    auto bundle = root.as_bundle();
                    for (std::size_t s = 0; s < n.ins.size(); ++s)
                    {
                        auto in = bundle[s];
                        const bool valid = in.valid();
                        l.push_back(valid);
                        l.push_back(in.modified());
                        l.push_back(valid ? in.value().template checked_as<std::int64_t>() : 0);
                        l.push_back(us(in.last_modified_time()));
                    }
                }
                pc->out->line(l);
                run_ops(*pc, i, v, t, true, k);
            };
            std::vector<std::size_t> marked;
            for (std::size_t s = 0; s < n.ins.size(); ++s) { if (n.ins[s].marked) { marked.push_back(s); } }
            try
            {
                NodeBuilder nb = endpoint ? NodeBuilder::native(std::move(schema), std::move(cb), std::move(*endpoint))
                                          : NodeBuilder::native(std::move(schema), std::move(cb));
                if (!marked.empty()) { nb = nb.with_passive_inputs(marked); }
                gb.add_node(std::move(nb));
            }
            catch (const std::invalid_argument &e)
            {
                out.line({18, 2});
                std::fprintf(stderr, "build error: %s\n", e.what());
                return;
            }
        }
        for (std::size_t i = 0; i < ctx.nodes.size(); ++i)
        {
            for (std::size_t s = 0; s < ctx.nodes[i].ins.size(); ++s)
            {
                gb.add_edge(GraphEdge{.source_node = ctx.nodes[i].ins[s].src, .source_path = {}, .target_node = i, .target_path = {s}});
            }
        }

        Obs                  obs{&out, &ctx};
        GraphExecutorBuilder eb;
        eb.graph_builder(std::move(gb)).start_time(dt(start)).end_time(dt(end)).add_lifecycle_observer(&obs);
        if (realtime)
        {
            eb.mode(GraphExecutorMode::RealTime);
            g_vend = end;
            g_vclock.store(end - 1);
            verif::hooks().sync_context.store(nullptr);
            verif::hooks().wall_context.store(nullptr);
            verif::hooks().sync_point.store(&rt_sync_cb, std::memory_order_release);
            verif::hooks().wall_clock.store(&rt_clock_cb, std::memory_order_release);
        }
        struct Unhook
        {
            ~Unhook()
            {
                verif::hooks().sync_point.store(nullptr, std::memory_order_release);
                verif::hooks().wall_clock.store(nullptr, std::memory_order_release);
            }
        } unhook;
        try
        {
            GraphExecutorValue executor = eb.make_executor();
            auto               ev       = executor.view();
            try { ev.run(); }
            catch (const std::exception &e)
            {
                const std::string w = e.what();
                std::int64_t      code = 1;
                if (w.find("hgv boom") != std::string::npos) { code = 2; }
                else if (w.find("in the past") != std::string::npos) { code = 3; }
                out.line({19, code}); if (code == 1) std::fprintf(stderr, "error: %s\n", w.c_str());
            }
            auto g = ev.graph();
            for (std::size_t i = 0; i < ctx.nodes.size(); ++i)
            {
                if (!ctx.nodes[i].has_out) { continue; }
                auto       o     = g.node_at(i).output(dt(end));
                const bool valid = o.valid();
                out.line({15, (std::int64_t)i, valid, valid ? o.value().checked_as<std::int64_t>() : 0, us(o.last_modified_time())});
            }
        }
        catch (const std::exception &e)
        {
            out.line({18, 1});
            std::fprintf(stderr, "build error: %s\n", e.what());
        }
    }
}  // namespace

int main(int argc, char **argv)
{
    if (argc < 2) { std::fprintf(stderr, "usage: feedback_driver <batch>\n"); return 2; }
    setenv("HGRAPH_VERIF", "1", 1);
    stdlib::register_standard_operators();
    auto     batch = hgv::read_batch(argv[1]);
    hgv::Out out;
    for (const auto &c : batch)
    {
        run_case(c, out);
        out.end_case();
    }
    return 0;
}
