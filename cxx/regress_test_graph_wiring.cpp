#include <../tests/cpp/test_graph_wiring.cpp>
