// lifecycle_dyn.cpp — family "lifecycle" (C14), dynamically created children: the REAL map_ of
// /repo's tree (map_sink_ over a TSD, map_ over a dynamic TSL) wired through the static DSL over
// static nodes with start / eval / stop hooks that follow the case's fault plan.  Judged by the
// oracle only (no Coq model of map_).  Case lines used here:
//   1 start end cleanup
//   12 variant        1: map_sink_(TSD) child{solo}   2: map_sink_(TSD) child{head -> tail}
//                     3: map_(dynamic TSL) child{head}, output to null_sink
//                     4: reduce_(TSD, zero 0) with a static-node combiner (one child graph per tree position)
//   13 c k v          in replay cycle c set key (TSL: index) k to v
//   14 c k            in replay cycle c remove key k (TSD only)
//   5 phase n len 1 <500+pos> [flavour]   the n-th invocation (over all children) of the hook of the
//                     child node at position pos throws
// Hook lines: 20|21|22 0 2 1 <500+pos> n inst   inst = ordinal of the instance's start call (1-based),
// kept in the node's State<Int>, so a stop can be matched with its start.
#include "hgv_io.h"

#include <hgraph/lib/std/operators/impl/record_replay_memory_impl.h>
#include <hgraph/lib/std/std_nodes.h>
#include <hgraph/lib/std/std_operators.h>
#include <hgraph/lib/std/value_util.h>
#include <hgraph/lib/testing/record_replay.h>
#include <hgraph/lib/testing/runtime_support.h>
#include <hgraph/runtime/lifecycle_observer.h>
#include <hgraph/runtime/runtime.h>
#include <hgraph/types/graph_wiring.h>
#include <hgraph/types/static_node.h>
#include <hgraph/types/subgraph_wiring.h>
#include <hgraph/types/wired_fn.h>

#include <map>
#include <optional>
#include <stdexcept>
#include <string>

using namespace hgraph;
using namespace hgraph::testing;
using hgv::Line;

namespace hgv_dyn
{
    struct Fault { std::int64_t phase, k, pos, flavour, id; };
    struct ForeignBoom { std::int64_t id; };

    struct World
    {
        std::vector<Fault> faults;
        std::int64_t       calls[2][3]{};   // [pos][phase]
        std::int64_t       start_calls{0};
        std::int64_t       first_foreign{-1};
        hgv::Out          *out{nullptr};
    };
    World *g_world = nullptr;

    void hook(std::int64_t pos, std::int64_t phase, std::int64_t inst)
    {
        World             &w = *g_world;
        const std::int64_t n = w.calls[pos][phase]++;
        w.out->line({20 + phase, 0, 2, 1, 500 + pos, n, inst});
        for (const Fault &f : w.faults)
        {
            if (f.pos == pos && f.phase == phase && f.k == n)
            {
                if (f.flavour != 0 && w.first_foreign < 0) { w.first_foreign = f.id; }
                if (f.flavour == 1) { throw ForeignBoom{f.id}; }
                if (f.flavour == 2) { throw (int)f.id; }
                throw std::runtime_error("hgv boom " + std::to_string(f.id));
            }
        }
    }

    template <int Pos>
    struct Probe
    {
        static void start(State<Int> state)
        {
            const std::int64_t inst = ++g_world->start_calls;
            state.set(Int{inst});
            hook(Pos, 0, inst);
        }
        static void stop(State<Int> state) { hook(Pos, 2, static_cast<std::int64_t>(state.get())); }
    };

    struct Head : Probe<0>
    {
        static constexpr auto name = "hgv_dyn_head";
        static void eval(In<"key", TS<Int>> key, In<"ts", TS<Int>> ts, State<Int> state, Out<TS<Int>> out)
        {
            hook(0, 1, static_cast<std::int64_t>(state.get()));
            out.set(ts.value() + key.value());
        }
    };
    struct HeadL : Probe<0>   // dynamic TSL child: no key argument
    {
        static constexpr auto name = "hgv_dyn_head_l";
        static void eval(In<"ts", TS<Int>> ts, State<Int> state, Out<TS<Int>> out)
        {
            hook(0, 1, static_cast<std::int64_t>(state.get()));
            out.set(ts.value());
        }
    };
    struct Tail : Probe<1>
    {
        static constexpr auto name = "hgv_dyn_tail";
        static void eval(In<"ts", TS<Int>> ts, State<Int> state)
        {
            hook(1, 1, static_cast<std::int64_t>(state.get()));
            static_cast<void>(ts.value());
        }
    };
    struct Solo : Probe<0>
    {
        static constexpr auto name = "hgv_dyn_solo";
        static void eval(In<"key", TS<Int>> key, In<"ts", TS<Int>> ts, State<Int> state)
        {
            hook(0, 1, static_cast<std::int64_t>(state.get()));
            static_cast<void>(ts.value() + key.value());
        }
    };
    struct Comb : Probe<0>   // reduce combiner
    {
        static constexpr auto name = "hgv_dyn_comb";
        static void eval(In<"lhs", TS<Int>> lhs, In<"rhs", TS<Int>> rhs, State<Int> state, Out<TS<Int>> out)
        {
            hook(0, 1, static_cast<std::int64_t>(state.get()));
            out.set(lhs.value() + rhs.value());
        }
    };
    struct Child2
    {
        static constexpr auto name = "hgv_dyn_child2";
        static void compose(Wiring &w, NamedPort<"key", TS<Int>> key, Port<TS<Int>> ts)
        {
            auto head = wire<Head>(w, key, ts);
            wire<Tail>(w, head);
        }
    };
    struct Child1
    {
        static constexpr auto name = "hgv_dyn_child1";
        static void compose(Wiring &w, NamedPort<"key", TS<Int>> key, Port<TS<Int>> ts) { wire<Solo>(w, key, ts); }
    };

    std::int64_t us(DateTime t) { return t.time_since_epoch().count(); }

    struct Obs : LifecycleObserver
    {
        hgv::Out *out;
        explicit Obs(hgv::Out *o) : out(o) {}
        // only the root cycle brackets are needed (is a fault thrown inside an evaluation cycle?)
        void on_before_graph_evaluation(const GraphView &g) override { if (!g.is_nested()) { out->line({7, us(g.evaluation_time()), 0}); } }
        void on_after_graph_evaluation(const GraphView &g) override { if (!g.is_nested()) { out->line({8, us(g.evaluation_time()), 0}); } }
        void on_before_stop_graph(const GraphView &g) override { if (!g.is_nested()) { out->line({14, us(g.evaluation_time()), 0}); } }
        void on_after_stop_graph(const GraphView &g) override { if (!g.is_nested()) { out->line({15, us(g.evaluation_time()), 0}); } }
    };

    void report_error(hgv::Out &out, const std::string &w, std::int64_t first_foreign)
    {
        std::int64_t idx = -1, phase = -1, id = -1;
        if (w.rfind("node[", 0) == 0) { try { idx = std::stoll(w.substr(5)); } catch (...) { idx = -1; } }
        auto close = w.find("] ");
        if (close != std::string::npos)
        {
            const std::string rest = w.substr(close + 2);
            if (rest.rfind("start failed: ", 0) == 0) { phase = 0; }
            else if (rest.rfind("evaluate failed: ", 0) == 0) { phase = 1; }
            else if (rest.rfind("stop failed: ", 0) == 0) { phase = 2; }
        }
        auto b = w.find("hgv boom ");
        if (b != std::string::npos) { try { id = std::stoll(w.substr(b + 9)); } catch (...) { id = -1; } }
        if (id < 0 && w.find("unknown error") != std::string::npos) { id = first_foreign; }
        out.line({40, idx, phase, id});
        if (id < 0) { std::fprintf(stderr, "error: %s\n", w.substr(0, 300).c_str()); }
    }

    void run_map_case(const hgv::Case &c, hgv::Out &out)
    {
        static bool registered = false;
        if (!registered) { stdlib::register_standard_operators(); registered = true; }
        World world;
        world.out = &out;
        g_world   = &world;
        std::int64_t start = 1, end = 8, cleanup = 1, variant = 2;
        std::map<std::int64_t, std::map<Int, Int>>    sets;      // cycle -> key -> value
        std::map<std::int64_t, std::vector<Int>>      removes;   // cycle -> keys
        std::int64_t                                  ncycles = 0, fid = 0;
        for (const Line &l : c)
        {
            if (l[0] == 1 && l.size() >= 4) { start = l[1]; end = l[2]; cleanup = l[3]; }
            else if (l[0] == 12 && l.size() >= 2) { variant = l[1]; }
            else if (l[0] == 13 && l.size() >= 4 && l[1] >= 0 && l[1] < 64) { sets[l[1]][Int{l[2]}] = Int{l[3]}; ncycles = std::max(ncycles, l[1] + 1); }
            else if (l[0] == 14 && l.size() >= 3 && l[1] >= 0 && l[1] < 64) { removes[l[1]].push_back(Int{l[2]}); ncycles = std::max(ncycles, l[1] + 1); }
            else if (l[0] == 5 && l.size() >= 4)
            {
                const std::size_t n = std::min<std::size_t>(l[3], l.size() - 4);
                Fault             f{l[1], l[2], -1, 0, fid++};
                if (n == 2 && l[4] == 1 && l[5] >= 500 && l[5] <= 501) { f.pos = l[5] - 500; }
                if (l.size() > 4 + n) { f.flavour = l[4 + n]; }
                if (f.phase >= 0 && f.phase <= 2) { world.faults.push_back(f); }
            }
        }
        std::vector<std::optional<Value>> deltas;
        for (std::int64_t cy = 0; cy < ncycles; ++cy)
        {
            const bool has = sets.count(cy) || removes.count(cy);
            if (!has) { deltas.emplace_back(std::nullopt); continue; }
            if (variant == 3)
            {
                std::map<std::size_t, Int> entries;
                for (const auto &[k, v] : sets[cy]) { if (k >= 0) { entries[(std::size_t)k] = v; } }
                deltas.emplace_back(static_node_detail::build_list_delta<TS<Int>>(entries));
            }
            else { deltas.emplace_back(static_node_detail::build_dict_delta<Int, TS<Int>>(sets[cy], removes[cy])); }
        }
        Obs obs{&out};
        try
        {
            Wiring w;
            if (variant == 4)
            {
                auto source = wire<stdlib::replay_impl, TSD<Int, TS<Int>>>(w, Str{"source"});
                auto red    = wire<stdlib::reduce_>(w, fn<Comb>(), source, Int{0}).as<TS<Int>>();
                wire<stdlib::null_sink>(w, red);
            }
            else if (variant == 3)
            {
                auto source = wire<stdlib::replay_impl, TSL<TS<Int>>>(w, Str{"source"});
                auto mapped = wire<stdlib::map_>(w, fn<HeadL>(), source).as<TSL<TS<Int>>>();
                wire<stdlib::null_sink>(w, mapped);
            }
            else
            {
                auto source = wire<stdlib::replay_impl, TSD<Int, TS<Int>>>(w, Str{"source"});
                if (variant == 1) { wire<stdlib::map_sink_>(w, fn<Child1>(), source); }
                else { wire<stdlib::map_sink_>(w, fn<Child2>(), source); }
            }
            GraphBuilder gb = std::move(w).finish();
            set_replay_deltas(gb.global_state(), "source", deltas);
            {
                GraphExecutorBuilder eb;
                eb.graph_builder(std::move(gb)).start_time(DateTime{TimeDelta{start}}).end_time(DateTime{TimeDelta{end}})
                    .cleanup_on_error(cleanup != 0).add_lifecycle_observer(&obs);
                GraphExecutorValue ex = eb.make_executor();
                try
                {
                    ex.view().run();
                    out.line({41});
                }
                catch (const std::exception &e) { report_error(out, e.what(), world.first_foreign); }
                catch (...) { out.line({40, -1, -1, world.first_foreign}); }
                out.line({42});
            }
            out.line({43});
        }
        catch (const std::exception &e)
        {
            out.line({48, 1});
            std::fprintf(stderr, "build error: %s\n", std::string(e.what()).substr(0, 400).c_str());
        }
        g_world = nullptr;
    }
}  // namespace hgv_dyn
