#include <../tests/cpp/test_delayed_binding.cpp>
