// delta_driver.cpp — family "delta" (property C20): capture_delta / apply_delta round trips and
// the real record / replay operators over run-time generated time-series schemas, executed by
// the real simulation executor of /repo's working tree.  See gen/delta.py for the case format;
// coq/Delta.v is the model that must print the same lines.
//
// Case lines:
//   1 mode start end [rs re]     mode 0: capture/apply probe; mode 1: dense record run [start,end) then replay run [rs,re)
//                                mode 2: the same through the sparse absolute-time :memory: recording (explicit recordable_id),
//                                        plus the RECOVER seed (recorded_seed_resolver) as of every cycle of the run
//   1 3 start end rs re split    mode 3: sparse recording CONTINUED over two runs [start,split) and [split,end) sharing the
//                                        GlobalState entry, then the replay run
//   2 <schema tokens>            1=TS<int> 2=SIGNAL 3=TSS<int> 4 <e>=TSD<int,e> 5 n <e>=TSL<e,n>
//                                6 k <f1..fk>=TSB 7 period min=TSW<int,period,min>
//   3 t np p1..pn op arg         one mutation at time t through the path (TSD: key, TSL/TSB: index)
//                                op 1 set v | 2 signal | 3 add k | 4 remove k | 5 touch | 6 clear
//                                   7 erase k | 8 create k | 9 push v
#include "hgv_io.h"

#include <hgraph/lib/std/operators/impl/record_replay_memory_impl.h>
#include <hgraph/lib/std/std_operators.h>
#include <hgraph/lib/testing/record_replay.h>
#include <hgraph/runtime/runtime.h>
#include <hgraph/types/graph_wiring.h>
#include <hgraph/types/metadata/type_registry.h>
#include <hgraph/types/record_replay.h>
#include <hgraph/types/time_series/ts_delta.h>
#include <hgraph/types/time_series/ts_input.h>
#include <hgraph/types/time_series/ts_output.h>
#include <hgraph/types/value/value.h>

#include <algorithm>
#include <array>
#include <span>
#include <typeindex>
#include <map>
#include <memory>
#include <optional>
#include <stdexcept>

namespace hgraph::stdlib { void register_json_operators() {} }

using namespace hgraph;
using hgv::Line;

namespace
{
    std::int64_t us(DateTime t) { return t.time_since_epoch().count(); }
    DateTime     dt(std::int64_t v) { return DateTime{TimeDelta{v}}; }

    enum Kind { K_TS = 1, K_SIGNAL = 2, K_TSS = 3, K_TSD = 4, K_TSL = 5, K_TSB = 6, K_TSW = 7 };

    struct Shape
    {
        int                        kind{0};
        std::int64_t               a{0}, b{0};
        std::vector<Shape>         kids;
        const TSValueTypeMetaData *meta{nullptr};
    };

    struct BadCase : std::runtime_error { using std::runtime_error::runtime_error; };

    const ValueTypeMetaData *int_meta()
    {
        static const ValueTypeMetaData *m = TypeRegistry::instance().register_scalar<Int>("int");
        return m;
    }

    Shape parse_shape(const Line &l, std::size_t &i, int depth = 0)
    {
        if (i >= l.size() || depth > 6) { throw BadCase("schema"); }
        auto &reg = TypeRegistry::instance();
        Shape s;
        s.kind = (int)l[i++];
        switch (s.kind)
        {
            case K_TS: s.meta = reg.ts(int_meta()); break;
            case K_SIGNAL: s.meta = reg.signal(); break;
            case K_TSS: s.meta = reg.tss(int_meta()); break;
            case K_TSD:
                s.kids.push_back(parse_shape(l, i, depth + 1));
                s.meta = reg.tsd(int_meta(), s.kids[0].meta);
                break;
            case K_TSL:
                if (i >= l.size()) { throw BadCase("schema"); }
                s.a = l[i++];
                if (s.a < 1 || s.a > 4) { throw BadCase("schema"); }
                s.kids.push_back(parse_shape(l, i, depth + 1));
                s.meta = reg.tsl(s.kids[0].meta, (std::size_t)s.a);
                break;
            case K_TSB:
            {
                if (i >= l.size()) { throw BadCase("schema"); }
                s.a = l[i++];
                if (s.a < 1 || s.a > 4) { throw BadCase("schema"); }
                std::vector<std::pair<std::string, const TSValueTypeMetaData *>> fields;
                for (std::int64_t f = 0; f < s.a; ++f)
                {
                    s.kids.push_back(parse_shape(l, i, depth + 1));
                    fields.emplace_back("f" + std::to_string(f), s.kids.back().meta);
                }
                s.meta = reg.un_named_tsb(fields);
                break;
            }
            case K_TSW:
                if (i + 1 >= l.size()) { throw BadCase("schema"); }
                s.a = l[i++];
                s.b = l[i++];
                if (s.a < 1 || s.a > 6 || s.b < 0 || s.b > s.a) { throw BadCase("schema"); }
                s.meta = reg.tsw(int_meta(), (std::size_t)s.a, (std::size_t)s.b);
                break;
            default: throw BadCase("schema");
        }
        return s;
    }

    // ---------------------------------------------------------------- encodings
    std::vector<std::int64_t> int_elems(const ValueView &set_like)
    {
        std::vector<std::int64_t> out;
        const auto                v = set_like.as_indexed_view();
        for (std::size_t i = 0; i < v.size(); ++i) { out.push_back(v.at(i).template checked_as<Int>()); }
        std::sort(out.begin(), out.end());
        return out;
    }

    void push_sorted(Line &o, const std::vector<std::int64_t> &v)
    {
        o.push_back((std::int64_t)v.size());
        for (auto x : v) { o.push_back(x); }
    }

    void enc_delta(Line &o, const ValueView &d, const Shape &s)
    {
        if (!d.has_value()) { o.push_back(0); return; }
        o.push_back(1);
        switch (s.kind)
        {
            case K_TS:
            case K_TSW: o.push_back(d.template checked_as<Int>()); break;
            case K_SIGNAL: o.push_back(d.template checked_as<bool>() ? 1 : 0); break;
            case K_TSS:
            {
                const auto b = d.as_bundle();
                push_sorted(o, int_elems(b.at(0)));
                push_sorted(o, int_elems(b.at(1)));
                break;
            }
            case K_TSD:
            {
                const auto b = d.as_bundle();
                push_sorted(o, int_elems(b.at(0)));
                std::map<std::int64_t, Line> items;
                const auto                   m = b.at(1).as_map();
                for (const auto &[key, child] : m)
                {
                    Line c;
                    enc_delta(c, child, s.kids[0]);
                    items[key.template checked_as<Int>()] = std::move(c);
                }
                o.push_back((std::int64_t)items.size());
                for (auto &[k, c] : items) { o.push_back(k); o.insert(o.end(), c.begin(), c.end()); }
                break;
            }
            case K_TSL:
            {
                std::map<std::int64_t, Line> items;
                const auto                   m = d.as_map();
                for (const auto &[key, child] : m)
                {
                    Line c;
                    enc_delta(c, child, s.kids[0]);
                    items[key.template checked_as<Int>()] = std::move(c);
                }
                o.push_back((std::int64_t)items.size());
                for (auto &[k, c] : items) { o.push_back(k); o.insert(o.end(), c.begin(), c.end()); }
                break;
            }
            case K_TSB:
            {
                const auto b = d.as_bundle();
                for (std::size_t i = 0; i < s.kids.size(); ++i) { enc_delta(o, b.at(i), s.kids[i]); }
                break;
            }
        }
    }

    // state of a live endpoint: [valid modified content...]
    void enc_state(Line &o, const TSInputView &in, const Shape &s)
    {
        const bool valid = in.valid();
        o.push_back(valid);
        o.push_back(in.modified());
        switch (s.kind)
        {
            case K_TS: o.push_back(valid ? in.value().template checked_as<Int>() : 0); break;
            case K_SIGNAL: break;
            case K_TSS:
            {
                std::vector<std::int64_t> e;
                const auto                set = in.as_set();
                for (const auto &v : set.values()) { e.push_back(v.template checked_as<Int>()); }
                std::sort(e.begin(), e.end());
                push_sorted(o, e);
                break;
            }
            case K_TSD:
            {
                std::map<std::int64_t, Line> items;
                const auto                   dict = in.as_dict();
                for (const auto &[key, child] : dict.items())
                {
                    Line c;
                    enc_state(c, child, s.kids[0]);
                    items[key.template checked_as<Int>()] = std::move(c);
                }
                o.push_back((std::int64_t)items.size());
                for (auto &[k, c] : items) { o.push_back(k); o.insert(o.end(), c.begin(), c.end()); }
                break;
            }
            case K_TSL:
            {
                auto list = in.as_list();
                for (std::size_t i = 0; i < s.kids.size() * 0 + (std::size_t)s.a; ++i) { enc_state(o, list.at(i), s.kids[0]); }
                break;
            }
            case K_TSB:
            {
                auto b = in.as_bundle();
                for (std::size_t i = 0; i < s.kids.size(); ++i) { enc_state(o, b.at(i), s.kids[i]); }
                break;
            }
            case K_TSW:
            {
                const auto                w = in.as_window();
                std::vector<std::int64_t> e;
                for (const auto &v : w.values()) { e.push_back(v.template checked_as<Int>()); }
                o.push_back((std::int64_t)e.size());
                for (auto x : e) { o.push_back(x); }
                break;
            }
        }
    }

    // ---------------------------------------------------------------- scripted mutations
    struct Op { std::int64_t t; std::vector<std::int64_t> path; std::int64_t op, arg; };

    void leaf_op(const TSOutputView &cur, const Shape &s, const Op &op, DateTime now)
    {
        switch (op.op)
        {
            case 1:
                if (s.kind != K_TS) { throw BadCase("op"); }
                static_cast<void>(cur.begin_mutation(now).copy_value_from(Value{Int{op.arg}}.view()));
                break;
            case 2:
                if (s.kind != K_SIGNAL) { throw BadCase("op"); }
                static_cast<void>(cur.begin_mutation(now).copy_value_from(Value{true}.view()));
                break;
            case 3:
            case 4:
            case 5:
            case 6:
                if (s.kind == K_TSS)
                {
                    auto set = cur.as_set();
                    auto m   = set.begin_mutation(now);
                    if (op.op == 3) { static_cast<void>(m.add(Value{Int{op.arg}}.view())); }
                    else if (op.op == 4) { static_cast<void>(m.remove(Value{Int{op.arg}}.view())); }
                    else if (op.op == 5) { m.touch(); }
                    else { m.clear(); }
                }
                else if (s.kind == K_TSD && op.op >= 5)
                {
                    auto d = cur.as_dict();
                    auto m = d.begin_mutation(now);
                    if (op.op == 5) { m.touch(); } else { m.clear(); }
                }
                else { throw BadCase("op"); }
                break;
            case 7:
            case 8:
            {
                if (s.kind != K_TSD) { throw BadCase("op"); }
                auto d = cur.as_dict();
                auto m = d.begin_mutation(now);
                if (op.op == 7) { static_cast<void>(m.erase(Value{Int{op.arg}}.view())); }
                else { static_cast<void>(m.at(Value{Int{op.arg}}.view())); }
                break;
            }
            case 9:
            {
                if (s.kind != K_TSW) { throw BadCase("op"); }
                auto w = cur.as_window();
                w.begin_mutation(now).push(Value{Int{op.arg}}.view());
                break;
            }
            default: throw BadCase("op");
        }
    }

    void apply_op(const TSOutputView &cur, const Shape &s, const Op &op, std::size_t depth, DateTime now)
    {
        if (depth == op.path.size()) { leaf_op(cur, s, op, now); return; }
        const std::int64_t p = op.path[depth];
        switch (s.kind)
        {
            case K_TSD:
            {
                auto d     = cur.as_dict();
                auto m     = d.begin_mutation(now);
                auto child = m.at(Value{Int{p}}.view());
                apply_op(TSOutputView{cur.output(), child, now}, s.kids[0], op, depth + 1, now);
                break;
            }
            case K_TSL:
            {
                if (p < 0 || p >= s.a) { throw BadCase("path"); }
                auto l = cur.as_list();
                apply_op(l.at((std::size_t)p), s.kids[0], op, depth + 1, now);
                break;
            }
            case K_TSB:
            {
                if (p < 0 || p >= (std::int64_t)s.kids.size()) { throw BadCase("path"); }
                auto b = cur.as_bundle();
                apply_op(b.at((std::size_t)p), s.kids[(std::size_t)p], op, depth + 1, now);
                break;
            }
            default: throw BadCase("path");
        }
    }

    const Shape *child_shape(const Shape &s, std::int64_t p)
    {
        switch (s.kind)
        {
            case K_TSD: return &s.kids[0];
            case K_TSL: return (p >= 0 && p < s.a) ? &s.kids[0] : nullptr;
            case K_TSB: return (p >= 0 && p < (std::int64_t)s.kids.size()) ? &s.kids[(std::size_t)p] : nullptr;
            default: return nullptr;
        }
    }

    bool op_ok(const Shape &root, const Op &op)
    {
        const Shape *s = &root;
        for (auto p : op.path)
        {
            s = child_shape(*s, p);
            if (s == nullptr) { return false; }
        }
        switch (s->kind)
        {
            case K_TS: return op.op == 1;
            case K_SIGNAL: return op.op == 2;
            case K_TSS: return op.op >= 3 && op.op <= 6;
            case K_TSD: return op.op >= 5 && op.op <= 8;
            case K_TSW: return op.op == 9;
            default: return false;
        }
    }

    struct Ctx
    {
        Shape            shape;
        std::vector<Op>  ops;       // sorted by time (stable)
        std::size_t      next{0};
        hgv::Out        *out{nullptr};
        // probe copy
        std::unique_ptr<TSOutput> copy;
        std::unique_ptr<TSInput>  copy_in;
        bool                      copy_bound{false};
        std::int64_t              tag{0};   // added to observation codes (0 first run, 100 replay run)
        // the source's value() after each of its ticks (for the recover comparison)
        std::map<std::int64_t, std::pair<bool, Value>> values;
        // one delta-typed slot that every captured delta is ASSIGNED into in place before it is
        // applied (what a reused buffer slot / a feedback does)
        std::optional<Value> slot;
    };

    NodeBuilder make_source(Ctx *ctx)
    {
        NodeTypeMetaData schema;
        schema.display_name  = "hgv_delta_source";
        schema.output_schema = ctx->shape.meta;
        schema.node_kind     = NodeKind::PullSource;
        NodeCallbacks cb;
        cb.start = [ctx](const NodeView &v, DateTime) {
            ctx->next = 0;
            if (!ctx->ops.empty()) { v.graph_value()->schedule_node(v.node_index(), dt(ctx->ops[0].t)); }
        };
        cb.evaluate = [ctx](const NodeView &v, DateTime now) {
            const std::size_t index = v.node_index();
            while (ctx->next < ctx->ops.size() && ctx->ops[ctx->next].t <= us(now))
            {
                const Op &op = ctx->ops[ctx->next++];
                if (op.t < us(now)) { continue; }
                auto root = v.output(now);
                apply_op(root, ctx->shape, op, 0, now);
            }
            if (ctx->next < ctx->ops.size()) { v.graph_value()->schedule_node(index, dt(ctx->ops[ctx->next].t)); }
        };
        return NodeBuilder::native(std::move(schema), std::move(cb));
    }

    void emit(Ctx *ctx, std::int64_t code, DateTime now, const Line &rest)
    {
        Line l{code + ctx->tag, us(now)};
        l.insert(l.end(), rest.begin(), rest.end());
        ctx->out->line(l);
    }

    // probe sink: after each tick, capture, apply to the copy, compare, capture again
    NodeBuilder make_probe(Ctx *ctx, bool round_trip)
    {
        auto            &registry = TypeRegistry::instance();
        NodeTypeMetaData schema;
        schema.display_name = "hgv_delta_probe";
        schema.node_kind    = NodeKind::Sink;
        std::vector<std::pair<std::string, const TSValueTypeMetaData *>> fields{{"ts", ctx->shape.meta}};
        const auto *in_schema = registry.un_named_tsb(fields);
        schema.input_schema   = in_schema;
        std::vector<TSEndpointSchema> children;
        children.push_back(TSEndpointSchema::peered(ctx->shape.meta));
        auto          endpoint = TSEndpointSchema::non_peered(in_schema, std::move(children));
        NodeCallbacks cb;
        cb.evaluate = [ctx, round_trip](const NodeView &v, DateTime now) {
            auto root   = v.input(now);
            auto bundle = root.as_bundle();
            auto in     = bundle[0];
            try
            {
                const bool modified = in.modified();
                Line       st;
                enc_state(st, in, ctx->shape);
                emit(ctx, 22, now, st);
                if (!modified) { return; }
                Value      delta      = capture_delta(in);
                const bool observable = delta_is_observable(in, delta.view());
                Line       dl{observable};
                enc_delta(dl, delta.view(), ctx->shape);
                emit(ctx, 21, now, dl);
                ctx->values[us(now)] = in.valid() ? std::make_pair(true, Value{in.value()}) : std::make_pair(false, Value{});
                if (!round_trip) { return; }
                if (!ctx->copy)
                {
                    ctx->copy    = std::make_unique<TSOutput>(ctx->shape.meta);
                    ctx->copy_in = std::make_unique<TSInput>(TSInputBuilderFactory::checked_builder_for(
                        *ctx->shape.meta, TSEndpointSchema::peered(ctx->shape.meta)));
                    ctx->copy_in->view(nullptr, now).bind_output(ctx->copy->view(now));
                }
                // the delta travels through a reused slot: in-place assignment over the previous delta
                if (!ctx->slot.has_value() || !ctx->slot->has_value() || ctx->slot->binding() != delta.binding())
                {
                    ctx->slot.emplace(delta.view());
                }
                else
                {
                    const auto binding = delta.binding();
                    binding.ops_ref().copy_assign_from(binding, const_cast<void *>(ctx->slot->view().data()), binding,
                                                      delta.view().data());
                }
                apply_delta(ctx->copy->view(now), ctx->slot->view());
                auto cin = ctx->copy_in->view(nullptr, now);
                Line cs;
                enc_state(cs, cin, ctx->shape);
                emit(ctx, 23, now, cs);
                const bool v1 = in.valid(), v2 = cin.valid();
                bool       eq = v1 == v2;
                if (v1 && v2) { eq = in.value().equals(cin.value()); }
                std::int64_t deq = -1;
                if (cin.modified())
                {
                    Value d2 = capture_delta(cin);
                    Line  d2l{delta_is_observable(cin, d2.view())};
                    enc_delta(d2l, d2.view(), ctx->shape);
                    emit(ctx, 25, now, d2l);
                    deq = delta.view().equals(d2.view());
                }
                emit(ctx, 24, now, {eq, cin.modified(), deq});
            }
            catch (const BadCase &) { throw; }
            catch (const std::exception &e)
            {
                emit(ctx, 29, now, {1});
                std::fprintf(stderr, "probe error: %s\n", e.what());
            }
        };
        return NodeBuilder::native(std::move(schema), std::move(cb), std::move(endpoint));
    }

    void print_buffer(hgv::Out &out, std::int64_t code, const ValueView &buf, const Shape &shape)
    {
        const auto list = buf.as_list();
        for (std::size_t i = 0; i < list.size(); ++i)
        {
            Line l{code, (std::int64_t)i};
            auto d = testing::dense_entry_delta(list, i);
            if (d.has_value()) { enc_delta(l, d->view(), shape); } else { l.push_back(0); }
            out.line(l);
        }
    }

    // the absolute-time recording: a list of (evaluation time, delta)
    void print_sparse(hgv::Out &out, std::int64_t code, const ValueView &buf, const Shape &shape)
    {
        const auto list = buf.as_list();
        for (std::size_t i = 0; i < list.size(); ++i)
        {
            const auto entry = list.at(i).as_indexed_view();
            Line       l{code, (std::int64_t)i, us(entry.at(0).template checked_as<DateTime>())};
            enc_delta(l, entry.at(1), shape);
            out.line(l);
        }
    }

    void run_case(const hgv::Case &c, hgv::Out &out)
    {
        Ctx ctx;
        ctx.out = &out;
        std::int64_t mode = 0, start = 1, end = 10, rstart = 1, rend = 10, split = 0;
        bool         have_shape = false;
        try
        {
            for (const Line &l : c)
            {
                if (l[0] == 1 && l.size() >= 4)
                {
                    mode = l[1]; start = l[2]; end = l[3]; rstart = 1; rend = end;
                    if (l.size() >= 6) { rstart = l[4]; rend = l[5]; }
                    if (l.size() >= 7) { split = l[6]; }
                }
                else if (l[0] == 2)
                {
                    std::size_t i = 1;
                    ctx.shape     = parse_shape(l, i);
                    if (i != l.size()) { throw BadCase("schema"); }
                    have_shape = true;
                }
                else if (l[0] == 3)
                {
                    if (l.size() < 3) { throw BadCase("op"); }
                    Op op;
                    op.t                 = l[1];
                    const std::int64_t n = l[2];
                    if (n < 0 || (std::size_t)(3 + n + 2) != l.size()) { throw BadCase("op"); }
                    for (std::int64_t k = 0; k < n; ++k) { op.path.push_back(l[3 + k]); }
                    op.op  = l[3 + n];
                    op.arg = l[4 + n];
                    ctx.ops.push_back(std::move(op));
                }
                else { throw BadCase("line"); }
            }
            if (!have_shape || start < 1 || end <= start || end > start + 1000) { throw BadCase("header"); }
            if (mode != 0 && !((mode >= 1 && mode <= 3) && rstart >= 1 && rend > rstart && rend <= rstart + 1000)) { throw BadCase("mode"); }
            if (mode == 3 && !(start < split && split < end)) { throw BadCase("split"); }
            {
                std::vector<std::pair<std::int64_t, std::vector<std::int64_t>>> pushes;
                for (const auto &op : ctx.ops)
                {
                    if (op.t < start || op.t >= end) { throw BadCase("time"); }
                    if (!op_ok(ctx.shape, op)) { throw BadCase("op"); }
                    if (op.op == 9)
                    {
                        const auto key = std::make_pair(op.t, op.path);
                        if (std::find(pushes.begin(), pushes.end(), key) != pushes.end()) { throw BadCase("push"); }
                        pushes.push_back(key);
                    }
                }
            }
            std::stable_sort(ctx.ops.begin(), ctx.ops.end(), [](const Op &a, const Op &b) { return a.t < b.t; });

            if (mode == 0)
            {
                GraphBuilder gb;
                gb.add_node(make_source(&ctx));
                gb.add_node(make_probe(&ctx, true));
                gb.add_edge(GraphEdge{.source_node = 0, .source_path = {}, .target_node = 1, .target_path = {0}});
                GraphExecutorBuilder eb;
                eb.graph_builder(std::move(gb)).start_time(dt(start)).end_time(dt(end));
                GraphExecutorValue executor = eb.make_executor();
                executor.view().run();
                out.line({28, 0});
            }
            else
            {
                stdlib::register_standard_operators();
                const bool        sparse   = mode >= 2;
                const std::string rec_key  = sparse ? ":memory:hgv.rec" : "rec";
                const std::string rec2_key = sparse ? ":memory:hgv.rec2" : "rec2";
                Value             recorded;
                // one recording run over [from, to) with the operations of that interval; a previous
                // run's recording may be seeded into its GlobalState (continuation)
                auto record_run = [&](std::int64_t from, std::int64_t to, std::int64_t list_code, bool recover) {
                    struct SrcTag {};
                    struct ProbeTag {};
                    Ctx rc;
                    rc.shape = ctx.shape;
                    rc.out   = &out;
                    for (const auto &op : ctx.ops) { if (op.t >= from && op.t < to) { rc.ops.push_back(op); } }
                    Wiring        w{WiringKind::TopLevel, WiringOptions{}};
                    WiringPortRef src = w.add_unique_node(std::type_index(typeid(SrcTag)), make_source(&rc),
                                                          std::span<const WiringPortRef>{}, Value{});
                    std::array<WiringPortRef, 1> ins{src};
                    static_cast<void>(w.add_unique_node(std::type_index(typeid(ProbeTag)), make_probe(&rc, true),
                                                        std::span<const WiringPortRef>{ins.data(), ins.size()}, Value{}));
                    Port<void> sp{w, src};
                    if (sparse) { wire<stdlib::sparse_record_impl>(w, sp, Str{"rec"}, arg<"recordable_id">(Str{"hgv"})); }
                    else { wire<stdlib::dense_record_impl>(w, sp, Str{"rec"}); }
                    GraphBuilder gb = std::move(w).finish();
                    if (recorded.has_value()) { gb.global_state().set(rec_key, recorded); }
                    GraphExecutorBuilder eb;
                    eb.graph_builder(std::move(gb)).start_time(dt(from)).end_time(dt(to));
                    GraphExecutorValue executor = eb.make_executor();
                    auto               ev       = executor.view();
                    ev.run();
                    const ValueView buf = ev.graph().global_state().get(rec_key);
                    if (buf.valid())
                    {
                        recorded = Value{buf};
                        if (sparse) { print_sparse(out, list_code, buf, ctx.shape); } else { print_buffer(out, list_code, buf, ctx.shape); }
                    }
                    else { recorded = Value{}; }
                    if (recover)
                    {
                        // RECOVER: the seed as of T is the fold of the recorded deltas up to T; it must be the
                        // value the source had at T
                        for (std::int64_t T = from; T <= to && T <= from + 24; ++T)
                        {
                            Value rec = record_replay::recorded_seed_resolver(ev.graph().global_state(), "hgv.rec",
                                                                              ctx.shape.meta, dt(T));
                            const std::pair<bool, Value> *ref = nullptr;
                            for (const auto &[t, v] : rc.values) { if (t <= T) { ref = &v; } }
                            const bool rvalid = rec.has_value();
                            const bool fvalid = ref != nullptr && ref->first;
                            bool       eq     = rvalid == fvalid;
                            if (rvalid && fvalid) { eq = rec.view().equals(ref->second.view()); }
                            out.line({33, T, rvalid, fvalid, eq});
                        }
                    }
                };
                if (mode == 3)
                {
                    record_run(start, split, 31, false);
                    record_run(split, end, 35, false);
                }
                else { record_run(start, end, sparse ? 31 : 30, mode == 2); }
                {
                    struct ProbeTag {};
                    Ctx rc;
                    rc.shape = ctx.shape;
                    rc.out   = &out;
                    rc.tag   = 100;
                    Wiring    w{WiringKind::TopLevel, WiringOptions{}};
                    WiringArg key;
                    key.kind         = WiringArg::Kind::Scalar;
                    key.scalar_value = Value{Str{"rec"}};
                    key.scalar_meta  = key.scalar_value.schema();
                    std::vector<WiringArg> args;
                    args.push_back(std::move(key));
                    if (sparse)
                    {
                        // an explicit recordable_id selects the absolute-time :memory: recording
                        WiringArg rid;
                        rid.kind         = WiringArg::Kind::Scalar;
                        rid.scalar_value = Value{Str{"hgv"}};
                        rid.scalar_meta  = rid.scalar_value.schema();
                        rid.name         = "recordable_id";
                        args.push_back(std::move(rid));
                    }
                    auto res = wire_operator(w, "replay", std::span<const WiringArg>{args.data(), args.size()}, true, ctx.shape.meta);
                    if (!res.has_output) { throw std::logic_error("replay has no output"); }
                    WiringPortRef                rp = res.output.erased();
                    std::array<WiringPortRef, 1> ins{rp};
                    static_cast<void>(w.add_unique_node(std::type_index(typeid(ProbeTag)), make_probe(&rc, false),
                                                        std::span<const WiringPortRef>{ins.data(), ins.size()}, Value{}));
                    if (sparse) { wire<stdlib::sparse_record_impl>(w, res.output, Str{"rec2"}, arg<"recordable_id">(Str{"hgv"})); }
                    else { wire<stdlib::dense_record_impl>(w, res.output, Str{"rec2"}); }
                    GraphBuilder gb = std::move(w).finish();
                    if (recorded.has_value()) { gb.global_state().set(rec_key, recorded); }
                    GraphExecutorBuilder eb;
                    eb.graph_builder(std::move(gb)).start_time(dt(rstart)).end_time(dt(rend));
                    GraphExecutorValue executor = eb.make_executor();
                    auto               ev       = executor.view();
                    ev.run();
                    const ValueView buf = ev.graph().global_state().get(rec2_key);
                    if (buf.valid())
                    {
                        if (sparse) { print_sparse(out, 131, buf, ctx.shape); } else { print_buffer(out, 130, buf, ctx.shape); }
                    }
                }
                out.line({28, 0});
            }
        }
        catch (const BadCase &)
        {
            out.buf.clear();
            out.line({18, 1});
        }
        catch (const std::exception &e)
        {
            out.line({19, 1});
            std::fprintf(stderr, "run error: %s\n", e.what());
        }
    }
}  // namespace

int main(int argc, char **argv)
{
    if (argc < 2) { std::fprintf(stderr, "usage: delta_driver <batch>\n"); return 2; }
    auto     batch = hgv::read_batch(argv[1]);
    hgv::Out out;
    for (const auto &c : batch)
    {
        run_case(c, out);
        out.end_case();
    }
    return 0;
}
