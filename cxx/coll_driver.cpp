// coll_driver.cpp — family "coll" (property C05): scripted mutation histories applied to the REAL
// collection time-series storage of /repo's tree (TSS<int>, TSD<int,TS<int>>, tick TSW<int>, and
// TSD with nested TSS / TSD / TSB children) through the public mutation API, observed after every
// cycle through the public output / input views.  See gen/coll.py for the case format;
// coq/Coll.v is the model that must print the same lines.
#include "hgv_io.h"

#include <hgraph/lib/testing/runtime_support.h>
#include <hgraph/runtime/node_scheduler.h>
#include <hgraph/runtime/runtime.h>
#include <hgraph/types/graph_wiring.h>
#include <hgraph/types/metadata/type_registry.h>
#include <hgraph/types/time_series/ts_input.h>
#include <hgraph/types/time_series/ts_output.h>
#include <hgraph/types/value/value.h>

#include <algorithm>
#include <map>
#include <optional>
#include <stdexcept>

namespace hgraph::stdlib { void register_json_operators() {} }

using namespace hgraph;
using hgv::Line;
using I64 = std::int64_t;

namespace
{
    I64      us(DateTime t) { return t.time_since_epoch().count(); }
    DateTime dt(I64 v) { return DateTime{TimeDelta{v}}; }
    // Scalar type of keys / elements / dictionary values for the slot-backed kinds (1 TSS, 2 TSD, 4 nested): header
    // field p1 = 1 selects int32.  Keys whose alignment is below a pointer's use the BITMAP representation of the
    // stable slot store (constructed / live bitmaps), pointer-aligned keys (int64) the tagged-pointer one: both
    // must behave the same, so both are driven.  Windows and fixed shapes always use int64.
    bool g_i32 = false;
    I64   as_i(const ValueView &v) { return g_i32 ? (I64)v.checked_as<std::int32_t>() : v.checked_as<I64>(); }
    Value mk(I64 x) { return g_i32 ? Value{(std::int32_t)x} : Value{x}; }

    struct Op { I64 code, a, b; };
    struct Cycle { I64 t; std::vector<Op> ops; };
    struct Script
    {
        I64                kind{1}, mode{0}, p1{0}, p2{0};
        std::vector<Cycle> cycles;
    };

    Script parse(const hgv::Case &c)
    {
        Script s;
        for (const Line &l : c)
        {
            if (l.empty()) { continue; }
            if (l[0] == 1 && l.size() >= 5) { s.kind = l[1]; s.mode = l[2]; s.p1 = l[3]; s.p2 = l[4]; }
            else if (l[0] == 2 && l.size() >= 2)
            {
                Cycle cy;
                cy.t = l[1];
                for (std::size_t i = 2; i + 3 <= l.size(); i += 3) { cy.ops.push_back({l[i], l[i + 1], l[i + 2]}); }
                s.cycles.push_back(std::move(cy));
            }
        }
        return s;
    }

    Line sorted(Line l, std::size_t from = 1)
    {
        std::sort(l.begin() + from, l.end());
        return l;
    }

    template <typename R> void append_keys(Line &l, R &&range)
    {
        for (const auto v : range) { l.push_back(as_i(v)); }
    }

    // ------------------------------------------------------------------ TSS
    // ops: 1 add k | 2 remove k | 3 clear | 4 reserve c | 5 touch
    Line tss_apply(TSSDataMutationView &m, const std::vector<Op> &ops)
    {
        Line res{19};
        for (const Op &op : ops)
        {
            I64 r = 0;
            switch (op.code)
            {
                case 1: { Value k{mk(op.a)}; r = m.add(k.view()); break; }
                case 2: { Value k{mk(op.a)}; r = m.remove(k.view()); break; }
                case 3: m.clear(); break;
                case 4: m.reserve((std::size_t)op.a); break;
                case 5: m.touch(); break;
                default: r = -1; break;
            }
            res.push_back(r);
        }
        return res;
    }

    // View is TSOutputView (stand-alone mode) or TSInputView (graph mode: what a consumer node sees)
    template <typename View> void tss_observe(hgv::Out &out, I64 t, const View &view, I64 ticked)
    {
        auto        s   = view.as_set();
        TSSDataView raw = s.data_view();
        out.line({20, t, view.modified(), view.valid(), view.all_valid(), us(view.last_modified_time()), (I64)s.size(), (I64)s.slot_capacity()});
        Line v{21}, a{22}, r{23};
        append_keys(v, s.values());
        append_keys(a, s.added());
        append_keys(r, s.removed());
        out.line(sorted(v)); out.line(sorted(a)); out.line(sorted(r));
        // raw slot table: state (0 free, 1 live, 2 pending erase), key, raw added / removed bits
        Line st{24}, ks{25}, ab{26}, rb{27};
        for (std::size_t i = 0; i < raw.slot_capacity(); ++i)
        {
            const bool occ = raw.slot_occupied(i), live = raw.slot_live(i);
            st.push_back(!occ ? 0 : (live ? 1 : 2));
            ks.push_back(occ ? as_i(raw.at_slot(i)) : 0);
            ab.push_back(raw.slot_added(i));
            rb.push_back(raw.slot_removed(i));
        }
        out.line(st); out.line(ks); out.line(ab); out.line(rb);
        // the value() / delta_value() Value-layer surfaces
        Line vv{28}, da{29, 0}, dr{30, 0};
        auto value = view.value();
        auto delta = view.delta_value();
        if (value.has_value()) { append_keys(vv, value.as_set().values()); }
        if (delta.has_value())
        {
            auto b = delta.as_indexed_view();
            da[1] = 1; dr[1] = 1;
            append_keys(da, b.at(0).as_set().values());
            append_keys(dr, b.at(1).as_set().values());
        }
        out.line(sorted(vv)); out.line(sorted(da, 2)); out.line(sorted(dr, 2));
        out.line({37, ticked});
    }

    // ------------------------------------------------------------------ TSD<int, TS<int>>
    // ops: 1 set k v | 2 erase k | 3 clear | 4 reserve c | 5 touch | 6 create k (at(k), child left alone)
    //      7 write k v: the element of a LIVE key is written through ITS OWN output view (a read-only look-up of the
    //        element followed by child.begin_mutation(t).copy_value_from(v)) - no dictionary-level operation; this is how
    //        nested-graph outputs and map_ children write.  The dictionary only learns of it through record_child_modified.
    // The dictionary's mutation view is opened lazily, at the first dictionary-level operation of the cycle, so that a
    // child write can really be the first thing that reaches the storage in a cycle.
    Line tsd_apply(const TSDOutputView &d, DateTime t, const std::vector<Op> &ops)
    {
        Line res{19};
        std::optional<TSDDataMutationView> mv;
        auto m = [&]() -> TSDDataMutationView & { if (!mv) { mv.emplace(d.begin_mutation(t)); } return *mv; };
        for (const Op &op : ops)
        {
            I64 r = 0;
            switch (op.code)
            {
                case 1: { Value k{mk(op.a)}; Value v{mk(op.b)}; m().set(k.view(), v.view()); break; }
                case 2: { Value k{mk(op.a)}; r = m().erase(k.view()); break; }
                case 3: m().clear(); break;
                case 4: m().reserve((std::size_t)op.a); break;
                case 5: m().touch(); break;
                case 6: { Value k{mk(op.a)}; auto ch = m().at(k.view()); r = (I64)ch.child_id(); break; }
                case 7:
                {
                    Value k{mk(op.a)}; Value v{mk(op.b)};
                    if (!d.contains(k.view())) { r = -2; break; }
                    auto child = d.at(k.view());
                    auto cm    = child.begin_mutation(t);
                    static_cast<void>(cm.copy_value_from(v.view()));
                    break;
                }
                default: r = -1; break;
            }
            res.push_back(r);
        }
        return res;
    }

    template <typename View> void tsd_observe(hgv::Out &out, I64 t, const View &view, I64 ticked)
    {
        auto        d   = view.as_dict();
        TSDDataView raw = d.data_view();
        out.line({20, t, view.modified(), view.valid(), view.all_valid(), us(view.last_modified_time()), (I64)d.size(), (I64)d.slot_capacity()});
        Line v{21}, a{22}, r{23}, mk{31}, vk{32};
        append_keys(v, d.keys());
        append_keys(a, d.added_keys());
        append_keys(r, d.removed_keys());
        append_keys(mk, d.modified_keys());
        append_keys(vk, d.valid_keys());
        out.line(sorted(v)); out.line(sorted(a)); out.line(sorted(r)); out.line(sorted(mk)); out.line(sorted(vk));
        // items (key, child valid, child value, child last_modified_time) sorted by key
        std::vector<std::array<I64, 4>> items;
        for (const auto [k, ch] : d.items()) { items.push_back({as_i(k), ch.valid(), ch.valid() ? as_i(ch.value()) : 0, us(ch.last_modified_time())}); }
        std::sort(items.begin(), items.end());
        Line it{33};
        for (auto &x : items) { it.insert(it.end(), x.begin(), x.end()); }
        out.line(it);
        // removed items stay readable for the cycle: (key, value) of removed slots
        std::vector<std::array<I64, 2>> rit;
        for (const auto [k, ch] : d.removed_items()) { rit.push_back({as_i(k), ch.valid() ? as_i(ch.value()) : -1}); }
        std::sort(rit.begin(), rit.end());
        Line ri{34};
        for (auto &x : rit) { ri.insert(ri.end(), x.begin(), x.end()); }
        out.line(ri);
        Line st{24}, ks{25}, ab{26}, rb{27}, mb{35};
        for (std::size_t i = 0; i < raw.slot_capacity(); ++i)
        {
            const bool occ = raw.slot_occupied(i), live = raw.slot_live(i);
            st.push_back(!occ ? 0 : (live ? 1 : 2));
            ks.push_back(occ ? as_i(raw.key_at_slot(i)) : 0);
            ab.push_back(raw.slot_added(i));
            rb.push_back(raw.slot_removed(i));
            mb.push_back(raw.slot_modified(i));
        }
        out.line(st); out.line(ks); out.line(ab); out.line(rb); out.line(mb);
        // key-set projection (its own modification clock)
        auto ksv = raw.key_set();
        out.line({36, ksv.modified(dt(t)), ksv.base().has_current_value(), us(ksv.last_modified_time())});
        // Value-layer surfaces
        Line vv{28}, dm{29, 0}, dr{30, 0};
        auto value = view.value();
        if (value.has_value())
        {
            std::vector<std::array<I64, 2>> kv;
            for (const auto [k, x] : value.as_map().items()) { kv.push_back({as_i(k), x.has_value() ? as_i(x) : -1}); }
            std::sort(kv.begin(), kv.end());
            for (auto &x : kv) { vv.insert(vv.end(), x.begin(), x.end()); }
        }
        auto delta = view.delta_value();
        if (delta.has_value())
        {
            auto b = delta.as_indexed_view();
            dm[1] = 1; dr[1] = 1;
            std::vector<std::array<I64, 2>> kv;
            for (const auto [k, x] : b.at(1).as_map().items()) { kv.push_back({as_i(k), x.has_value() ? as_i(x) : -1}); }
            std::sort(kv.begin(), kv.end());
            for (auto &x : kv) { dm.insert(dm.end(), x.begin(), x.end()); }
            append_keys(dr, b.at(0).as_set().values());
        }
        out.line(vv); out.line(dm); out.line(sorted(dr, 2));
        out.line({37, ticked});
    }

    // ------------------------------------------------------------------ TSW
    // ops: 1 push v | 3 clear
    Line tsw_apply(TSWDataMutationView &m, const std::vector<Op> &ops)
    {
        Line res{19};
        for (const Op &op : ops)
        {
            I64 r = 0;
            try
            {
                switch (op.code)
                {
                    case 1: { Value v{op.a}; m.push(v.view()); break; }
                    case 3: m.clear(); break;
                    default: r = -1; break;
                }
            }
            catch (const std::logic_error &) { r = 2; }
            res.push_back(r);
        }
        return res;
    }

    template <typename View> void tsw_observe(hgv::Out &out, I64 t, const View &view, I64 ticked)
    {
        auto        w   = view.as_window();
        TSWDataView raw = w.data_view();
        out.line({20, t, view.modified(), view.valid(), view.all_valid(), us(view.last_modified_time()), (I64)w.size(), (I64)w.capacity(),
                  w.full(), (I64)(w.duration_based() ? 0 : w.min_period()), raw.has_removed_value(dt(t)), raw.has_removed_value(dt(t)) ? as_i(raw.removed_value(dt(t))) : 0,
                  raw.cleared(dt(t)), us(w.first_modified_time())});
        Line v{21}, tm{22};
        append_keys(v, w.values());
        for (const auto x : w.value_times()) { tm.push_back(us(x)); }
        out.line(v); out.line(tm);
        Line vv{28}, dl{29, 0};
        auto value = view.value();
        if (value.has_value()) { for (const auto x : value.as_indexed_view().values()) { vv.push_back(as_i(x)); } }
        auto delta = view.delta_value();
        if (delta.has_value()) { dl[1] = 1; dl.push_back(as_i(delta)); }
        out.line(vv); out.line(dl);
        out.line({37, ticked});
    }

    // ------------------------------------------------------------------ TSD<int, TSS<int>> (kind 4): nested collection children
    // ops: 1 k e add e to the set at key k (creating the key) | 2 k e remove e from the set at key k (if the key is live)
    //      3 k erase key k | 4 clear the dictionary
    Line tsdn_apply(TSDDataMutationView &m, DateTime t, const std::vector<Op> &ops)
    {
        Line res{19};
        for (const Op &op : ops)
        {
            I64 r = 0;
            switch (op.code)
            {
                case 1: { Value k{mk(op.a)}; Value e{mk(op.b)}; auto ch = m.at(k.view()); auto cs = ch.as_set(); auto cm = cs.begin_mutation(t); r = cm.add(e.view()); break; }
                case 2:
                {
                    Value k{mk(op.a)}; Value e{mk(op.b)};
                    if (!m.contains(k.view())) { r = -2; break; }
                    auto ch = m.at(k.view()); auto cs = ch.as_set(); auto cm = cs.begin_mutation(t); r = cm.remove(e.view());
                    break;
                }
                case 3: { Value k{mk(op.a)}; r = m.erase(k.view()); break; }
                case 4: m.clear(); break;
                default: r = -1; break;
            }
            res.push_back(r);
        }
        return res;
    }

    template <typename View> void tsdn_observe(hgv::Out &out, I64 t, const View &view, I64 ticked)
    {
        auto        d   = view.as_dict();
        TSDDataView raw = d.data_view();
        out.line({20, t, view.modified(), view.valid(), view.all_valid(), us(view.last_modified_time()), (I64)d.size(), (I64)d.slot_capacity()});
        Line v{21}, a{22}, r{23}, mk{31}, vk{32};
        append_keys(v, d.keys());
        append_keys(a, d.added_keys());
        append_keys(r, d.removed_keys());
        append_keys(mk, d.modified_keys());
        append_keys(vk, d.valid_keys());
        out.line(sorted(v)); out.line(sorted(a)); out.line(sorted(r)); out.line(sorted(mk)); out.line(sorted(vk));
        std::vector<Line> rows;
        for (const auto [k, chv] : d.items())
        {
            const auto &ch = chv;
            Line row{40, as_i(k), ch.valid(), us(ch.last_modified_time()), ch.modified()};
            auto cs = ch.as_set();
            Line vals, add, rem;
            append_keys(vals, cs.values()); append_keys(add, cs.added()); append_keys(rem, cs.removed());
            std::sort(vals.begin(), vals.end()); std::sort(add.begin(), add.end()); std::sort(rem.begin(), rem.end());
            row.push_back((I64)vals.size()); row.insert(row.end(), vals.begin(), vals.end());
            row.push_back((I64)add.size()); row.insert(row.end(), add.begin(), add.end());
            row.push_back((I64)rem.size()); row.insert(row.end(), rem.begin(), rem.end());
            rows.push_back(std::move(row));
        }
        std::sort(rows.begin(), rows.end());
        for (auto &x : rows) { out.line(x); }
        rows.clear();
        for (const auto [k, chv] : d.removed_items())
        {
            const auto &ch = chv;
            Line row{41, as_i(k)};
            auto cs = ch.as_set();
            Line vals;
            append_keys(vals, cs.values());
            std::sort(vals.begin(), vals.end());
            row.insert(row.end(), vals.begin(), vals.end());
            rows.push_back(std::move(row));
        }
        std::sort(rows.begin(), rows.end());
        for (auto &x : rows) { out.line(x); }
        out.line({37, ticked});
    }

    // ------------------------------------------------------------------ fixed shapes: TSB{a,b,c: TS<int>} (kind 7), TSL<TS<int>,3> (kind 8)
    // ops: 1 set i v
    template <typename Coll> Line fixed_apply(Coll &coll, DateTime t, const std::vector<Op> &ops)
    {
        Line res{19};
        for (const Op &op : ops)
        {
            I64 r = 0;
            if (op.code == 1)
            {
                if (op.a < 0 || (std::size_t)op.a >= coll.size()) { r = 3; }
                else
                {
                    auto  child = coll[(std::size_t)op.a];
                    Value v{op.b};
                    auto  m = child.begin_mutation(t);
                    static_cast<void>(m.copy_value_from(v.view()));
                }
            }
            else { r = -1; }
            res.push_back(r);
        }
        return res;
    }

    template <typename View, typename Coll> void fixed_observe(hgv::Out &out, I64 t, const View &view, Coll &coll, bool bundle, I64 ticked)
    {
        out.line({20, t, view.modified(), view.valid(), view.all_valid(), us(view.last_modified_time()), (I64)coll.size()});
        Line it{33}, md{31, 0};
        for (std::size_t i = 0; i < coll.size(); ++i)
        {
            auto c = coll[i];
            it.insert(it.end(), {(I64)i, c.valid(), c.valid() ? as_i(c.value()) : 0, us(c.last_modified_time())});
            if (c.modified()) { md.push_back((I64)i); }
        }
        for (const auto c : coll.modified_values()) { static_cast<void>(c); ++md[1]; }
        out.line(it); out.line(md);
        Line dl{29, 0};
        auto delta = view.delta_value();
        if (delta.has_value())
        {
            dl[1] = 1;
            if (bundle)
            {
                auto b = delta.as_indexed_view();
                for (std::size_t i = 0; i < b.size(); ++i) { if (b.element_valid(i)) { dl.push_back((I64)i); dl.push_back(as_i(b.at(i))); } }
            }
            else
            {
                // the list's own delta surface: a map  index -> child delta  of the children modified at the parent's time
                std::vector<std::array<I64, 2>> kv;
                for (const auto [k, x] : delta.as_map().items()) { kv.push_back({as_i(k), x.has_value() ? as_i(x) : -1}); }
                std::sort(kv.begin(), kv.end());
                for (auto &x : kv) { dl.insert(dl.end(), x.begin(), x.end()); }
            }
        }
        out.line(dl);
        // what child.delta_value() answers through the endpoint view (not compared with the model)
        Line cd{38};
        for (std::size_t i = 0; i < coll.size(); ++i)
        {
            auto c = coll[i];
            auto d = c.delta_value();
            if (d.has_value()) { cd.push_back((I64)i); cd.push_back(as_i(d)); }
        }
        out.line(cd);
        out.line({37, ticked});
    }

    // ------------------------------------------------------------------ standalone mode
    void run_standalone(const Script &s, hgv::Out &out)
    {
        auto       &registry = TypeRegistry::instance();
        const auto *int_meta = g_i32 ? registry.register_scalar<std::int32_t>("int32") : registry.register_scalar<I64>("int64");
        const auto *ts_int   = registry.ts(int_meta);
        if (s.kind == 1)
        {
            TSOutput output{*registry.tss(int_meta)};
            for (const Cycle &cy : s.cycles)
            {
                const DateTime t = dt(cy.t);
                if (!cy.ops.empty())
                {
                    auto view = output.view(t);
                    auto set  = view.as_set();
                    auto m    = set.begin_mutation(t);
                    out.line(tss_apply(m, cy.ops));
                }
                else { out.line({19}); }
                auto view = output.view(t);
                tss_observe(out, cy.t, view, view.modified());
            }
        }
        else if (s.kind == 2)
        {
            TSOutput output{*registry.tsd(int_meta, ts_int)};
            for (const Cycle &cy : s.cycles)
            {
                const DateTime t = dt(cy.t);
                if (!cy.ops.empty())
                {
                    auto view = output.view(t);
                    auto d    = view.as_dict();
                    out.line(tsd_apply(d, t, cy.ops));
                }
                else { out.line({19}); }
                auto view = output.view(t);
                tsd_observe(out, cy.t, view, view.modified());
            }
        }
        else if (s.kind == 3 || s.kind == 9)
        {
            // kind 3: tick-count window (period p1, min_period p2); kind 9: DURATION window (time range p1, min range p2)
            TSOutput output{s.kind == 3 ? *registry.tsw(int_meta, (std::size_t)s.p1, (std::size_t)s.p2)
                                        : *registry.tsw_duration(int_meta, TimeDelta{s.p1}, TimeDelta{s.p2})};
            for (const Cycle &cy : s.cycles)
            {
                const DateTime t = dt(cy.t);
                if (!cy.ops.empty())
                {
                    auto view = output.view(t);
                    auto w    = view.as_window();
                    auto m    = w.begin_mutation(t);
                    out.line(tsw_apply(m, cy.ops));
                }
                else { out.line({19}); }
                auto view = output.view(t);
                tsw_observe(out, cy.t, view, view.modified());
            }
        }
        else if (s.kind == 4)
        {
            TSOutput output{*registry.tsd(int_meta, registry.tss(int_meta))};
            for (const Cycle &cy : s.cycles)
            {
                const DateTime t = dt(cy.t);
                if (!cy.ops.empty())
                {
                    auto view = output.view(t);
                    auto d    = view.as_dict();
                    auto m    = d.begin_mutation(t);
                    out.line(tsdn_apply(m, t, cy.ops));
                }
                else { out.line({19}); }
                auto view = output.view(t);
                tsdn_observe(out, cy.t, view, view.modified());
            }
        }
        else if (s.kind == 7 || s.kind == 8)
        {
            const auto *schema = s.kind == 7 ? registry.tsb("hgv_coll_b3", {{"a", ts_int}, {"b", ts_int}, {"c", ts_int}}) : registry.tsl(ts_int, 3);
            TSOutput output{*schema};
            for (const Cycle &cy : s.cycles)
            {
                const DateTime t = dt(cy.t);
                auto view = output.view(t);
                if (s.kind == 7) { auto c = view.as_bundle(); out.line(cy.ops.empty() ? Line{19} : fixed_apply(c, t, cy.ops)); fixed_observe(out, cy.t, view, c, true, view.modified()); }
                else { auto c = view.as_list(); out.line(cy.ops.empty() ? Line{19} : fixed_apply(c, t, cy.ops)); fixed_observe(out, cy.t, view, c, false, view.modified()); }
            }
        }
        else { out.line({18, 2}); }
    }

    // ------------------------------------------------------------------ graph mode
    // node 0: scripted source whose output is the collection; wakes at every scripted cycle time through its
    //         NodeScheduler and applies that cycle's mutations through the output mutation API.
    // node 1: ACTIVE probe bound to it (runs only when the collection ticks).
    // node 2: PASSIVE probe, woken every smallest step by its own scheduler; prints what a consumer reads
    //         through the TSInputView at every scripted cycle time.
    struct GCtx
    {
        const Script *s{nullptr};
        hgv::Out     *out{nullptr};
        I64           active_ran_at{-1};
    };

    void run_graph(const Script &s, hgv::Out &out)
    {
        if (s.cycles.empty()) { return; }
        auto       &registry = TypeRegistry::instance();
        const auto *int_meta = g_i32 ? registry.register_scalar<std::int32_t>("int32") : registry.register_scalar<I64>("int64");
        const auto *ts_int   = registry.ts(int_meta);
        const TSValueTypeMetaData *schema = nullptr;
        if (s.kind == 1) { schema = registry.tss(int_meta); }
        else if (s.kind == 2) { schema = registry.tsd(int_meta, ts_int); }
        else if (s.kind == 3) { schema = registry.tsw(int_meta, (std::size_t)s.p1, (std::size_t)s.p2); }
        else if (s.kind == 9) { schema = registry.tsw_duration(int_meta, TimeDelta{s.p1}, TimeDelta{s.p2}); }
        else if (s.kind == 4) { schema = registry.tsd(int_meta, registry.tss(int_meta)); }
        else if (s.kind == 7) { schema = registry.tsb("hgv_coll_b3", {{"a", ts_int}, {"b", ts_int}, {"c", ts_int}}); }
        else if (s.kind == 8) { schema = registry.tsl(ts_int, 3); }
        else { out.line({18, 2}); return; }

        GCtx ctx;
        ctx.s   = &s;
        ctx.out = &out;
        GCtx *pc = &ctx;
        const I64 start = s.cycles.front().t, end = s.cycles.back().t + 1;

        GraphBuilder gb;
        {   // source
            NodeTypeMetaData meta;
            meta.display_name      = "hgv_coll_source";
            meta.uses_scheduler    = true;
            meta.schedule_on_start = true;
            meta.output_schema     = schema;
            meta.node_kind         = NodeKind::PullSource;
            NodeCallbacks cb;
            cb.start    = [](const NodeView &, DateTime) {};
            cb.evaluate = [pc](const NodeView &v, DateTime now) {
                const Script &sc = *pc->s;
                const I64     t  = us(now);
                for (std::size_t ci = 0; ci < sc.cycles.size(); ++ci)
                {
                    const Cycle &cy = sc.cycles[ci];
                    if (cy.t != t) { continue; }
                    if (cy.ops.empty()) { pc->out->line({19}); }
                    else
                    {
                        auto view = v.output(now);
                        if (sc.kind == 1) { auto x = view.as_set(); auto m = x.begin_mutation(now); pc->out->line(tss_apply(m, cy.ops)); }
                        else if (sc.kind == 2) { auto x = view.as_dict(); pc->out->line(tsd_apply(x, now, cy.ops)); }
                        else if (sc.kind == 3 || sc.kind == 9) { auto x = view.as_window(); auto m = x.begin_mutation(now); pc->out->line(tsw_apply(m, cy.ops)); }
                        else if (sc.kind == 4) { auto x = view.as_dict(); auto m = x.begin_mutation(now); pc->out->line(tsdn_apply(m, now, cy.ops)); }
                        else if (sc.kind == 7) { auto x = view.as_bundle(); pc->out->line(fixed_apply(x, now, cy.ops)); }
                        else { auto x = view.as_list(); pc->out->line(fixed_apply(x, now, cy.ops)); }
                    }
                    if (ci + 1 < sc.cycles.size())
                    {
                        NodeScheduler sched{v.scheduler_state(), v.graph_value(), 0, now, true};
                        sched.schedule(dt(sc.cycles[ci + 1].t), std::nullopt);
                    }
                    break;
                }
            };
            gb.add_node(NodeBuilder::native(std::move(meta), std::move(cb)));
        }
        for (int probe = 1; probe <= 2; ++probe)
        {
            NodeTypeMetaData meta;
            meta.display_name = probe == 1 ? "hgv_coll_active_probe" : "hgv_coll_passive_probe";
            meta.node_kind    = NodeKind::Sink;
            std::vector<std::pair<std::string, const TSValueTypeMetaData *>> fields{{"ts", schema}};
            const auto *in_schema = registry.un_named_tsb(fields);
            meta.input_schema     = in_schema;
            if (probe == 2)
            {
                meta.active_inputs     = std::vector<std::size_t>{};
                meta.valid_inputs      = std::vector<std::size_t>{};
                meta.uses_scheduler    = true;
                meta.schedule_on_start = true;
            }
            auto          endpoint = TSEndpointSchema::non_peered(in_schema, {TSEndpointSchema::peered(schema)});
            NodeCallbacks cb;
            cb.start = [](const NodeView &, DateTime) {};
            if (probe == 1) { cb.evaluate = [pc](const NodeView &, DateTime now) { pc->active_ran_at = us(now); }; }
            else
            {
                cb.evaluate = [pc](const NodeView &v, DateTime now) {
                    const Script &sc = *pc->s;
                    const I64     t  = us(now);
                    NodeScheduler sched{v.scheduler_state(), v.graph_value(), 2, now, true};
                    sched.schedule(dt(t + 1), std::nullopt);
                    bool scripted = false;
                    for (const Cycle &cy : sc.cycles) { scripted = scripted || cy.t == t; }
                    if (!scripted) { return; }
                    auto root   = v.input(now);
                    auto bundle = root.as_bundle();
                    auto in     = bundle[0];
                    const I64 ticked = pc->active_ran_at == t;
                    if (sc.kind == 1) { tss_observe(*pc->out, t, in, ticked); }
                    else if (sc.kind == 2) { tsd_observe(*pc->out, t, in, ticked); }
                    else if (sc.kind == 3 || sc.kind == 9) { tsw_observe(*pc->out, t, in, ticked); }
                    else if (sc.kind == 4) { tsdn_observe(*pc->out, t, in, ticked); }
                    else if (sc.kind == 7) { auto c = in.as_bundle(); fixed_observe(*pc->out, t, in, c, true, ticked); }
                    else { auto c = in.as_list(); fixed_observe(*pc->out, t, in, c, false, ticked); }
                };
            }
            gb.add_node(NodeBuilder::native(std::move(meta), std::move(cb), std::move(endpoint)));
            gb.add_edge(GraphEdge{.source_node = 0, .source_path = {}, .target_node = (std::size_t)probe, .target_path = {0}});
        }
        GraphExecutorBuilder eb;
        eb.graph_builder(std::move(gb)).start_time(dt(start)).end_time(dt(end));
        GraphExecutorValue executor = eb.make_executor();
        auto               ev       = executor.view();
        ev.run();
    }

    void run_case(const hgv::Case &c, hgv::Out &out)
    {
        Script s = parse(c);
        g_i32 = (s.kind == 1 || s.kind == 2 || s.kind == 4) && s.p1 == 1;
        try
        {
            if (s.mode == 1) { run_graph(s, out); } else { run_standalone(s, out); }
        }
        catch (const std::exception &e)
        {
            out.line({18, 1});
            std::fprintf(stderr, "error: %s\n", e.what());
        }
    }
}  // namespace

int main(int argc, char **argv)
{
    if (argc < 2) { std::fprintf(stderr, "usage: coll_driver <batch>\n"); return 2; }
    auto     batch = hgv::read_batch(argv[1]);
    hgv::Out out;
    for (const auto &c : batch)
    {
        run_case(c, out);
        out.end_case();
    }
    return 0;
}
