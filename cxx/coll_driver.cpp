// coll_driver.cpp — family "coll" (property C05): scripted mutation histories applied to the REAL
// collection time-series storage of /repo's tree (TSS<int>, TSD<int,TS<int>>, tick TSW<int>, and
// TSD with nested TSS / TSD / TSB children) through the public mutation API, observed after every
// cycle through the public output / input views.  See gen/coll.py for the case format;
// coq/Coll.v is the model that must print the same lines.
#include "hgv_io.h"

#include <hgraph/lib/testing/runtime_support.h>
#include <hgraph/runtime/node_scheduler.h>
#include <hgraph/runtime/runtime.h>
#include <hgraph/types/graph_wiring.h>
#include <hgraph/types/metadata/type_registry.h>
#include <hgraph/types/time_series/ts_input.h>
#include <hgraph/types/time_series/ts_output.h>
#include <hgraph/types/value/value.h>

#include <algorithm>
#include <map>
#include <optional>
#include <stdexcept>

namespace hgraph::stdlib { void register_json_operators() {} }

using namespace hgraph;
using hgv::Line;
using I64 = std::int64_t;

namespace
{
    I64      us(DateTime t) { return t.time_since_epoch().count(); }
    DateTime dt(I64 v) { return DateTime{TimeDelta{v}}; }
    I64      as_i(const ValueView &v) { return v.checked_as<I64>(); }

    struct Op { I64 code, a, b; };
    struct Cycle { I64 t; std::vector<Op> ops; };
    struct Script
    {
        I64                kind{1}, mode{0}, p1{0}, p2{0};
        std::vector<Cycle> cycles;
    };

    Script parse(const hgv::Case &c)
    {
        Script s;
        for (const Line &l : c)
        {
            if (l.empty()) { continue; }
            if (l[0] == 1 && l.size() >= 5) { s.kind = l[1]; s.mode = l[2]; s.p1 = l[3]; s.p2 = l[4]; }
            else if (l[0] == 2 && l.size() >= 2)
            {
                Cycle cy;
                cy.t = l[1];
                for (std::size_t i = 2; i + 3 <= l.size(); i += 3) { cy.ops.push_back({l[i], l[i + 1], l[i + 2]}); }
                s.cycles.push_back(std::move(cy));
            }
        }
        return s;
    }

    Line sorted(Line l, std::size_t from = 1)
    {
        std::sort(l.begin() + from, l.end());
        return l;
    }

    template <typename R> void append_keys(Line &l, R &&range)
    {
        for (const auto v : range) { l.push_back(as_i(v)); }
    }

    // ------------------------------------------------------------------ TSS
    // ops: 1 add k | 2 remove k | 3 clear | 4 reserve c | 5 touch
    Line tss_apply(TSSDataMutationView &m, const std::vector<Op> &ops)
    {
        Line res{19};
        for (const Op &op : ops)
        {
            I64 r = 0;
            switch (op.code)
            {
                case 1: { Value k{op.a}; r = m.add(k.view()); break; }
                case 2: { Value k{op.a}; r = m.remove(k.view()); break; }
                case 3: m.clear(); break;
                case 4: m.reserve((std::size_t)op.a); break;
                case 5: m.touch(); break;
                default: r = -1; break;
            }
            res.push_back(r);
        }
        return res;
    }

    template <typename SetV> void tss_observe(hgv::Out &out, I64 t, bool modified, bool valid, bool all_valid, I64 lmt, const SetV &s,
                                              const TSSDataView &raw, const ValueView &value, const ValueView &delta)
    {
        out.line({20, t, modified, valid, all_valid, lmt, (I64)s.size(), (I64)s.slot_capacity()});
        Line v{21}, a{22}, r{23};
        append_keys(v, s.values());
        append_keys(a, s.added());
        append_keys(r, s.removed());
        out.line(sorted(v)); out.line(sorted(a)); out.line(sorted(r));
        // membership queries must agree with the value
        // raw slot table: state (0 free, 1 live, 2 pending erase), key, raw added / removed bits
        Line st{24}, ks{25}, ab{26}, rb{27};
        for (std::size_t i = 0; i < raw.slot_capacity(); ++i)
        {
            const bool occ = raw.slot_occupied(i), live = raw.slot_live(i);
            st.push_back(!occ ? 0 : (live ? 1 : 2));
            ks.push_back(occ ? as_i(raw.at_slot(i)) : 0);
            ab.push_back(raw.slot_added(i));
            rb.push_back(raw.slot_removed(i));
        }
        out.line(st); out.line(ks); out.line(ab); out.line(rb);
        // the value() / delta_value() Value-layer surfaces
        Line vv{28}, da{29, 0}, dr{30, 0};
        if (value.has_value()) { append_keys(vv, value.as_set().values()); }
        if (delta.has_value())
        {
            auto b = delta.as_indexed_view();
            da[1] = 1; dr[1] = 1;
            append_keys(da, b.at(0).as_set().values());
            append_keys(dr, b.at(1).as_set().values());
        }
        out.line(sorted(vv)); out.line(sorted(da, 2)); out.line(sorted(dr, 2));
    }

    // ------------------------------------------------------------------ TSD<int, TS<int>>
    // ops: 1 set k v | 2 erase k | 3 clear | 4 reserve c | 5 touch | 6 create k (at(k), child left alone)
    Line tsd_apply(TSDDataMutationView &m, const std::vector<Op> &ops)
    {
        Line res{19};
        for (const Op &op : ops)
        {
            I64 r = 0;
            switch (op.code)
            {
                case 1: { Value k{op.a}; Value v{op.b}; m.set(k.view(), v.view()); break; }
                case 2: { Value k{op.a}; r = m.erase(k.view()); break; }
                case 3: m.clear(); break;
                case 4: m.reserve((std::size_t)op.a); break;
                case 5: m.touch(); break;
                case 6: { Value k{op.a}; auto ch = m.at(k.view()); r = (I64)ch.child_id(); break; }
                default: r = -1; break;
            }
            res.push_back(r);
        }
        return res;
    }

    void tsd_observe_out(hgv::Out &out, I64 t, const TSOutputView &view)
    {
        auto        d   = view.as_dict();
        TSDDataView raw = d.data_view();
        out.line({20, t, view.modified(), view.valid(), view.all_valid(), us(view.last_modified_time()), (I64)d.size(), (I64)d.slot_capacity()});
        Line v{21}, a{22}, r{23}, mk{31}, vk{32};
        append_keys(v, d.keys());
        append_keys(a, d.added_keys());
        append_keys(r, d.removed_keys());
        append_keys(mk, d.modified_keys());
        append_keys(vk, d.valid_keys());
        out.line(sorted(v)); out.line(sorted(a)); out.line(sorted(r)); out.line(sorted(mk)); out.line(sorted(vk));
        // items (key, child valid, child value, child last_modified_time) sorted by key
        std::vector<std::array<I64, 4>> items;
        for (const auto [k, ch] : d.items()) { items.push_back({as_i(k), ch.valid(), ch.valid() ? as_i(ch.value()) : 0, us(ch.last_modified_time())}); }
        std::sort(items.begin(), items.end());
        Line it{33};
        for (auto &x : items) { it.insert(it.end(), x.begin(), x.end()); }
        out.line(it);
        // removed items stay readable for the cycle: (key, value) of removed slots
        std::vector<std::array<I64, 2>> rit;
        for (const auto [k, ch] : d.removed_items()) { rit.push_back({as_i(k), ch.valid() ? as_i(ch.value()) : -1}); }
        std::sort(rit.begin(), rit.end());
        Line ri{34};
        for (auto &x : rit) { ri.insert(ri.end(), x.begin(), x.end()); }
        out.line(ri);
        Line st{24}, ks{25}, ab{26}, rb{27}, mb{35};
        for (std::size_t i = 0; i < raw.slot_capacity(); ++i)
        {
            const bool occ = raw.slot_occupied(i), live = raw.slot_live(i);
            st.push_back(!occ ? 0 : (live ? 1 : 2));
            ks.push_back(occ ? as_i(raw.key_at_slot(i)) : 0);
            ab.push_back(raw.slot_added(i));
            rb.push_back(raw.slot_removed(i));
            mb.push_back(raw.slot_modified(i));
        }
        out.line(st); out.line(ks); out.line(ab); out.line(rb); out.line(mb);
        // key-set projection
        auto ksv = d.key_set();
        out.line({36, ksv.modified(), ksv.valid(), us(ksv.last_modified_time())});
        // Value-layer surfaces
        Line vv{28}, dm{29, 0}, dr{30, 0};
        auto value = view.value();
        if (value.has_value())
        {
            std::vector<std::array<I64, 2>> kv;
            for (const auto [k, x] : value.as_map().items()) { kv.push_back({as_i(k), x.has_value() ? as_i(x) : -1}); }
            std::sort(kv.begin(), kv.end());
            for (auto &x : kv) { vv.insert(vv.end(), x.begin(), x.end()); }
        }
        auto delta = view.delta_value();
        if (delta.has_value())
        {
            auto b = delta.as_indexed_view();
            dm[1] = 1; dr[1] = 1;
            std::vector<std::array<I64, 2>> kv;
            for (const auto [k, x] : b.at(1).as_map().items()) { kv.push_back({as_i(k), x.has_value() ? as_i(x) : -1}); }
            std::sort(kv.begin(), kv.end());
            for (auto &x : kv) { dm.insert(dm.end(), x.begin(), x.end()); }
            append_keys(dr, b.at(0).as_set().values());
        }
        out.line(vv); out.line(dm); out.line(sorted(dr, 2));
    }

    // ------------------------------------------------------------------ TSW
    // ops: 1 push v | 3 clear
    Line tsw_apply(TSWDataMutationView &m, const std::vector<Op> &ops)
    {
        Line res{19};
        for (const Op &op : ops)
        {
            I64 r = 0;
            try
            {
                switch (op.code)
                {
                    case 1: { Value v{op.a}; m.push(v.view()); break; }
                    case 3: m.clear(); break;
                    default: r = -1; break;
                }
            }
            catch (const std::logic_error &) { r = 2; }
            res.push_back(r);
        }
        return res;
    }

    void tsw_observe_out(hgv::Out &out, I64 t, const TSOutputView &view)
    {
        auto        w   = view.as_window();
        TSWDataView raw = w.data_view();
        out.line({20, t, view.modified(), view.valid(), view.all_valid(), us(view.last_modified_time()), (I64)w.size(), (I64)w.capacity(),
                  w.full(), (I64)w.min_period(), raw.has_removed_value(dt(t)), raw.has_removed_value(dt(t)) ? as_i(raw.removed_value(dt(t))) : 0,
                  raw.cleared(dt(t)), us(w.first_modified_time())});
        Line v{21}, tm{22};
        append_keys(v, w.values());
        for (const auto x : w.value_times()) { tm.push_back(us(x)); }
        out.line(v); out.line(tm);
        Line vv{28}, dl{29, 0};
        auto value = view.value();
        if (value.has_value()) { for (const auto x : value.as_indexed_view().values()) { vv.push_back(as_i(x)); } }
        auto delta = view.delta_value();
        if (delta.has_value()) { dl[1] = 1; dl.push_back(as_i(delta)); }
        out.line(vv); out.line(dl);
    }

    // ------------------------------------------------------------------ standalone mode
    void run_standalone(const Script &s, hgv::Out &out)
    {
        auto       &registry = TypeRegistry::instance();
        const auto *int_meta = registry.register_scalar<I64>("int64");
        const auto *ts_int   = registry.ts(int_meta);
        if (s.kind == 1)
        {
            TSOutput output{*registry.tss(int_meta)};
            for (const Cycle &cy : s.cycles)
            {
                const DateTime t = dt(cy.t);
                if (!cy.ops.empty())
                {
                    auto view = output.view(t);
                    auto set  = view.as_set();
                    auto m    = set.begin_mutation(t);
                    out.line(tss_apply(m, cy.ops));
                }
                else { out.line({19}); }
                auto view = output.view(t);
                auto set  = view.as_set();
                tss_observe(out, cy.t, view.modified(), view.valid(), view.all_valid(), us(view.last_modified_time()), set, set.data_view(),
                            view.value(), view.delta_value());
            }
        }
        else if (s.kind == 2)
        {
            TSOutput output{*registry.tsd(int_meta, ts_int)};
            for (const Cycle &cy : s.cycles)
            {
                const DateTime t = dt(cy.t);
                if (!cy.ops.empty())
                {
                    auto view = output.view(t);
                    auto d    = view.as_dict();
                    auto m    = d.begin_mutation(t);
                    out.line(tsd_apply(m, cy.ops));
                }
                else { out.line({19}); }
                tsd_observe_out(out, cy.t, output.view(t));
            }
        }
        else if (s.kind == 3)
        {
            TSOutput output{*registry.tsw(int_meta, (std::size_t)s.p1, (std::size_t)s.p2)};
            for (const Cycle &cy : s.cycles)
            {
                const DateTime t = dt(cy.t);
                if (!cy.ops.empty())
                {
                    auto view = output.view(t);
                    auto w    = view.as_window();
                    auto m    = w.begin_mutation(t);
                    out.line(tsw_apply(m, cy.ops));
                }
                else { out.line({19}); }
                tsw_observe_out(out, cy.t, output.view(t));
            }
        }
        else { out.line({18, 2}); }
    }

    void run_case(const hgv::Case &c, hgv::Out &out)
    {
        Script s = parse(c);
        try
        {
            run_standalone(s, out);
        }
        catch (const std::exception &e)
        {
            out.line({18, 1});
            std::fprintf(stderr, "error: %s\n", e.what());
        }
    }
}  // namespace

int main(int argc, char **argv)
{
    if (argc < 2) { std::fprintf(stderr, "usage: coll_driver <batch>\n"); return 2; }
    auto     batch = hgv::read_batch(argv[1]);
    hgv::Out out;
    for (const auto &c : batch)
    {
        run_case(c, out);
        out.end_case();
    }
    return 0;
}
