#include <../tests/cpp/test_graph_diagnostics.cpp>
