// mesh_driver.cpp — family "mesh" (property C01): the REAL stdlib::mesh_ of /repo's tree
// (src/hgraph/runtime/mesh_node.cpp: settle loop, ranks, pause / resume, mesh_subscribe),
// wired with the static DSL, run by the real simulation executor.
//
// Program (fixed shape, the data is the case):
//     val, link1, link2 : TSD<Int, TS<Int>> sources          keys : TSS<Int> source (optional)
//     mesh_(Body, val, link1, link2 [, __keys__ = keys])
//     Body(key, val, l1, l2):  tag(key); seen = probe(key, val); d1 = mesh_ref(l1); d2 = mesh_ref(l2);
//                              out = comb(key, seen, d1, d2) = val + 3*d1 + 7*d2  (invalid = 0)
// Case lines (see gen/mesh.py):
//     1 start end
//     2 explicit_keys
//     3 which t op key val      which 0 val, 1 link1, 2 link2, 3 key set; op 1 set/add, 2 erase/remove
// Observation lines, in order of occurrence inside one root cycle (time t printed once per cycle):
//     10 t                                       root cycle in which something below happened
//     11 key                                     child graph of `key`: a FRESH evaluation begins
//     16 key                                     child graph of `key`: evaluation completed (not paused)
//     15 key                                     mesh_subscribe node #1/#2 of `key` evaluated: 15 key which
//     12 key val                                 probe evaluated
//     13 key vvalid v d1valid d1 d2valid d2 out  comb evaluated
//     30 k v k v ...                             mesh output: modified valid items (sorted)
//     31 k ...                                   mesh output: removed keys (sorted)
//     34 k v ...                                 mesh output: all valid items (sorted)
//     35 k ...                                   mesh output: live keys (sorted)
//     19 code                                    run stopped by an exception: 3 dependency cycle, 4 failed to settle, 1 other
//     18 1                                       build error
#include "hgv_io.h"

#include <hgraph/lib/std/operators/impl/higher_order_impl.h>
#include <hgraph/lib/std/std_nodes.h>
#include <hgraph/lib/std/std_operators.h>
#include <hgraph/lib/testing/runtime_support.h>
#include <hgraph/runtime/lifecycle_observer.h>
#include <hgraph/runtime/mesh_node.h>
#include <hgraph/runtime/node_scheduler.h>
#include <hgraph/runtime/runtime.h>
#include <hgraph/types/graph_wiring.h>
#include <hgraph/types/static_node.h>
#include <hgraph/types/subgraph_wiring.h>
#include <hgraph/types/wired_fn.h>

#include <algorithm>
#include <cstdlib>
#include <map>
#include <optional>
#include <stdexcept>

namespace hgraph::stdlib { void register_json_operators() {} }

using namespace hgraph;
using hgv::Line;

namespace
{
    std::int64_t us(DateTime t) { return t.time_since_epoch().count(); }
    DateTime     dt(std::int64_t v) { return DateTime{TimeDelta{v}}; }

    struct DictOp { std::int64_t code, key, val; };
    using DictScript = std::map<std::int64_t, std::vector<DictOp>>;   // time -> ops

    struct Event
    {
        std::int64_t code;
        const void  *graph;     // resolved to the key at flush time (nullptr: key already known)
        Line         rest;      // fields after the key
        std::int64_t key;
    };

    struct Ctx
    {
        std::int64_t start{1}, end{10};
        std::int64_t explicit_keys{0};
        DictScript   dict[4];
        hgv::Out    *out{nullptr};
        std::int64_t cur_t{0};
        std::vector<Event>                  events;
        std::vector<Line>                   sink_lines;
        std::map<const void *, std::int64_t> key_of;
        const void  *cur_graph{nullptr};
        void flush()
        {
            if (events.empty() && sink_lines.empty()) { return; }
            out->line({10, cur_t});
            for (const Event &e : events)
            {
                std::int64_t k = e.key;
                if (e.graph != nullptr)
                {
                    auto it = key_of.find(e.graph);
                    k       = it == key_of.end() ? -1 : it->second;
                }
                Line l{e.code, k};
                for (auto x : e.rest) { l.push_back(x); }
                out->line(l);
            }
            for (const Line &l : sink_lines) { out->line(l); }
            events.clear();
            sink_lines.clear();
        }
    };
    Ctx *G = nullptr;

    struct DictSrc
    {
        static constexpr auto name              = "hgv_mesh_dict_src";
        static constexpr bool schedule_on_start = true;
        static void eval(DateTime now, NodeScheduler sched, Scalar<"idx", Int> idx, Out<TSD<Int, TS<Int>>> out)
        {
            const DictScript &s  = G->dict[idx.value()];
            auto              it = s.find(us(now));
            if (it != s.end())
            {
                for (const DictOp &op : it->second)
                {
                    if (op.code == 1) { out.set(Int{op.key}, Int{op.val}); }
                    else if (op.code == 2 && out.contains(Int{op.key})) { (void)out.erase(Int{op.key}); }
                }
            }
            auto nx = s.upper_bound(us(now));
            if (nx != s.end()) { sched.schedule(dt(nx->first)); }
        }
    };

    struct SetSrc
    {
        static constexpr auto name              = "hgv_mesh_set_src";
        static constexpr bool schedule_on_start = true;
        static void eval(DateTime now, NodeScheduler sched, Out<TSS<Int>> out)
        {
            const DictScript &s  = G->dict[3];
            auto              it = s.find(us(now));
            if (it != s.end())
            {
                for (const DictOp &op : it->second)
                {
                    if (op.code == 1) { (void)out.add(Int{op.key}); }
                    else if (op.code == 2) { (void)out.remove(Int{op.key}); }
                }
            }
            auto nx = s.upper_bound(us(now));
            if (nx != s.end()) { sched.schedule(dt(nx->first)); }
        }
    };

    // learns which child graph carries which key (the observer stores the graph being evaluated)
    struct Tag
    {
        static constexpr auto name = "hgv_mesh_tag";
        static void eval(In<"key", TS<Int>> key) { G->key_of[G->cur_graph] = key.value(); }
    };
    struct Probe
    {
        static constexpr auto name = "hgv_mesh_probe";
        static void eval(In<"key", TS<Int>> key, In<"val", TS<Int>> val, Out<TS<Int>> out)
        {
            G->events.push_back(Event{12, nullptr, Line{val.value()}, key.value()});
            out.set(val.value());
        }
    };
    struct Comb
    {
        static constexpr auto name = "hgv_mesh_comb";
        static void eval(In<"key", TS<Int>> key, In<"v", TS<Int>, InputValidity::Unchecked> v,
                         In<"d1", TS<Int>, InputValidity::Unchecked> d1, In<"d2", TS<Int>, InputValidity::Unchecked> d2,
                         Out<TS<Int>> out)
        {
            const std::int64_t a = v.valid() ? v.value() : 0;
            const std::int64_t b = d1.valid() ? d1.value() : 0;
            const std::int64_t c = d2.valid() ? d2.value() : 0;
            const std::int64_t r = (a + 3 * b + 7 * c) % 1000003;
            G->events.push_back(Event{13, nullptr, Line{v.valid(), a, d1.valid(), b, d2.valid(), c, r}, key.value()});
            out.set(Int{r});
        }
    };

    struct Body
    {
        static constexpr auto name = "hgv_mesh_body";
        static Port<TS<Int>>  compose(Wiring &w, NamedPort<"key", TS<Int>> key, Port<TS<Int>> val, Port<TS<Int>> l1,
                                      Port<TS<Int>> l2)
        {
            wire<Tag>(w, key);
            Port<TS<Int>> seen = wire<Probe>(w, key, val);
            Port<TS<Int>> d1   = stdlib::mesh_ref<TS<Int>>(w, l1);
            Port<TS<Int>> d2   = stdlib::mesh_ref<TS<Int>>(w, l2);
            return wire<Comb>(w, key, seen, d1, d2);
        }
    };

    struct RecSink
    {
        static constexpr auto name = "hgv_mesh_rec";
        static void eval(DateTime, In<"d", TSD<Int, TS<Int>>, InputValidity::Unchecked> d)
        {
            std::vector<std::int64_t>                          removed, live;
            std::vector<std::pair<std::int64_t, std::int64_t>> mod, all;
            for (const auto &[k, v] : d.removed_items()) { (void)v; removed.push_back(k.template checked_as<Int>()); }
            for (const auto &[k, v] : d.modified_items())
            {
                if (v.valid()) { mod.emplace_back(k.template checked_as<Int>(), v.value()); }
            }
            for (const auto &[k, v] : d.items())
            {
                live.push_back(k.template checked_as<Int>());
                if (v.valid()) { all.emplace_back(k.template checked_as<Int>(), v.value()); }
            }
            std::sort(removed.begin(), removed.end());
            std::sort(mod.begin(), mod.end());
            std::sort(all.begin(), all.end());
            std::sort(live.begin(), live.end());
            auto &L = G->sink_lines;
            Line  m{30};
            for (auto &[k, v] : mod) { m.push_back(k); m.push_back(v); }
            L.push_back(m);
            Line r{31};
            for (auto k : removed) { r.push_back(k); }
            L.push_back(r);
            Line a{34};
            for (auto &[k, v] : all) { a.push_back(k); a.push_back(v); }
            L.push_back(a);
            Line lv{35};
            for (auto k : live) { lv.push_back(k); }
            L.push_back(lv);
        }
    };

    struct Obs : LifecycleObserver
    {
        static bool mesh_child(const GraphView &g)
        {
            if (!g.is_nested()) { return false; }
            NodeView p = g.as_nested().parent_node();
            return p.valid() && p.is<MeshNodeView>();
        }
        void on_after_start_graph(const GraphView &g) override
        {
            static const bool dbg = std::getenv("MESH_DEBUG") != nullptr;
            if (dbg && mesh_child(g))
            {
                for (std::size_t i = 0; i < g.node_count(); ++i)
                {
                    std::fprintf(stderr, "child node %zu '%.*s' sched=%lld\n", i, (int)g.node_at(i).label().size(),
                                 g.node_at(i).label().data(), (long long)us(g.node_scheduled_time(i)));
                }
            }
        }
        void on_before_graph_evaluation(const GraphView &g) override
        {
            if (!g.is_nested())
            {
                G->flush();
                G->cur_t = us(g.evaluation_time());
            }
            else if (mesh_child(g)) { G->events.push_back(Event{11, g.data(), {}, 0}); }
        }
        void on_after_graph_evaluation(const GraphView &g) override
        {
            if (mesh_child(g)) { G->events.push_back(Event{16, g.data(), {}, 0}); }
        }
        void on_before_node_evaluation(const NodeView &n) override
        {
            GraphView g = n.graph();
            if (!mesh_child(g)) { return; }
            G->cur_graph = g.data();
            if (n.label() == std::string_view{"mesh_subscribe"})
            {
                // which of the two subscribe nodes: the first one met in node order is #1
                std::int64_t which = 1;
                for (std::size_t i = 0; i < n.node_index(); ++i)
                {
                    if (g.node_at(i).label() == std::string_view{"mesh_subscribe"}) { which = 2; }
                }
                G->events.push_back(Event{15, g.data(), Line{which}, 0});
            }
        }
    };

    void run_case(const hgv::Case &c, hgv::Out &out)
    {
        Ctx ctx;
        ctx.out = &out;
        G       = &ctx;
        for (const Line &l : c)
        {
            if (l[0] == 1 && l.size() >= 3) { ctx.start = l[1]; ctx.end = l[2]; }
            else if (l[0] == 2 && l.size() >= 2) { ctx.explicit_keys = l[1]; }
            else if (l[0] == 3 && l.size() >= 6 && l[1] >= 0 && l[1] <= 3) { ctx.dict[l[1]][l[2]].push_back({l[3], l[4], l[5]}); }
        }
        if (ctx.start < 1 || ctx.end < ctx.start || ctx.end > 1000000)
        {
            out.line({19, 1});      // rejected before anything is built (the executor rejects such a window)
            G = nullptr;
            return;
        }
        try
        {
            Wiring w;
            auto   v  = wire<DictSrc>(w, Int{0});
            auto   l1 = wire<DictSrc>(w, Int{1});
            auto   l2 = wire<DictSrc>(w, Int{2});
            Port<TSD<Int, TS<Int>>> meshed = [&] {
                if (ctx.explicit_keys)
                {
                    auto ks = wire<SetSrc>(w);
                    return wire<stdlib::mesh_>(w, fn<Body>(), v, l1, l2, arg<"__keys__">(ks)).as<TSD<Int, TS<Int>>>();
                }
                return wire<stdlib::mesh_>(w, fn<Body>(), v, l1, l2).as<TSD<Int, TS<Int>>>();
            }();
            wire<RecSink>(w, meshed);
            GraphBuilder gb = std::move(w).finish();

            Obs                  obs;
            GraphExecutorBuilder eb;
            eb.graph_builder(std::move(gb)).start_time(dt(ctx.start)).end_time(dt(ctx.end)).add_lifecycle_observer(&obs);
            GraphExecutorValue executor = eb.make_executor();
            auto               ev       = executor.view();
            try { ev.run(); }
            catch (const std::exception &e)
            {
                const std::string wh = e.what();
                ctx.flush();
                std::int64_t code = 1;
                if (wh.find("dependency cycle") != std::string::npos) { code = 3; }
                else if (wh.find("failed to settle") != std::string::npos) { code = 4; }
                out.line({19, code});
                std::fprintf(stderr, "run error: %s\n", wh.c_str());
                ctx.events.clear();
                ctx.sink_lines.clear();
            }
            ctx.flush();
        }
        catch (const std::exception &e)
        {
            out.line({18, 1});
            std::fprintf(stderr, "build error: %s\n", e.what());
        }
        G = nullptr;
    }
}  // namespace

int main(int argc, char **argv)
{
    if (argc < 2) { std::fprintf(stderr, "usage: mesh_driver <batch>\n"); return 2; }
    stdlib::register_standard_operators();
    auto     batch = hgv::read_batch(argv[1]);
    hgv::Out out;
    for (const auto &c : batch)
    {
        run_case(c, out);
        out.end_case();
    }
    return 0;
}
