// nestw_driver.cpp — family "nestw": the same generated sub-graph body wired through the public WIRING layer
// (Wiring / wire<> / nested_<G> / passive() / tsl_element) inlined and nested at depth 1 and 2 behind the same
// scripted sources; a sink after each variant records its (time, value) stream.  Serves C09 (wiring-level:
// boundary arguments with structure, passive call-site arguments, interning of child nodes).
// See gen/nestw.py for the case format.  Each case runs in a forked child process: compiled sub-graphs / interned
// node types are cached per C++ type, and the body of DynSub is data, not a type.
#include "hgv_io.h"

#include <hgraph/lib/std/std_operators.h>
#include <hgraph/runtime/runtime.h>
#include <hgraph/types/graph_wiring.h>
#include <hgraph/types/static_node.h>
#include <hgraph/types/subgraph_wiring.h>
#include <hgraph/types/wired_fn.h>

#include <map>
#include <string>
#include <sys/wait.h>
#include <unistd.h>
#include <vector>

namespace hgraph::stdlib { void register_json_operators() {} }

namespace
{
    using namespace hgraph;
    using hgv::Line;
    using IntPair = TSL<TS<Int>, 2>;

    // ---- the current case (plain data, read by the static nodes / DynSub::compose) ----
    struct BodyNode { std::int64_t op, a, b, k; };
    struct Case
    {
        std::int64_t                                           start{1}, end{12};
        std::map<std::int64_t, std::map<std::int64_t, std::int64_t>> script;   // source -> time -> value (sources 0,1 = xs[0],xs[1]; 2 = y)
        std::vector<BodyNode>                                  body;
        std::int64_t                                           passive_mask{0};   // bit 0: xs passed passive(), bit 1: y
        std::vector<BodyNode>                                  sw_body;           // unary chain run inside a switch_ branch (variants 3, 4)
    };
    Case     g_case;
    hgv::Out *g_out = nullptr;

    std::int64_t us(DateTime t) { return t.time_since_epoch().count(); }

    // emits xs[0] / xs[1] at their scripted times
    struct PairSrc
    {
        static constexpr auto name              = "hgv_pair_src";
        static constexpr bool schedule_on_start = true;
        static void           eval(NodeScheduler sched, Out<IntPair> out, DateTime now)
        {
            const std::int64_t t = us(now);
            for (int e = 0; e < 2; ++e)
            {
                auto it = g_case.script[e].find(t);
                if (it != g_case.script[e].end()) { out[e].set(Int{it->second}); }
            }
            std::int64_t next = -1;
            for (int e = 0; e < 2; ++e)
            {
                auto it = g_case.script[e].upper_bound(t);
                if (it != g_case.script[e].end() && (next < 0 || it->first < next)) { next = it->first; }
            }
            if (next > t) { sched.schedule(DateTime{TimeDelta{next}}); }
        }
    };
    struct ScalarSrc
    {
        static constexpr auto name              = "hgv_scalar_src";
        static constexpr bool schedule_on_start = true;
        static void           eval(NodeScheduler sched, Out<TS<Int>> out, DateTime now)
        {
            const std::int64_t t  = us(now);
            auto               it = g_case.script[2].find(t);
            if (it != g_case.script[2].end()) { out.set(Int{it->second}); }
            auto nx = g_case.script[2].upper_bound(t);
            if (nx != g_case.script[2].end()) { sched.schedule(DateTime{TimeDelta{nx->first}}); }
        }
    };

    // the switch key: scripted like the others (source 3)
    struct KeySrc
    {
        static constexpr auto name              = "hgv_key_src";
        static constexpr bool schedule_on_start = true;
        static void           eval(NodeScheduler sched, Out<TS<Int>> out, DateTime now)
        {
            const std::int64_t t  = us(now);
            auto               it = g_case.script[3].find(t);
            if (it != g_case.script[3].end()) { out.set(Int{it->second}); }
            auto nx = g_case.script[3].upper_bound(t);
            if (nx != g_case.script[3].end()) { sched.schedule(DateTime{TimeDelta{nx->first}}); }
        }
    };

    // ---- body vocabulary ----
    struct Scale
    {
        static constexpr auto name = "hgv_scale";
        static void           eval(In<"in", TS<Int>> in, Scalar<"k", Int> k, Out<TS<Int>> out) { out.set(in.value() * k.value()); }
    };
    struct Neg
    {
        static constexpr auto name = "hgv_neg";
        static void           eval(In<"in", TS<Int>> in, Out<TS<Int>> out) { out.set(-in.value()); }
    };
    struct Add
    {
        static constexpr auto name = "hgv_add";
        static void eval(In<"lhs", TS<Int>> lhs, In<"rhs", TS<Int>> rhs, Out<TS<Int>> out) { out.set(lhs.value() + rhs.value()); }
    };
    struct Sub
    {
        static constexpr auto name = "hgv_sub";
        static void eval(In<"lhs", TS<Int>> lhs, In<"rhs", TS<Int>> rhs, Out<TS<Int>> out) { out.set(lhs.value() - rhs.value()); }
    };
    struct Acc
    {
        static constexpr auto name = "hgv_acc";
        static void           eval(In<"in", TS<Int>> in, State<Int> sum, Out<TS<Int>> out)
        {
            sum.set(sum.get() + in.value());
            out.set(sum.get());
        }
    };
    // passes its input on only when the input reads as MODIFIED in this cycle (the tree's own EchoOnce guard)
    struct EchoMod
    {
        static constexpr auto name = "hgv_echo_mod";
        static void           eval(In<"in", TS<Int>> in, Out<TS<Int>> out) { if (in.modified()) { out.set(in.value()); } }
    };
    struct Sink
    {
        static constexpr auto name = "hgv_sink";
        static void           eval(In<"in", TS<Int>> in, Scalar<"variant", Int> variant, DateTime now)
        {
            g_out->line({30, (std::int64_t)variant.value(), us(now), (std::int64_t)in.value()});
        }
    };

    // op: 1 scale(k) a | 2 neg a | 3 add a b | 4 sub a b | 5 acc a | 6 add a passive(b) | 7 sub a passive(b)
    // refs: 0 xs[0], 1 xs[1], 2 y, 3+j body node j
    struct DynSub
    {
        static constexpr auto name = "hgv_dyn";
        static Port<TS<Int>>  compose(Wiring &w, Port<IntPair> xs, Port<TS<Int>> y)
        {
            std::vector<Port<TS<Int>>> outs;
            auto ref = [&](std::int64_t r) -> Port<TS<Int>> {
                if (r == 0) { return tsl_element(xs, 0); }
                if (r == 1) { return tsl_element(xs, 1); }
                if (r == 2) { return y; }
                return outs.at((std::size_t)(r - 3));
            };
            for (const BodyNode &n : g_case.body)
            {
                switch (n.op)
                {
                    case 1: outs.push_back(wire<Scale>(w, ref(n.a), Int{n.k})); break;
                    case 2: outs.push_back(wire<Neg>(w, ref(n.a))); break;
                    case 3: outs.push_back(wire<Add>(w, ref(n.a), ref(n.b))); break;
                    case 4: outs.push_back(wire<Sub>(w, ref(n.a), ref(n.b))); break;
                    case 5: outs.push_back(wire<Acc>(w, ref(n.a))); break;
                    case 6: outs.push_back(wire<Add>(w, ref(n.a), passive(ref(n.b)))); break;
                    case 7: outs.push_back(wire<Sub>(w, ref(n.a), passive(ref(n.b)))); break;
                    default: throw std::invalid_argument("hgv: unknown body op");
                }
            }
            return outs.back();
        }
    };
    struct DynWrap
    {
        static constexpr auto name = "hgv_dyn_wrap";
        static Port<TS<Int>>  compose(Wiring &w, Port<IntPair> xs, Port<TS<Int>> y) { return nested_<DynSub>(w, xs, y); }
    };

    // the body of a switch_ branch: a unary chain over the branch argument (ops 1 scale(k), 2 neg, 5 acc, 8 echo_mod);
    // ND = 0 wired inline in the branch, ND = 1 wrapped in nested_<>: a nested node that STARTS MID-RUN
    template <int ND>
    struct SwBody
    {
        static constexpr auto name = "hgv_sw_body";
        static Port<TS<Int>>  compose(Wiring &w, Port<TS<Int>> a)
        {
            if constexpr (ND == 1) { return nested_<SwBody<0>>(w, a); }
            else
            {
                Port<TS<Int>> cur = a;
                for (const BodyNode &n : g_case.sw_body)
                {
                    switch (n.op)
                    {
                        case 1: cur = wire<Scale>(w, cur, Int{n.k}); break;
                        case 2: cur = wire<Neg>(w, cur); break;
                        case 5: cur = wire<Acc>(w, cur); break;
                        default: cur = wire<EchoMod>(w, cur); break;
                    }
                }
                return cur;
            }
        }
    };

    template <int ND>
    struct SwRoot
    {
        static constexpr auto name = "hgv_sw_root";
        static void           compose(Wiring &w)
        {
            auto                key = wire<KeySrc>(w);
            auto                a   = wire<ScalarSrc>(w);
            stdlib::SwitchCases cases;
            cases.cases.push_back(stdlib::SwitchCase{Value{Int{1}}, fn<SwBody<ND>>()});
            auto sw = wire<stdlib::switch_>(w, key, cases, a);
            wire<Sink>(w, sw.template as<TS<Int>>(), Int{3 + ND});
        }
    };

    template <int Depth>
    struct Root
    {
        static constexpr auto name = "hgv_root";
        static void           compose(Wiring &w)
        {
            auto xs0 = wire<PairSrc>(w);
            auto y0  = wire<ScalarSrc>(w);
            auto xs  = (g_case.passive_mask & 1) ? passive(xs0) : xs0;
            auto y   = (g_case.passive_mask & 2) ? passive(y0) : y0;
            Port<TS<Int>> out;
            if constexpr (Depth == 0) { out = wire<DynSub>(w, xs, y); }
            else if constexpr (Depth == 1) { out = nested_<DynSub>(w, xs, y); }
            else { out = nested_<DynWrap>(w, xs, y); }
            wire<Sink>(w, out, Int{Depth});
        }
    };

    template <int ND>
    void run_switch_variant()
    {
        try
        {
            GraphBuilder gb       = build_graph<SwRoot<ND>>();
            auto         executor = GraphExecutorBuilder{}
                                .graph_builder(std::move(gb))
                                .start_time(DateTime{TimeDelta{g_case.start}})
                                .end_time(DateTime{TimeDelta{g_case.end}})
                                .make_executor();
            executor.view().run();
            g_out->line({31, 3 + ND});
        }
        catch (const std::exception &e)
        {
            g_out->line({39, 3 + ND});
            std::fprintf(stderr, "switch variant %d: %s\n", ND, e.what());
        }
    }

    template <int Depth>
    void run_variant()
    {
        try
        {
            GraphBuilder gb       = build_graph<Root<Depth>>();
            auto         executor = GraphExecutorBuilder{}
                                .graph_builder(std::move(gb))
                                .start_time(DateTime{TimeDelta{g_case.start}})
                                .end_time(DateTime{TimeDelta{g_case.end}})
                                .make_executor();
            executor.view().run();
            g_out->line({31, Depth});
        }
        catch (const std::exception &e)
        {
            g_out->line({39, Depth});
            std::fprintf(stderr, "variant %d: %s\n", Depth, e.what());
        }
    }

    void run_case(const hgv::Case &c, hgv::Out &out)
    {
        g_case = Case{};
        g_out  = &out;
        for (const Line &l : c)
        {
            if (l[0] == 1) { g_case.start = l[1]; g_case.end = l[2]; }
            else if (l[0] == 2) { g_case.script[l[1]][l[2]] = l[3]; }
            else if (l[0] == 3) { g_case.body.push_back({l[1], l[2], l[3], l[4]}); }
            else if (l[0] == 4) { g_case.passive_mask = l[1]; }
            else if (l[0] == 5) { g_case.sw_body.push_back({l[1], 0, 0, l[2]}); }
        }
        if (g_case.body.empty()) { g_case.body.push_back({1, 0, 0, 1}); }
        run_variant<0>();
        run_variant<1>();
        run_variant<2>();
        if (!g_case.sw_body.empty())
        {
            run_switch_variant<0>();
            run_switch_variant<1>();
        }
    }
}  // namespace

int main(int argc, char **argv)
{
    if (argc < 2) { std::fprintf(stderr, "usage: nestw_driver <batch>\n"); return 2; }
    auto batch = hgv::read_batch(argv[1]);
    hgraph::stdlib::register_standard_operators();
    for (const auto &c : batch)
    {
        std::fflush(stdout);
        const pid_t pid = fork();
        if (pid == 0)
        {
            hgv::Out out;
            run_case(c, out);
            out.end_case();
            std::fflush(stdout);
            _exit(0);
        }
        int status = 0;
        waitpid(pid, &status, 0);
        if (!WIFEXITED(status) || WEXITSTATUS(status) != 0)
        {
            std::printf("38 1\n#\n");
            std::fflush(stdout);
        }
    }
    return 0;
}
