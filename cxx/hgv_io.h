// hgv_io.h — wire format shared by every driver: a case is a list of lines of
// integers; a batch file holds cases separated by a line containing only "#".
// Drivers print one observation line of integers per event and "#" after each case.
#pragma once
#include <cstdint>
#include <cstdio>
#include <fstream>
#include <iostream>
#include <sstream>
#include <string>
#include <vector>

namespace hgv
{
    using Line = std::vector<std::int64_t>;
    using Case = std::vector<Line>;

    inline std::vector<Case> read_batch(const char *path)
    {
        std::ifstream     in(path);
        std::vector<Case> out;
        Case              cur;
        std::string       s;
        while (std::getline(in, s))
        {
            if (!s.empty() && s[0] == '#')
            {
                out.push_back(std::move(cur));
                cur.clear();
                continue;
            }
            std::istringstream is(s);
            Line               l;
            std::int64_t       v;
            while (is >> v) { l.push_back(v); }
            if (!l.empty()) { cur.push_back(std::move(l)); }
        }
        if (!cur.empty()) { out.push_back(std::move(cur)); }
        return out;
    }

    struct Out
    {
        std::string buf;
        void        line(std::initializer_list<std::int64_t> xs)
        {
            bool first = true;
            for (auto x : xs)
            {
                if (!first) { buf += ' '; }
                first = false;
                buf += std::to_string(x);
            }
            buf += '\n';
        }
        void line(const Line &xs)
        {
            bool first = true;
            for (auto x : xs)
            {
                if (!first) { buf += ' '; }
                first = false;
                buf += std::to_string(x);
            }
            buf += '\n';
        }
        void end_case()
        {
            buf += "#\n";
            std::fwrite(buf.data(), 1, buf.size(), stdout);
            std::fflush(stdout);
            buf.clear();
        }
    };
}  // namespace hgv
