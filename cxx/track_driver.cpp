// track_driver.cpp — family "track" (property C04): a scripted source node whose
// output schema is built at run time from a generated shape (TS<int64>, TSB, fixed
// TSL, TSD<int64,.> and nestings) applies a generated write history, cycle by
// cycle, through the TSOutputView / TSDataMutationView mutation API of /repo's
// tree; probe sinks bound to the same output (one passive that wakes every
// smallest step, active ones on the root or on a child path, optionally one
// bound late) are read after EVERY cycle, including cycles without a write,
// together with the producer-side view of the same observables.
// Case format and observation lines: see gen/track.py.  coq/Track.v is the model
// that must print the same lines.
#include "hgv_io.h"

#include <hgraph/lib/testing/runtime_support.h>
#include <hgraph/runtime/runtime.h>
#include <hgraph/types/graph_wiring.h>
#include <hgraph/types/metadata/type_registry.h>
#include <hgraph/types/metadata/value_plan_factory.h>
#include <hgraph/types/time_series/ts_data.h>
#include <hgraph/types/time_series/ts_input.h>
#include <hgraph/types/time_series/ts_output.h>
#include <hgraph/types/value/value.h>
#include <hgraph/types/value/value_builder.h>

#include <algorithm>
#include <functional>
#include <map>
#include <memory>
#include <optional>
#include <stdexcept>

namespace hgraph::stdlib { void register_json_operators() {} }

using namespace hgraph;
using hgv::Line;

namespace
{
    std::int64_t us(DateTime t) { return t.time_since_epoch().count(); }
    DateTime     dt(std::int64_t v) { return DateTime{TimeDelta{v}}; }

    // ------------------------------------------------------------------ shapes
    struct Shape
    {
        int                                 kind{0};  // 0 TS  1 TSB  2 TSL  3 TSD
        std::vector<std::unique_ptr<Shape>> kids;     // TSB: fields; TSL: n copies share kids[0]; TSD: kids[0]
        std::size_t                         n{0};     // TSB/TSL child count
        const TSValueTypeMetaData          *meta{nullptr};
        const Shape                        &child(std::size_t i) const { return kind == 1 ? *kids.at(i) : *kids.at(0); }
    };

    const ValueTypeMetaData *g_int_meta = nullptr;

    std::unique_ptr<Shape> parse_shape(const Line &l, std::size_t &p, int &serial)
    {
        auto &registry = TypeRegistry::instance();
        auto  s        = std::make_unique<Shape>();
        s->kind        = (int)l.at(p++);
        if (s->kind == 0) { s->meta = registry.ts(g_int_meta); }
        else if (s->kind == 1)
        {
            s->n = (std::size_t)l.at(p++);
            std::vector<std::pair<std::string, const TSValueTypeMetaData *>> fields;
            for (std::size_t i = 0; i < s->n; ++i)
            {
                s->kids.push_back(parse_shape(l, p, serial));
                fields.emplace_back("f" + std::to_string(i), s->kids.back()->meta);
            }
            s->meta = registry.un_named_tsb(fields);
        }
        else if (s->kind == 2)
        {
            s->n = (std::size_t)l.at(p++);
            s->kids.push_back(parse_shape(l, p, serial));
            s->meta = registry.tsl(s->kids[0]->meta, s->n);
        }
        else if (s->kind == 3)
        {
            s->kids.push_back(parse_shape(l, p, serial));
            s->meta = registry.tsd(g_int_meta, s->kids[0]->meta);
        }
        else { throw std::invalid_argument("bad shape"); }
        return s;
    }

    // ------------------------------------------------------------------ case
    struct WriteOp
    {
        std::int64_t              t, op;
        std::vector<std::int64_t> path, args;
    };
    struct Consumer
    {
        int                       kind{0};  // 0 passive every-cycle probe, 1 active root, 2 active child path, 3 late bound (passive, every cycle)
        std::vector<std::int64_t> path;     // kind 2: child path (TSB/TSL indices only)
        std::int64_t              bind_at{0};
    };
    // counts observers.notify calls on one node of the output ("notifies observers once")
    struct Counter : Notifiable
    {
        std::int64_t n{0};
        void         notify(DateTime) override { ++n; }
    };
    struct Ctx
    {
        std::map<std::vector<std::int64_t>, std::unique_ptr<Counter>> counters;
        std::unique_ptr<Shape> shape;
        std::vector<WriteOp>   ops;
        std::vector<Consumer>  cons;
        std::int64_t           start{1}, end{10};
        hgv::Out              *out{nullptr};
    };

    const Shape &shape_at(const Shape &root, const std::vector<std::int64_t> &path, std::size_t upto)
    {
        const Shape *s = &root;
        for (std::size_t i = 0; i < upto; ++i) { s = &s->child(s->kind == 3 ? 0 : (std::size_t)path[i]); }
        return *s;
    }

    // ------------------------------------------------------------------ values for whole-value writes
    // value tree encoding (preorder):  TS: present v | TSB: present then (if present) children | TSL: same
    Value build_value(const Shape &s, const std::vector<std::int64_t> &a, std::size_t &p, bool &present);

    void skip_value(const Shape &s, const std::vector<std::int64_t> &a, std::size_t &p)
    {
        bool pr;
        (void)build_value(s, a, p, pr);
    }

    Value build_value(const Shape &s, const std::vector<std::int64_t> &a, std::size_t &p, bool &present)
    {
        present = a.at(p++) != 0;
        if (s.kind == 0)
        {
            std::int64_t v = a.at(p++);
            return present ? Value{v} : Value{};
        }
        if (s.kind == 2)
        {
            if (!present) { return Value{}; }
            const auto  elem = ValuePlanFactory::instance().type_for(s.child(0).meta->value_schema);
            ListBuilder builder{elem, *s.meta->value_schema};
            for (std::size_t i = 0; i < s.n; ++i)
            {
                bool  cp = false;
                Value cv = build_value(s.child(i), a, p, cp);
                if (cp) { builder.push_back(cv.view()); } else { builder.push_back_unset(); }
            }
            return builder.build();
        }
        if (s.kind == 1)
        {
            if (!present) { return Value{}; }
            const auto   binding = ValuePlanFactory::instance().type_for(s.meta->value_schema);
            BundleBuilder builder{binding};
            for (std::size_t i = 0; i < s.n; ++i)
            {
                bool  cp = false;
                Value cv = build_value(s.child(i), a, p, cp);
                if (cp) { builder.set(i, cv.view()); }
            }
            return builder.build();
        }
        throw std::invalid_argument("whole-value write of TSD is not scripted");
    }

    // ------------------------------------------------------------------ navigation for writes (TSDataView domain)
    struct KeyAbsent {};
    // direct = true: a dictionary level is crossed by LOOKING the element up (TSDDataView::at, no
    // structural operation, no mutation scope on the dictionary); an absent key throws KeyAbsent.
    TSDataView descend_write(TSDataView cur, const Shape &root, const std::vector<std::int64_t> &path, DateTime now,
                             bool direct = false)
    {
        const Shape *s = &root;
        for (std::size_t i = 0; i < path.size(); ++i)
        {
            if (s->kind == 1 || s->kind == 2)
            {
                TSDataView next = cur.ensure_indexed_child_at((std::size_t)path[i]);
                s               = &s->child((std::size_t)path[i]);
                cur             = std::move(next);
            }
            else if (s->kind == 3)
            {
                Value      key{path[i]};
                TSDataView next;
                if (direct)
                {
                    auto dict = cur.as_dict();
                    if (!dict.contains(key.view())) { throw KeyAbsent{}; }
                    next = dict.at(key.view());
                }
                else
                {
                    auto mutation = cur.as_dict().begin_mutation(now);
                    next          = mutation.at(key.view());
                }
                s   = &s->child(0);
                cur = std::move(next);
            }
            else { throw std::invalid_argument("path through a leaf"); }
        }
        return cur;
    }

    void apply_op(Ctx &ctx, const NodeView &view, DateTime now, const WriteOp &w)
    {
        auto         out  = view.output(now);
        std::int64_t code = 0;
        try
        {
            if (w.op == 5)
            {   // erase key args[0] of the TSD at path
                TSDataView d   = descend_write(out.data_view().borrowed_ref(), *ctx.shape, w.path, now);
                Value      key{w.args.at(0)};
                auto       mutation = d.as_dict().begin_mutation(now);
                const bool changed  = mutation.erase(key.view());
                ctx.out->line({23, us(now), 5, changed});
                return;
            }
            if (w.op == 4)
            {   // create key args[0] (at(key)) without writing the child
                TSDataView d   = descend_write(out.data_view().borrowed_ref(), *ctx.shape, w.path, now);
                Value      key{w.args.at(0)};
                auto       mutation = d.as_dict().begin_mutation(now);
                (void)mutation.at(key.view());
                ctx.out->line({23, us(now), 4, 1});
                return;
            }
            if (w.op == 6)
            {   // write a leaf through the element's own view: dictionaries on the way are only looked up
                try
                {
                    TSDataView target = descend_write(out.data_view().borrowed_ref(), *ctx.shape, w.path, now, true);
                    auto       m      = target.begin_mutation(now);
                    const bool first  = m.move_value_from(Value{w.args.at(0)});
                    ctx.out->line({23, us(now), 6, first});
                }
                catch (const KeyAbsent &) { ctx.out->line({29, us(now), 6, 4}); }
                return;
            }
            TSDataView target = descend_write(out.data_view().borrowed_ref(), *ctx.shape, w.path, now);
            auto       m      = target.begin_mutation(now);
            if (w.op == 1)
            {
                const bool first = m.move_value_from(Value{w.args.at(0)});
                ctx.out->line({23, us(now), 1, first});
            }
            else if (w.op == 2)
            {
                const bool did = m.invalidate();
                ctx.out->line({23, us(now), 2, did});
            }
            else if (w.op == 3)
            {
                const Shape &s = shape_at(*ctx.shape, w.path, w.path.size());
                std::size_t  p = 0;
                bool         present = false;
                Value        v = build_value(s, w.args, p, present);
                if (present)
                {
                    const bool first = m.copy_value_from(v.view());
                    ctx.out->line({23, us(now), 3, first});
                }
                else { ctx.out->line({23, us(now), 3, 0}); }
            }
        }
        catch (const std::exception &e)
        {
            const std::string wtxt = e.what();
            code = 1;
            if (wtxt.find("duplicate modification") != std::string::npos) { code = 2; }
            ctx.out->line({29, us(now), w.op, code});
            if (code == 1) { std::fprintf(stderr, "op error: %s\n", wtxt.c_str()); }
        }
    }

    // ------------------------------------------------------------------ reading
    using Counters = std::map<std::vector<std::int64_t>, std::unique_ptr<Counter>>;
    template <typename V>
    void read_tree(hgv::Out &out, std::int64_t who, std::int64_t now, const Shape &s, const V &v, std::vector<std::int64_t> &path,
                   const Counters *counters = nullptr)
    {
        Line l{20, who, now, (std::int64_t)path.size()};
        for (auto x : path) { l.push_back(x); }
        const bool valid = v.valid();
        l.push_back(valid);
        l.push_back(v.modified());
        l.push_back(us(v.last_modified_time()));
        std::int64_t value = 0;
        if (s.kind == 0 && valid) { value = v.value().template checked_as<std::int64_t>(); }
        l.push_back(value);
        // delta
        ValueView    d       = v.delta_value();
        const bool   has     = d.has_value();
        std::int64_t dv      = 0;
        if (has)
        {
            // "sampled" reads hand back value() typed with the VALUE schema instead of a delta
            const bool whole = s.kind != 0 && s.kind != 1 && d.schema() == s.meta->value_schema &&
                               s.meta->value_schema != s.meta->delta_value_schema;
            if (whole) { dv = -2; }
            else if (s.kind == 0) { dv = d.template checked_as<std::int64_t>(); }
            else if (s.kind == 1)
            {
                auto b = d.as_bundle();
                for (std::size_t i = 0; i < s.n; ++i)
                {
                    if (b.at(i).has_value()) { dv |= (std::int64_t{1} << i); }
                }
            }
            else if (s.kind == 2)
            {
                auto m = d.as_map();
                for (const auto k : m.keys()) { dv |= (std::int64_t{1} << k.template checked_as<std::int64_t>()); }
            }
            else { dv = -1; }
        }
        l.push_back(has);
        l.push_back(dv);
        if (counters != nullptr)
        {
            auto it = counters->find(path);
            l.push_back(it == counters->end() ? -1 : it->second->n);
        }
        out.line(l);
        if (s.kind == 2 && s.n == 0)
        {   // unbounded TSL: the indices the list itself reports modified (only asked in cycles in which the
            // list is modified: the data-level ring is not time-gated and keeps the previous cycle's indices)
            Line ml{32, who, now, (std::int64_t)path.size()};
            for (auto x : path) { ml.push_back(x); }
            const bool md = v.modified();
            ml.push_back(md);
            if (md)
            {
                std::vector<std::int64_t> idx;
                auto                      list  = v.data_view().as_list();
                auto                      range = list.modified_indices();
                for (auto it = range.begin(); it != range.end(); ++it) { idx.push_back((std::int64_t)*it); }
                std::sort(idx.begin(), idx.end());
                for (auto k : idx) { ml.push_back(k); }
            }
            out.line(ml);
        }
        if (s.kind == 1 || s.kind == 2)
        {
            const std::size_t count = (s.kind == 2 && s.n == 0) ? v.data_view().indexed_child_count() : s.n;
            for (std::size_t i = 0; i < count; ++i)
            {
                auto c = v.indexed_child_at(i);
                path.push_back((std::int64_t)i);
                read_tree(out, who, now, s.child(i), c, path, counters);
                path.pop_back();
            }
        }
        else if (s.kind == 3)
        {
            auto                      dv2 = v.as_dict();
            std::vector<std::int64_t> keys;
            for (const auto k : dv2.keys()) { keys.push_back(k.template checked_as<std::int64_t>()); }
            std::sort(keys.begin(), keys.end());
            Line kl{24, who, now, (std::int64_t)path.size()};
            for (auto x : path) { kl.push_back(x); }
            for (auto k : keys) { kl.push_back(k); }
            out.line(kl);
            {   // the keys the dictionary itself reports modified in this cycle
                std::vector<std::int64_t> mk;
                for (const auto k : dv2.modified_keys()) { mk.push_back(k.template checked_as<std::int64_t>()); }
                std::sort(mk.begin(), mk.end());
                Line ml{22, who, now, (std::int64_t)path.size()};
                for (auto x : path) { ml.push_back(x); }
                for (auto k : mk) { ml.push_back(k); }
                out.line(ml);
                // ... and the keys of the "modified" map of its per-tick delta (when a delta is readable)
                Line dl{31, who, now, (std::int64_t)path.size()};
                for (auto x : path) { dl.push_back(x); }
                const bool typed_delta = has && d.schema() == s.meta->delta_value_schema;
                dl.push_back(typed_delta);
                if (typed_delta)
                {
                    std::vector<std::int64_t> dk;
                    auto                      bundle   = d.as_bundle();
                    auto                      modified = bundle.at(1);
                    if (modified.has_value())
                    {
                        for (const auto [key, value] : modified.as_map().items())
                        {
                            static_cast<void>(value);
                            dk.push_back(key.template checked_as<std::int64_t>());
                        }
                    }
                    std::sort(dk.begin(), dk.end());
                    for (auto k : dk) { dl.push_back(k); }
                }
                out.line(dl);
            }
            for (auto k : keys)
            {
                Value key{k};
                auto  c = dv2.at(key.view());
                path.push_back(k);
                read_tree(out, who, now, s.child(0), c, path, counters);
                path.pop_back();
            }
        }
    }

    void run_case(const hgv::Case &c, hgv::Out &out)
    {
        auto &registry = TypeRegistry::instance();
        g_int_meta     = registry.register_scalar<std::int64_t>("int64");

        Ctx ctx;
        ctx.out    = &out;
        int serial = 0;
        for (const Line &l : c)
        {
            if (l[0] == 1) { ctx.start = l[1]; ctx.end = l[2]; }
            else if (l[0] == 2)
            {
                std::size_t p = 1;
                ctx.shape     = parse_shape(l, p, serial);
            }
            else if (l[0] == 3)
            {
                WriteOp w;
                w.t = l.at(1); w.op = l.at(2);
                const std::size_t pl = (std::size_t)l.at(3);
                for (std::size_t i = 0; i < pl; ++i) { w.path.push_back(l.at(4 + i)); }
                for (std::size_t i = 4 + pl; i < l.size(); ++i) { w.args.push_back(l[i]); }
                ctx.ops.push_back(std::move(w));
            }
            else if (l[0] == 4)
            {
                Consumer k;
                k.kind = (int)l.at(1);
                k.bind_at = l.at(2);
                for (std::size_t i = 3; i < l.size(); ++i) { k.path.push_back(l[i]); }
                ctx.cons.push_back(std::move(k));
            }
        }
        if (!ctx.shape) { out.line({28, 1}); return; }
        if (ctx.cons.empty()) { ctx.cons.push_back(Consumer{}); }

        GraphBuilder gb;
        Ctx         *pc = &ctx;
        // node 0: the scripted source
        {
            NodeTypeMetaData schema;
            schema.display_name  = "hgv_track_src";
            schema.output_schema = ctx.shape->meta;
            schema.node_kind     = NodeKind::PullSource;
            NodeCallbacks cb;
            cb.stop = [pc](const NodeView &v, DateTime t) {
                auto out = v.output(t);
                for (auto &kv : pc->counters)
                {
                    TSDataView cur = out.data_view().borrowed_ref();
                    for (auto i : kv.first) { TSDataView nx = cur.indexed_child_at((std::size_t)i); cur = std::move(nx); }
                    cur.unsubscribe(kv.second.get());
                }
                pc->counters.clear();
            };
            cb.start = [pc](const NodeView &v, DateTime t) {
                // a counting observer on every statically indexed node of the output
                {
                    auto out = v.output(t);
                    std::function<void(const Shape &, TSDataView, std::vector<std::int64_t> &)> walk =
                        [&](const Shape &s, TSDataView cur, std::vector<std::int64_t> &path) {
                            auto c = std::make_unique<Counter>();
                            cur.subscribe(c.get());
                            pc->counters[path] = std::move(c);
                            if (s.kind == 1 || s.kind == 2)
                            {
                                for (std::size_t i = 0; i < s.n; ++i)
                                {
                                    path.push_back((std::int64_t)i);
                                    walk(s.child(i), cur.indexed_child_at(i), path);
                                    path.pop_back();
                                }
                            }
                        };
                    std::vector<std::int64_t> path;
                    walk(*pc->shape, out.data_view().borrowed_ref(), path);
                }
                // wake at the first scripted write; evaluate re-arms for the next one
                // (a second request would REPLACE a slot equal to the current time)
                std::int64_t first = -1;
                for (const auto &w : pc->ops)
                {
                    if (w.t >= us(t) && (first < 0 || w.t < first)) { first = w.t; }
                }
                if (first >= 0) { v.graph_value()->schedule_node(0, dt(first)); }
            };
            cb.evaluate = [pc](const NodeView &v, DateTime t) {
                for (const auto &w : pc->ops)
                {
                    if (w.t == us(t)) { apply_op(*pc, v, t, w); }
                }
                std::int64_t next = -1;
                for (const auto &w : pc->ops)
                {
                    if (w.t > us(t) && (next < 0 || w.t < next)) { next = w.t; }
                }
                if (next > 0) { v.graph_value()->schedule_node(0, dt(next)); }
            };
            gb.add_node(NodeBuilder::native(std::move(schema), std::move(cb)));
        }
        // consumers 1..n ; the LAST node is the every-cycle reporter (it is consumer kind 0 and must exist)
        const std::size_t ncons = ctx.cons.size();
        for (std::size_t k = 0; k < ncons; ++k)
        {
            const Consumer &cs = ctx.cons[k];
            const Shape    &sub = shape_at(*ctx.shape, cs.path, cs.path.size());
            NodeTypeMetaData schema;
            schema.display_name = "hgv_track_sink";
            schema.node_kind    = NodeKind::Sink;
            std::vector<std::pair<std::string, const TSValueTypeMetaData *>> fields{{"i0", sub.meta}};
            std::vector<TSEndpointSchema>                                    children{TSEndpointSchema::peered(sub.meta)};
            const auto *in_schema = registry.un_named_tsb(fields);
            schema.input_schema   = in_schema;
            const bool active     = cs.kind == 1 || cs.kind == 2;
            if (!active) { schema.active_inputs = std::vector<std::size_t>{}; }
            schema.valid_inputs = std::vector<std::size_t>{};
            auto          endpoint = TSEndpointSchema::non_peered(in_schema, std::move(children));
            NodeCallbacks cb;
            const std::size_t me     = k + 1;
            const bool        report = (k + 1 == ncons);
            cb.start = [pc, me, report](const NodeView &v, DateTime t) {
                if (report) { v.graph_value()->schedule_node(me, t); }
                const Consumer &self = pc->cons[me - 1];
                if (self.kind == 3 && self.bind_at >= us(t)) { v.graph_value()->schedule_node(me, dt(self.bind_at)); }
            };
            cb.evaluate = [pc, me, report, ncons](const NodeView &v, DateTime t) {
                pc->out->line({21, (std::int64_t)me, us(t)});
                const Consumer &self = pc->cons[me - 1];
                if (self.kind == 3 && self.bind_at == us(t))
                {
                    auto root   = v.input(t);
                    auto bundle = root.as_bundle();
                    auto in     = bundle[0];
                    auto g      = v.graph();
                    in.bind_output(g.node_at(0).output(t));
                    pc->out->line({25, (std::int64_t)me, us(t)});
                }
                if (!report) { return; }
                auto g = v.graph();
                {
                    auto                      o = g.node_at(0).output(t);
                    std::vector<std::int64_t> path;
                    read_tree(*pc->out, 0, us(t), *pc->shape, o, path, &pc->counters);
                }
                for (std::size_t j = 1; j <= ncons; ++j)
                {
                    const Consumer &cj  = pc->cons[j - 1];
                    const Shape    &sub = shape_at(*pc->shape, cj.path, cj.path.size());
                    auto            root   = g.node_at(j).input(t);
                    auto            bundle = root.as_bundle();
                    auto            in     = bundle[0];
                    if (cj.kind == 3 && !in.bound()) { pc->out->line({26, (std::int64_t)j, us(t)}); continue; }
                    std::vector<std::int64_t> path = cj.path;
                    read_tree(*pc->out, (std::int64_t)j, us(t), sub, in, path);
                }
                if (us(t) + 1 < pc->end) { v.graph_value()->schedule_node(me, dt(us(t) + 1)); }
            };
            gb.add_node(NodeBuilder::native(std::move(schema), std::move(cb), std::move(endpoint)));
        }
        for (std::size_t k = 0; k < ncons; ++k)
        {
            const Consumer &cs = ctx.cons[k];
            if (cs.kind == 3)
            {
                // late bound: no edge; wake it at bind time
                continue;
            }
            std::vector<std::size_t> sp;
            for (auto x : cs.path) { sp.push_back((std::size_t)x); }
            gb.add_edge(GraphEdge{.source_node = 0, .source_path = sp, .target_node = k + 1, .target_path = {0}});
        }

        GraphExecutorBuilder eb;
        eb.graph_builder(std::move(gb)).start_time(dt(ctx.start)).end_time(dt(ctx.end));
        try
        {
            GraphExecutorValue executor = eb.make_executor();
            auto               ev       = executor.view();
            try { ev.run(); }
            catch (const std::exception &e)
            {
                out.line({27, 1});
                std::fprintf(stderr, "run error: %s\n", e.what());
            }
        }
        catch (const std::exception &e)
        {
            out.line({28, 2});
            std::fprintf(stderr, "build error: %s\n", e.what());
        }
    }
}  // namespace

int main(int argc, char **argv)
{
    if (argc < 2) { std::fprintf(stderr, "usage: track_driver <batch>\n"); return 2; }
    auto     batch = hgv::read_batch(argv[1]);
    hgv::Out out;
    for (const auto &c : batch)
    {
        try { run_case(c, out); }
        catch (const std::exception &e)
        {
            out.line({28, 3});
            std::fprintf(stderr, "case error: %s\n", e.what());
        }
        out.end_case();
    }
    return 0;
}
