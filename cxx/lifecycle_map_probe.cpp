// lifecycle_map_probe.cpp — NOT part of the family's correspondence: a stand-alone replay of the
// suspected defect "a failing stop inside one map_ child keeps the remaining map_ children from
// being stopped until the executor is released" (docs/notes-lifecycle.md, finding 2).
// usage: lifecycle_map_probe <k>   the k-th user stop hook invocation (0-based) throws; k<0: none
#include <hgraph/lib/std/std_operators.h>
#include <hgraph/lib/std/std_nodes.h>
#include <hgraph/lib/std/value_util.h>
#include <hgraph/lib/std/operators/impl/record_replay_memory_impl.h>
#include <hgraph/lib/testing/eval_node.h>
#include <hgraph/lib/testing/record_replay.h>
#include <hgraph/lib/testing/runtime_support.h>
#include <hgraph/runtime/lifecycle_observer.h>
#include <hgraph/runtime/runtime.h>
#include <hgraph/types/graph_wiring.h>
#include <hgraph/types/static_node.h>
#include <hgraph/types/subgraph_wiring.h>
#include <hgraph/types/wired_fn.h>

#include <cstdio>
#include <cstdlib>
#include <stdexcept>
#include <string>

namespace hgraph::stdlib { void register_json_operators() {} }

using namespace hgraph;
using namespace hgraph::testing;
using namespace std::string_literals;

namespace
{
    int g_starts = 0, g_stops = 0, g_throw_at = -1;

    struct ProbeNode
    {
        static constexpr auto name = "hgv_map_probe_node";
        static void           start() { ++g_starts; }
        static void           stop()
        {
            const int k = g_stops++;
            if (k == g_throw_at) { throw std::runtime_error("hgv boom in map child stop"); }
        }
        static void eval(In<"ts", TS<Int>> ts, Out<TS<Int>> out) { out.set(ts.value()); }
    };

    struct Obs : LifecycleObserver
    {
        int before_stop_graph = 0, after_stop_graph = 0;
        void on_before_stop_graph(const GraphView &) override { ++before_stop_graph; }
        void on_after_stop_graph(const GraphView &) override { ++after_stop_graph; }
    };
}  // namespace

int main(int argc, char **argv)
{
    g_throw_at = argc > 1 ? std::atoi(argv[1]) : -1;
    stdlib::register_standard_operators();
    Wiring w;
    auto   source = wire<stdlib::replay_impl, TSD<Str, TS<Int>>>(w, Str{"source"});
    auto   keys   = wire<stdlib::replay_impl, TSS<Str>>(w, Str{"keys"});
    auto   mapped = wire<stdlib::map_>(w, fn<ProbeNode>(), source, arg<"__keys__">(keys)).as<TSD<Str, TS<Int>>>();
    wire<stdlib::null_sink>(w, mapped);
    GraphBuilder gb = std::move(w).finish();
    set_replay_deltas(gb.global_state(), "source",
                      std::vector<std::optional<Value>>{Value{dict_delta<Str, TS<Int>>({{"a"s, 1}, {"b"s, 2}, {"c"s, 3}})}});
    set_replay_deltas(gb.global_state(), "keys",
                      std::vector<std::optional<Value>>{Value{set_delta<Str>({"a"s, "b"s, "c"s}, {})}});
    Obs obs;
    {
        GraphExecutorBuilder eb;
        eb.graph_builder(std::move(gb)).start_time(MIN_ST).end_time(MIN_ST + TimeDelta{10}).add_lifecycle_observer(&obs);
        GraphExecutorValue ex = eb.make_executor();
        try
        {
            ex.view().run();
            std::printf("run returned normally\n");
        }
        catch (const std::exception &e) { std::printf("run threw: %s\n", std::string(e.what()).substr(0, 120).c_str()); }
        std::printf("at return of run : child starts=%d child stops=%d  stop-graph before/after=%d/%d\n", g_starts, g_stops,
                    obs.before_stop_graph, obs.after_stop_graph);
    }
    std::printf("after the release: child starts=%d child stops=%d  stop-graph before/after=%d/%d\n", g_starts, g_stops,
                obs.before_stop_graph, obs.after_stop_graph);
    return 0;
}
