// rank_driver.cpp — family "rank": generated wiring programs run through the REAL
// `Wiring` API of /repo's tree (Wiring::add_node / add_unique_node / add_rank_dependency,
// delayed_binding placeholders, feedback source/sink builders, push-source builder), in each
// statement order the case lists; prints what Wiring::finish compiled (node order, interning
// map, edge list) or the rejection code, and — in execution mode — the streams seen by every
// sink under the simulation executor.  Serves C01 (ranking half) and C06.
// Case format: gen/rank.py; acceptor model: coq/Rank.v + coq/Intern.v (run_rank).
#include "hgv_io.h"

#include <hgraph/runtime/feedback_node.h>
#include <hgraph/runtime/node_error.h>
#include <hgraph/runtime/push_source_node.h>
#include <hgraph/runtime/runtime.h>
#include <hgraph/types/graph_wiring.h>
#include <hgraph/types/static_node.h>
#include <hgraph/types/subgraph_wiring.h>
#include <hgraph/types/metadata/type_registry.h>
#include <hgraph/types/value/value.h>
#include <hgraph/types/value/value_builder.h>

#include <algorithm>
#include <map>
#include <memory>
#include <optional>
#include <stdexcept>
#include <typeindex>

namespace hgraph::stdlib { void register_json_operators() {} }

using namespace hgraph;
using hgv::Line;

namespace
{
    std::int64_t us(DateTime t) { return t.time_since_epoch().count(); }
    DateTime     dt(std::int64_t v) { return DateTime{TimeDelta{v}}; }

    // ---- node definitions: the `def` of the interning key is a std::type_index
    template <int K> struct Def {};
    std::type_index def_index(std::int64_t k)
    {
        switch (k)
        {
            case 0: return typeid(Def<0>);
            case 1: return typeid(Def<1>);
            case 2: return typeid(Def<2>);
            case 3: return typeid(Def<3>);
            case 4: return typeid(Def<4>);
            case 5: return typeid(Def<5>);
            case 6: return typeid(Def<6>);
            default: return typeid(Def<7>);
        }
    }
    struct FbSourceTag {};
    struct FbSinkTag {};

    // ---- sub-graph wrappers around a SINK (kinds 6, 7): nested_<SinkAndOutG>(w, x) and try_except_<SinkG>(w, x).
    // The wrapper node has an output, so it goes through the intern table although its body has a side effect.
    std::int64_t g_sink_body_runs = 0;
    struct CountingSink
    {
        static constexpr auto name = "hgv_counting_sink";
        static void           eval(In<"x", TS<Int>> x) { static_cast<void>(x); ++g_sink_body_runs; }
    };
    struct PlusOne
    {
        static constexpr auto name = "hgv_plus_one";
        static void           eval(In<"x", TS<Int>> x, Out<TS<Int>> out) { out.set(x.value() + 1); }
    };
    // kind 9: an OUTPUT-LESS static node that declares recordable state (a journal-style sink): never interned
    std::int64_t g_rs_sink_runs = 0;
    using RsBundle = TSB<"HgvRsBundle", Field<"total", TS<Int>>>;
    struct RsSink
    {
        static constexpr auto name = "hgv_recordable_state_sink";
        static void           eval(In<"in", TS<Int>> in, RecordableState<RsBundle> state)
        {
            auto total = state.field<"total">();
            total.set(in.value());
            ++g_rs_sink_runs;
        }
    };
    struct SinkG
    {
        static constexpr auto name = "hgv_sink_g";
        static void           compose(Wiring &w, Port<TS<Int>> x) { wire<CountingSink>(w, x); }
    };
    struct SinkAndOutG
    {
        static constexpr auto name = "hgv_sink_and_out_g";
        static Port<TS<Int>>  compose(Wiring &w, Port<TS<Int>> x)
        {
            wire<CountingSink>(w, x);
            return wire<PlusOne>(w, x);
        }
    };

    // ---- time-series types: base 1 = TS<int64>, 2 = TS<double>; dims = fixed TSL sizes, outermost first
    struct Ty
    {
        int              base{1};
        std::vector<int> dims;
        bool             operator==(const Ty &) const = default;
    };

    struct Metas
    {
        const ValueTypeMetaData   *int_meta, *float_meta;
        const TSValueTypeMetaData *ts_int, *ts_float;
    };
    const Metas &metas()
    {
        static Metas m = [] {
            auto &r = TypeRegistry::instance();
            Metas x;
            x.int_meta   = r.register_scalar<std::int64_t>("int64");
            x.float_meta = r.register_scalar<double>("float64");
            x.ts_int     = r.ts(x.int_meta);
            x.ts_float   = r.ts(x.float_meta);
            return x;
        }();
        return m;
    }
    const TSValueTypeMetaData *schema_of(const Ty &t)
    {
        const TSValueTypeMetaData *s = t.base == 3 ? node_error_ts_meta() : (t.base == 2 ? metas().ts_float : metas().ts_int);
        for (auto it = t.dims.rbegin(); it != t.dims.rend(); ++it) { s = TypeRegistry::instance().tsl(s, (std::size_t)*it); }
        return s;
    }

    // ---- the program
    struct Src
    {
        int                      kind{0};  // 0 peered, 1 delayed, 2 null, 3 structural
        int                      okind{0}; // peered: 0 ordinary output, 1 hidden error output, 2 recordable state
        std::int64_t             opt{0};   // error output: bit 0 capture_values, bits 1.. extra trace_back_depth
        std::int64_t             ref{0};
        std::vector<std::size_t> path;
        std::vector<Src>         children;
    };
    struct Input
    {
        bool                     rank{true};
        bool                     passive{false};   // the source port carries the Passive arg tag: passive(port)
        std::vector<std::size_t> tpath;
        Src                      src;
    };
    struct Stmt
    {
        int                       tag{0};  // 2 node, 4 placeholder, 5 bind, 6 rank dependency
        std::int64_t              label{0};
        int                       kind{0};  // 0 pull source 1 compute 2 sink 3 push source 4 feedback source 5 feedback sink
        std::int64_t              def{0};
        bool                      uniq{false};
        int                       out_ty{0};
        bool                      has_sc{false};
        std::vector<std::int64_t> sc;
        int                       fsc{-1};   // extra FLOAT scalar field: 0 -> 0.0, 1 -> -0.0, 2 -> 1.5, 3 -> -1.5 (-1: none)
        std::vector<Input>        ins;
        std::int64_t              a{0}, b{0};  // bind: ph=a ref=b ; dep: node=a depends_on=b ; placeholder: a=type
        std::vector<std::size_t>  path;
    };

    Src parse_src(const Line &l, std::size_t &p)
    {
        Src s;
        s.kind = (int)l.at(p++);
        if (s.kind == 6)   // hidden error output of node ref, activated with ErrorCaptureOptions code opt
        {
            s.okind = 1; s.kind = 0; s.ref = l.at(p++); s.opt = l.at(p++);
            return s;
        }
        if (s.kind == 7) { s.okind = 2; s.kind = 0; }
        if (s.kind == 0 || s.kind == 1)
        {
            s.ref          = l.at(p++);
            std::int64_t n = l.at(p++);
            for (std::int64_t i = 0; i < n; ++i) { s.path.push_back((std::size_t)l.at(p++)); }
        }
        else if (s.kind == 3)
        {
            std::int64_t n = l.at(p++);
            for (std::int64_t i = 0; i < n; ++i) { s.children.push_back(parse_src(l, p)); }
        }
        return s;
    }

    // statements wired into a separate SubGraph-kind Wiring (what compile_subgraph / nested_<> composes into):
    // inputs are child-local nodes, declared boundary arguments, or outer ports captured from the parent wiring
    struct ChildIn { int kind{0}; std::int64_t ref{0}; std::int64_t elem{-1}; };   // 0 child-local node, 4 declared argument (elem >= 0: that element of a TSL argument), 5 captured parent port
    struct ChildStmt
    {
        std::int64_t              cl{0}, child{0}, def{0};
        int                       out_ty{1};
        bool                      has_sc{false};
        std::vector<std::int64_t> sc;
        std::vector<ChildIn>      ins;
    };

    struct Program
    {
        std::vector<ChildStmt>                 child_stmts;
        std::int64_t                           end_time{20};
        bool                                   exec{false};
        std::map<std::int64_t, Stmt>           stmts;
        std::vector<std::vector<std::int64_t>> orders;
    };

    Program parse(const hgv::Case &c)
    {
        Program p;
        for (const Line &l : c)
        {
            switch (l[0])
            {
                case 1: p.end_time = l.at(1); p.exec = l.at(2) != 0; break;
                case 2:
                {
                    Stmt s;
                    s.tag = 2; s.label = l.at(1); s.kind = (int)l.at(2); s.def = l.at(3); s.uniq = l.at(4) != 0;
                    s.out_ty = (int)l.at(5); s.has_sc = l.at(6) != 0;
                    for (std::int64_t i = 0; i < l.at(7); ++i) { s.sc.push_back(l.at(8 + i)); }
                    p.stmts[s.label] = std::move(s);
                    break;
                }
                case 3:
                {
                    Stmt       &s = p.stmts.at(l.at(1));
                    Input       in;
                    in.rank       = (l.at(3) & 1) != 0;   // bit 0: rank_dependency, bit 1: passive marker
                    in.passive    = l.at(3) >= 2;
                    std::size_t q = 5;
                    for (std::int64_t i = 0; i < l.at(4); ++i) { in.tpath.push_back((std::size_t)l.at(q++)); }
                    in.src = parse_src(l, q);
                    s.ins.push_back(std::move(in));
                    break;
                }
                case 14: p.stmts.at(l.at(1)).fsc = (int)l.at(2); break;
                case 4: { Stmt s; s.tag = 4; s.label = l.at(1); s.a = l.at(2); p.stmts[s.label] = s; break; }
                case 5:
                {
                    Stmt s; s.tag = 5; s.label = l.at(1); s.a = l.at(2); s.b = l.at(3);
                    for (std::int64_t i = 0; i < l.at(4); ++i) { s.path.push_back((std::size_t)l.at(5 + i)); }
                    p.stmts[s.label] = s;
                    break;
                }
                case 6: { Stmt s; s.tag = 6; s.label = l.at(1); s.a = l.at(2); s.b = l.at(3); p.stmts[s.label] = s; break; }
                case 10: { Stmt s; s.tag = 10; s.label = l.at(1); s.a = l.at(2); s.b = l.at(3); p.stmts[s.label] = s; break; }   // anchor: path a, node b
                case 11: { Stmt s; s.tag = 11; s.label = l.at(1); s.a = l.at(2); s.b = l.at(3); s.kind = (int)l.at(4); p.stmts[s.label] = s; break; }  // client: path a, node b, receive = kind
                case 8: p.orders.emplace_back(l.begin() + 2, l.end()); break;
                case 12:
                {
                    ChildStmt c;
                    c.cl = l.at(1); c.child = l.at(2); c.def = l.at(3); c.out_ty = (int)l.at(4); c.has_sc = l.at(5) != 0;
                    for (std::int64_t i = 0; i < l.at(6); ++i) { c.sc.push_back(l.at(7 + i)); }
                    p.child_stmts.push_back(std::move(c));
                    break;
                }
                case 13:
                    for (ChildStmt &c : p.child_stmts)
                    {
                        if (c.cl == l.at(1) && c.child == l.at(2)) { c.ins.push_back(ChildIn{(int)l.at(4), l.at(5), l.size() > 6 ? l.at(6) : -1}); }
                    }
                    break;
                default: break;
            }
        }
        return p;
    }

    // ---- one wiring run
    struct Inadmissible : std::runtime_error { using std::runtime_error::runtime_error; };

    struct NodeRt  // run-time behaviour shared with callbacks
    {
        int                       fsc{-1};
        std::int64_t              label{0}, def{0};
        int                       kind{0}, out_ty{0};
        std::vector<std::int64_t> sc;
        std::vector<Ty>           in_ty;
        std::int64_t              emitted{0};
    };
    struct Run
    {
        std::map<std::int64_t, std::vector<std::pair<std::int64_t, std::int64_t>>> streams;  // sink label -> (time, value)
        std::map<std::int64_t, std::int64_t>                                      evals;    // creator label -> evaluations
        // service rank contract: out-of-band hand-over between nodes that the contract orders within a cycle.
        // roles by creator label; a sender leaves (time, value) in the path's request box, the anchor adds the
        // requests left THIS cycle and leaves its result in the reply box, a receiver adds the reply of THIS cycle.
        std::map<std::int64_t, std::vector<std::int64_t>>                          senders, anchors, receivers;
        std::map<std::int64_t, std::map<std::int64_t, std::pair<std::int64_t, std::int64_t>>> requests;   // path -> sender -> (t, v)
        std::map<std::int64_t, std::pair<std::int64_t, std::int64_t>>              replies;                // path -> (t, v)
    };

    std::int64_t weight_sc(const NodeRt &n)
    {
        std::int64_t v = n.def;
        for (std::size_t i = 0; i < n.sc.size(); ++i) { v += (std::int64_t)(i + 1) * n.sc[i]; }
        static const double fvals[] = {0.0, -0.0, 1.5, -1.5};
        if (n.fsc >= 0) { v += (1.0 / fvals[n.fsc & 3]) > 0 ? 40 + n.fsc / 2 : 90 + n.fsc / 2; }   // the SIGN of 1/f: 0.0 and -0.0 differ
        return v;
    }

    std::int64_t read_value(TSInputView in, const Ty &t, std::size_t depth)
    {
        if (depth == t.dims.size())
        {
            if (!in.valid()) { return 0; }
            if (t.base == 3) { return 7; }   // a captured error was published
            if (t.base == 2) { return (std::int64_t)in.value().template checked_as<double>(); }
            return in.value().template checked_as<std::int64_t>();
        }
        auto         list = in.as_list();
        std::int64_t v    = 0;
        for (std::size_t i = 0; i < (std::size_t)t.dims[depth]; ++i) { v += (std::int64_t)(i + 2) * read_value(list[i], t, depth + 1); }
        return v;
    }

    std::int64_t combine_inputs(const NodeRt &n, const NodeView &view, DateTime t)
    {
        std::int64_t v = weight_sc(n);
        if (!n.in_ty.empty())
        {
            auto root   = view.input(t);
            auto bundle = root.as_bundle();
            for (std::size_t s = 0; s < n.in_ty.size(); ++s) { v += (std::int64_t)(s + 1) * read_value(bundle[s], n.in_ty[s], 0); }
        }
        return v % 1000003;
    }

    void write_out(const NodeRt &n, const NodeView &view, DateTime t, std::int64_t v)
    {
        auto mutation = view.output(t).begin_mutation(t);
        if (n.out_ty == 2) { static_cast<void>(mutation.move_value_from(Value{(double)v})); }
        else { static_cast<void>(mutation.move_value_from(Value{v})); }
    }

    Value make_scalars(const Stmt &s)
    {
        if (!s.has_sc && s.fsc < 0) { return Value{}; }
        auto                                                        &r = TypeRegistry::instance();
        std::vector<std::pair<std::string, const ValueTypeMetaData *>> fields;
        const std::size_t n = s.has_sc ? s.sc.size() : 0;
        for (std::size_t i = 0; i < n; ++i) { fields.emplace_back("s" + std::to_string(i), metas().int_meta); }
        if (s.fsc >= 0) { fields.emplace_back("f", metas().float_meta); }
        const auto   *schema  = r.un_named_bundle(fields);
        const auto    binding = ValuePlanFactory::instance().type_for(schema);
        BundleBuilder b{binding};
        for (std::size_t i = 0; i < n; ++i) { b.set(i, Value{s.sc[i]}); }
        static const double fvals[] = {0.0, -0.0, 1.5, -1.5};
        if (s.fsc >= 0) { b.set(n, Value{fvals[s.fsc & 3]}); }
        return b.build();
    }

    struct Wirer
    {
        const Program                                         &prog;
        Wiring                                                 w;
        std::map<std::int64_t, WiringPortRef>                  ports;      // node label -> returned port
        std::map<std::int64_t, Ty>                             port_ty;    // node label / placeholder label -> type
        std::map<std::int64_t, ErasedDelayedBindingWiringPort> holders;    // placeholder label
        std::map<const WiringInstance *, std::int64_t>         creator;    // instance -> label of the creating statement
        std::map<std::int64_t, std::int64_t>                   rep;        // node label -> creator label
        std::shared_ptr<Run>                                   run = std::make_shared<Run>();

        explicit Wirer(const Program &p) : prog(p) {}

        Ty type_of_src(const Src &s)
        {
            switch (s.kind)
            {
                case 0:
                case 1:
                {
                    auto it = port_ty.find(s.ref);
                    if (it == port_ty.end()) { throw Inadmissible("ref"); }
                    if (s.kind == 0 && s.okind == 1) { return Ty{3, {}}; }
                    Ty t = it->second;
                    for (std::size_t i = 0; i < s.path.size() && !t.dims.empty(); ++i) { t.dims.erase(t.dims.begin()); }
                    return t;
                }
                case 3:
                {
                    Ty t = s.children.empty() ? Ty{} : type_of_src(s.children[0]);
                    t.dims.insert(t.dims.begin(), (int)s.children.size());
                    return t;
                }
                default: return Ty{};
            }
        }

        WiringPortRef port_of_src(const Src &s)
        {
            switch (s.kind)
            {
                case 0:
                {
                    auto it = ports.find(s.ref);
                    if (it == ports.end()) { throw Inadmissible("node ref"); }
                    if (s.okind == 1)
                    {
                        // exception_time_series(port): activate error capture on the producing instance (amended in
                        // place), then address its hidden error output
                        w.activate_error_capture(it->second.peered_node(), node_error_ts_meta(),
                                                 ErrorCaptureOptions{.trace_back_depth = (std::size_t)(1 + (s.opt >> 1)), .capture_values = (s.opt & 1) != 0});
                        return graph_wiring_detail::special_output_source(it->second, GraphEdgeSourceKind::ErrorOutput,
                                                                          "exception_time_series");
                    }
                    if (s.path.empty()) { return it->second; }
                    return WiringPortRef::peered_source(it->second.peered_node(), s.path, schema_of(type_of_src(s)));
                }
                case 1:
                {
                    auto it = holders.find(s.ref);
                    if (it == holders.end()) { throw Inadmissible("placeholder ref"); }
                    return it->second.port();
                }
                case 2: return WiringPortRef::null_source(metas().ts_int);
                default:
                {
                    std::vector<WiringPortRef> children;
                    for (const Src &c : s.children) { children.push_back(port_of_src(c)); }
                    return WiringPortRef::structural_source(schema_of(type_of_src(s)), std::move(children));
                }
            }
        }

        void wrapper_stmt(const Stmt &s)
        {
            const Src &src = s.ins.at(0).src;
            auto       it  = ports.find(src.ref);
            if (src.kind != 0 || it == ports.end()) { throw Inadmissible("wrapper input"); }
            Port<TS<Int>> x{w, it->second};
            if (s.kind == 9)
            {
                // what wire<RsSink>(w, x) does (it returns nothing, so the instance is taken from add_node directly)
                std::array<WiringPortRef, 1> in{it->second};
                NodeBuilder                  builder = graph_wiring_detail::build_node_builder<RsSink>();
                builder.input_endpoint(graph_wiring_detail::input_endpoint_for_sources(
                    builder.type().schema()->input_schema, std::span<const WiringPortRef>{in.data(), in.size()}));
                builder.label("L" + std::to_string(s.label));
                WiringPortRef out = w.add_node(std::type_index(typeid(RsSink)), std::move(builder),
                                               std::span<const WiringPortRef>{in.data(), in.size()}, Value{});
                auto [c, fresh] = creator.try_emplace(out.peered_node(), s.label);
                rep[s.label]     = c->second;
                ports.emplace(s.label, std::move(out));
                return;
            }
            // kind 8: a STATIC node (wire<PlusOne>): all its instances share one runtime node type per configuration
            WiringPortRef out = s.kind == 6 ? nested_<SinkAndOutG>(w, x).erased()
                                : s.kind == 7 ? try_except_<SinkG>(w, x).erased() : wire<PlusOne>(w, x).erased();
            const WiringInstance *inst = out.peered_node();
            auto [c, fresh]            = creator.try_emplace(inst, s.label);
            rep[s.label]               = c->second;
            if (fresh) { const_cast<WiringInstance *>(inst)->builder.label("L" + std::to_string(s.label)); }
            ports.emplace(s.label, std::move(out));
            port_ty[s.label] = Ty{s.kind == 7 ? 3 : 1, {}};
        }

        void node_stmt(const Stmt &s)
        {
            if (s.kind >= 6 && s.kind <= 9) { wrapper_stmt(s); return; }
            std::vector<WiringInputRef> inputs;
            std::vector<WiringPortRef>  sources;
            auto                        rt = std::make_shared<NodeRt>();
            rt->label = s.label; rt->def = s.def; rt->kind = s.kind; rt->out_ty = s.out_ty; rt->sc = s.sc; rt->fsc = s.fsc;
            for (const Input &in : s.ins)
            {
                rt->in_ty.push_back(type_of_src(in.src));
                WiringPortRef port = port_of_src(in.src);
                if (in.passive) { port = port.with_arg_tag(WiringPortRef::ArgTag::Passive); }   // what passive(port) does
                sources.push_back(port);
                inputs.push_back(WiringInputRef{.source = std::move(port), .target_path = in.tpath, .rank_dependency = in.rank});
            }
            const Ty out_ty{s.out_ty == 2 ? 2 : 1, {}};
            NodeBuilder builder;
            std::type_index def = def_index(s.def);
            if (s.kind == 3) { builder = make_push_source_node(*schema_of(out_ty)); }
            else if (s.kind == 4) { builder = make_feedback_source_node(*schema_of(out_ty)); def = typeid(FbSourceTag); }
            else if (s.kind == 5)
            {
                builder = make_feedback_sink_node(*schema_of(rt->in_ty.at(0)));
                builder.input_endpoint(graph_wiring_detail::input_endpoint_for_sources(
                    builder.type().schema()->input_schema, std::span<const WiringPortRef>{sources.data(), sources.size()}));
                def = typeid(FbSinkTag);
            }
            else
            {
                NodeTypeMetaData meta;
                meta.display_name = "hgv_rank_node";
                if (s.out_ty != 0) { meta.output_schema = schema_of(out_ty); }
                meta.node_kind = s.kind == 0 ? NodeKind::PullSource : (s.kind == 2 ? NodeKind::Sink : NodeKind::Compute);
                const TSValueTypeMetaData *in_schema = nullptr;
                if (!s.ins.empty())
                {
                    std::vector<std::pair<std::string, const TSValueTypeMetaData *>> fields;
                    std::vector<std::size_t>                                         active;
                    for (std::size_t i = 0; i < s.ins.size(); ++i)
                    {
                        fields.emplace_back("i" + std::to_string(i), schema_of(rt->in_ty[i]));
                        if (s.ins[i].rank) { active.push_back(i); }   // a rank-free (backward) input is read passively
                    }
                    in_schema          = TypeRegistry::instance().un_named_tsb(fields);
                    meta.input_schema  = in_schema;
                    meta.active_inputs = active;
                    meta.valid_inputs.emplace();   // evaluate on any tick; an invalid input reads as 0
                }
                else { meta.schedule_on_start = s.kind == 0; }
                NodeCallbacks cb;
                auto          run_ = run;
                const auto    end  = prog.end_time;
                cb.evaluate = [rt, run_, end](const NodeView &view, DateTime t) {
                    ++run_->evals[rt->label];
                    if (rt->kind == 0)
                    {
                        // scripted source: behaviour is a function of (def, scalars, type) only
                        const std::int64_t j = rt->emitted++;
                        write_out(*rt, view, t, (weight_sc(*rt) + 1) * (j + 1));
                        const std::int64_t step = 1 + (rt->def % 3);
                        if (j + 1 < 4 && us(t) + step <= end && view.graph_value() != nullptr)
                        {
                            view.graph_value()->schedule_node(view.node_index(), dt(us(t) + step));
                        }
                        return;
                    }
                    std::int64_t v = combine_inputs(*rt, view, t);
                    if (auto r = run_->receivers.find(rt->label); r != run_->receivers.end())
                    {
                        for (auto path : r->second)
                        {
                            auto b = run_->replies.find(path);
                            if (b != run_->replies.end() && b->second.first == us(t)) { v = (v + 3 * b->second.second) % 1000003; }
                        }
                    }
                    if (auto a = run_->anchors.find(rt->label); a != run_->anchors.end())
                    {
                        for (auto path : a->second)
                        {
                            for (const auto &[sender, tv] : run_->requests[path])
                            {
                                if (tv.first == us(t)) { v = (v + 5 * tv.second) % 1000003; }
                            }
                        }
                        for (auto path : a->second) { run_->replies[path] = {us(t), v}; }
                    }
                    if (auto sd = run_->senders.find(rt->label); sd != run_->senders.end())
                    {
                        for (auto path : sd->second) { run_->requests[path][rt->label] = {us(t), v}; }
                    }
                    if (rt->kind == 2) { run_->streams[rt->label].emplace_back(us(t), v); return; }
                    if (rt->def >= 6)   // stateful definition: running sum over its own previous output
                    {
                        auto o = view.output(t);
                        if (o.valid())
                        {
                            v += rt->out_ty == 2 ? (std::int64_t)o.value().template checked_as<double>()
                                                 : o.value().template checked_as<std::int64_t>();
                            v %= 1000003;
                        }
                    }
                    write_out(*rt, view, t, v);
                };
                builder = NodeBuilder::native(std::move(meta), std::move(cb));
                if (in_schema != nullptr)
                {
                    builder.input_endpoint(graph_wiring_detail::input_endpoint_for_sources(
                        in_schema, std::span<const WiringPortRef>{sources.data(), sources.size()}));
                }
            }
            builder.label("L" + std::to_string(s.label));
            Value         scalars = (s.kind == 4 || s.kind == 5 || s.kind == 3) ? Value{} : make_scalars(s);
            // plain positional inputs (rank dependency, no explicit target path) go through the WiringPortRef
            // overloads, as wire<> does; anything else through the WiringInputRef ones
            const bool plain = std::all_of(s.ins.begin(), s.ins.end(), [](const Input &i) { return i.rank && i.tpath.empty(); });
            const bool unique = s.uniq || s.kind == 4 || s.kind == 3;
            WiringPortRef out =
                plain ? (unique ? w.add_unique_node(def, std::move(builder), std::span<const WiringPortRef>{sources.data(), sources.size()},
                                                    std::move(scalars))
                                : w.add_node(def, std::move(builder), std::span<const WiringPortRef>{sources.data(), sources.size()},
                                             std::move(scalars)))
                      : (unique ? w.add_unique_node(def, std::move(builder), std::span<const WiringInputRef>{inputs.data(), inputs.size()},
                                                    std::move(scalars))
                                : w.add_node(def, std::move(builder), std::span<const WiringInputRef>{inputs.data(), inputs.size()},
                                             std::move(scalars)));
            const WiringInstance *inst = out.peered_node();
            auto [it, fresh]           = creator.try_emplace(inst, s.label);
            rep[s.label]               = it->second;
            ports.emplace(s.label, std::move(out));
            port_ty[s.label] = out_ty;
        }

        void exec_stmt(const Stmt &s)
        {
            switch (s.tag)
            {
                case 2: node_stmt(s); break;
                case 4:
                {
                    Ty t{s.a == 2 ? 2 : 1, {}};
                    holders.emplace(s.label, ErasedDelayedBindingWiringPort{w, schema_of(t)});
                    port_ty[s.label] = t;
                    break;
                }
                case 5:
                {
                    auto h = holders.find(s.a);
                    auto p = ports.find(s.b);
                    if (h == holders.end() || p == ports.end()) { throw Inadmissible("bind"); }
                    Src src; src.kind = 0; src.ref = s.b; src.path = s.path;
                    h->second.bind(port_of_src(src));
                    break;
                }
                case 6:
                {
                    auto a = ports.find(s.a);
                    auto b = ports.find(s.b);
                    if (a == ports.end() || b == ports.end()) { throw Inadmissible("dep"); }
                    w.add_rank_dependency(a->second.peered_node(), b->second.peered_node());
                    break;
                }
                case 10:
                case 11:
                {
                    auto n = ports.find(s.b);
                    if (n == ports.end()) { throw Inadmissible("service"); }
                    const WiringInstance *inst = n->second.peered_node();
                    const std::string     path = "svc/p" + std::to_string(s.a);
                    const std::int64_t    who  = creator.at(inst);
                    if (s.tag == 10) { w.register_service_rank_anchor(path, inst); run->anchors[who].push_back(s.a); }
                    else
                    {
                        w.register_service_client_rank(path, "hgv rank driver", inst, s.kind != 0);
                        (s.kind != 0 ? run->receivers : run->senders)[who].push_back(s.a);
                    }
                    break;
                }
                default: break;
            }
        }
    };

    // Sub-graph wirings: only the interning of boundary / captured-boundary sources is observed (no finish).
    void wire_children(const Program &prog, std::int64_t k, Wirer &wr, hgv::Out &out)
    {
        std::map<std::int64_t, std::vector<const ChildStmt *>> by_child;
        for (const ChildStmt &c : prog.child_stmts) { by_child[c.child].push_back(&c); }
        for (auto &[child_id, stmts] : by_child)
        {
            if (k % 2 == 1) { std::reverse(stmts.begin(), stmts.end()); }   // capture indices depend on capture order
            Wiring                                         child{WiringKind::SubGraph};
            std::map<std::int64_t, WiringPortRef>          ports;
            std::map<const WiringInstance *, std::int64_t> creator;
            std::map<std::int64_t, std::int64_t>           rep;
            bool                                           ok = true;
            // child-local references need their producer first: wire leaf statements, then the rest
            for (int pass = 0; pass < 2 && ok; ++pass)
            {
                for (const ChildStmt *c : stmts)
                {
                    const bool local = std::any_of(c->ins.begin(), c->ins.end(), [](const ChildIn &i) { return i.kind == 0; });
                    if ((pass == 0) == local) { continue; }
                    try
                    {
                        std::vector<WiringPortRef> sources;
                        for (const ChildIn &in : c->ins)
                        {
                            if (in.kind == 4 && in.elem >= 0)
                            {
                                // element `elem` of a structured (TSL) boundary argument, as projecting the argument port does
                                sources.push_back(WiringPortRef::boundary_source((std::size_t)in.ref, {(std::size_t)in.elem}, metas().ts_int));
                            }
                            else if (in.kind == 4) { sources.push_back(WiringPortRef::boundary_source((std::size_t)in.ref, {}, metas().ts_int)); }
                            else if (in.kind == 5) { sources.push_back(child.capture_outer_source(wr.ports.at(in.ref))); }
                            else { sources.push_back(ports.at(in.ref)); }
                        }
                        NodeTypeMetaData meta;
                        meta.display_name  = "hgv_rank_child_node";
                        meta.output_schema = schema_of(Ty{c->out_ty == 2 ? 2 : 1, {}});
                        meta.node_kind     = NodeKind::Compute;
                        std::vector<std::pair<std::string, const TSValueTypeMetaData *>> fields;
                        for (std::size_t i = 0; i < sources.size(); ++i) { fields.emplace_back("i" + std::to_string(i), sources[i].schema); }
                        const TSValueTypeMetaData *in_schema = fields.empty() ? nullptr : TypeRegistry::instance().un_named_tsb(fields);
                        meta.input_schema                   = in_schema;
                        NodeBuilder builder                 = NodeBuilder::native(std::move(meta), NodeCallbacks{});
                        if (in_schema != nullptr)
                        {
                            builder.input_endpoint(graph_wiring_detail::input_endpoint_for_sources(
                                in_schema, std::span<const WiringPortRef>{sources.data(), sources.size()}));
                        }
                        Stmt sc; sc.has_sc = c->has_sc; sc.sc = c->sc;
                        WiringPortRef port = child.add_node(def_index(c->def), std::move(builder),
                                                            std::span<const WiringPortRef>{sources.data(), sources.size()}, make_scalars(sc));
                        auto [it, fresh] = creator.try_emplace(port.peered_node(), c->cl);
                        rep[c->cl]        = it->second;
                        ports.emplace(c->cl, std::move(port));
                    }
                    catch (const std::exception &e)
                    {
                        std::fprintf(stderr, "rank_driver: child wiring error: %s\n", e.what());
                        ok = false;
                        break;
                    }
                }
            }
            Line l{28, k, child_id, ok ? 0 : 1};
            for (const auto &[cl, r] : rep) { l.push_back(cl); l.push_back(r); }
            out.line(l);
        }
    }

    std::int64_t error_code(const std::string &m)
    {
        if (m.find("detected a cycle in the wiring graph") != std::string::npos) { return 1; }
        if (m.find("Push source nodes cannot have rank dependencies") != std::string::npos) { return 2; }
        if (m.find("unbound delayed_binding") != std::string::npos) { return 3; }
        if (m.find("rank dependency cannot target the same node") != std::string::npos) { return 4; }
        if (m.find("cycle between delayed_binding placeholders") != std::string::npos) { return 7; }
        if (m.find("already bound") != std::string::npos) { return 8; }
        if (m.find("passive would deactivate every input") != std::string::npos) { return 9; }
        if (m.find("conflicting service/adaptor rank anchor") != std::string::npos) { return 10; }
        return 5;
    }

    // wire the same statements again and return the creator labels in compiled order (empty on any refusal)
    Line compiled_labels(const Program &prog, const std::vector<std::int64_t> &order)
    {
        Line labels;
        try
        {
            Wirer wr{prog};
            for (std::int64_t label : order) { wr.exec_stmt(prog.stmts.at(label)); }
            GraphBuilder gb = std::move(wr.w).finish();
            for (const NodeBuilder &nb : gb.nodes())
            {
                const std::string lbl{nb.label()};
                labels.push_back(lbl.size() > 1 && lbl[0] == 'L' ? std::stoll(lbl.substr(1)) : -1);
            }
        }
        catch (const std::exception &) { labels.clear(); }
        return labels;
    }

    void run_order(const Program &prog, std::int64_t k, const std::vector<std::int64_t> &order, hgv::Out &out)
    {
        Wirer wr{prog};
        try
        {
            for (std::int64_t label : order)
            {
                auto it = prog.stmts.find(label);
                if (it == prog.stmts.end()) { throw Inadmissible("unknown label"); }
                wr.exec_stmt(it->second);
            }
        }
        catch (const Inadmissible &) { out.line({20, k, 6}); return; }
        catch (const std::exception &e)
        {
            const auto code = error_code(e.what());
            if (code == 5) { std::fprintf(stderr, "rank_driver: wiring statement error: %s\n", e.what()); }
            out.line({20, k, code});
            return;
        }
        Line reps{23, k};
        if (!prog.stmts.empty())
        {
            const std::int64_t maxl = prog.stmts.rbegin()->first;
            for (std::int64_t l = 0; l <= maxl; ++l)
            {
                auto it = wr.rep.find(l);
                reps.push_back(it == wr.rep.end() ? -1 : it->second);
            }
        }
        out.line(reps);   // printed before finish: the interning map exists even if finish rejects
        wire_children(prog, k, wr, out);
        std::optional<GraphBuilder> gb;
        try { gb.emplace(std::move(wr.w).finish()); }
        catch (const std::exception &e)
        {
            const auto code = error_code(e.what());
            if (code == 5) { std::fprintf(stderr, "rank_driver: finish error: %s\n", e.what()); }
            out.line({20, k, code});
            return;
        }
        out.line({20, k, 0});
        Line nodes{21, k, (std::int64_t)gb->nodes().size()};
        bool has_push = false;
        for (const NodeBuilder &nb : gb->nodes())
        {
            const std::string lbl{nb.label()};
            nodes.push_back(lbl.size() > 1 && lbl[0] == 'L' ? std::stoll(lbl.substr(1)) : -1);
            const auto *schema = nb.type().schema();
            has_push           = has_push || (schema != nullptr && schema->node_kind == NodeKind::PushSource);
        }
        out.line(nodes);
        // active-input list of every native node with inputs (shows which statement's passive markers are in force)
        for (const NodeBuilder &nb : gb->nodes())
        {
            const std::string lbl{nb.label()};
            if (lbl.size() < 2 || lbl[0] != 'L') { continue; }
            const std::int64_t c  = std::stoll(lbl.substr(1));
            auto               it = prog.stmts.find(c);
            if (it == prog.stmts.end() || (it->second.kind != 1 && it->second.kind != 2) || it->second.ins.empty()) { continue; }
            const auto *schema = nb.type().schema();
            if (schema == nullptr || !schema->active_inputs.has_value()) { continue; }
            Line l{27, k, c};
            for (auto slot : *schema->active_inputs) { l.push_back((std::int64_t)slot); }
            out.line(l);
        }
        Line capt{30, k};
        for (const NodeBuilder &nb : gb->nodes())
        {
            const std::string lbl{nb.label()};
            const auto       *schema = nb.type().schema();
            if (lbl.size() > 1 && lbl[0] == 'L' && schema != nullptr && schema->captures_errors &&
                (prog.stmts.at(std::stoll(lbl.substr(1))).kind <= 2 || prog.stmts.at(std::stoll(lbl.substr(1))).kind == 8))   // not the wrappers (try_except_ always captures)
            {
                capt.push_back(std::stoll(lbl.substr(1)));
                // the capture options in force on the compiled node type (line 31: creator, trace depth, capture_values)
                out.line({31, k, std::stoll(lbl.substr(1)), (std::int64_t)schema->error_capture.trace_back_depth,
                          (std::int64_t)schema->error_capture.capture_values});
            }
        }
        std::sort(capt.begin() + 2, capt.end());
        out.line(capt);
        // the compiled order must not depend on where the heap put things: build the same wiring twice more in
        // this process, with allocations of assorted sizes in between, and compare the node orders
        {
            Line                               first(nodes.begin() + 3, nodes.end());
            std::vector<std::unique_ptr<char[]>> junk;
            std::int64_t                       same = 1;
            for (int round = 0; round < 2; ++round)
            {
                for (int j = 0; j < 17 + 13 * round; ++j) { junk.emplace_back(new char[24 + ((j * 37 + (int)k * 11 + round * 101) % 400)]); }
                if (round == 1) { for (std::size_t j = 0; j < junk.size(); j += 3) { junk[j].reset(); } }
                Line again = compiled_labels(prog, order);
                if (again != first) { same = 0; }
            }
            out.line({29, k, same});
        }
        std::vector<Line> edges;
        for (const GraphEdge &e : gb->edges())
        {
            Line l{22, k, (std::int64_t)graph_edge_source_node(e.source_node), (std::int64_t)graph_edge_source_kind(e.source_node),
                   (std::int64_t)e.target_node, (std::int64_t)e.source_path.size()};
            for (auto p : e.source_path) { l.push_back((std::int64_t)p); }
            l.push_back((std::int64_t)e.target_path.size());
            for (auto p : e.target_path) { l.push_back((std::int64_t)p); }
            edges.push_back(std::move(l));
        }
        std::sort(edges.begin(), edges.end());
        for (const Line &l : edges) { out.line(l); }

        if (!prog.exec || has_push) { return; }
        try
        {
            g_sink_body_runs = 0;
            g_rs_sink_runs   = 0;
            GraphExecutorBuilder eb;
            eb.graph_builder(std::move(*gb)).start_time(dt(1)).end_time(dt(prog.end_time));
            GraphExecutorValue executor = eb.make_executor();
            auto               ev       = executor.view();
            ev.run();
        }
        catch (const std::exception &e)
        {
            std::fprintf(stderr, "rank_driver: run error: %s\n", e.what());
            out.line({26, k, 1});
            return;
        }
        for (const auto &[label, st] : prog.stmts)
        {
            if (st.tag != 2 || st.kind != 2) { continue; }
            Line l{24, k, label};
            auto it = wr.run->streams.find(label);
            if (it != wr.run->streams.end())
            {
                for (const auto &[t, v] : it->second) { l.push_back(t); l.push_back(v); }
            }
            out.line(l);
        }
        out.line({32, k, g_sink_body_runs, g_rs_sink_runs});   // how often the sink bodies inside nested_/try_except_ wrappers ran
        Line ev{25, k};
        for (const auto &[label, n] : wr.run->evals) { ev.push_back(label); ev.push_back(n); }
        out.line(ev);
    }
}  // namespace

int main(int argc, char **argv)
{
    if (argc < 2) { std::fprintf(stderr, "usage: rank_driver <batch>\n"); return 2; }
    auto     batch = hgv::read_batch(argv[1]);
    hgv::Out out;
    for (const auto &c : batch)
    {
        Program p = parse(c);
        for (std::size_t k = 0; k < p.orders.size(); ++k) { run_order(p, (std::int64_t)k, p.orders[k], out); }
        out.end_case();
    }
    return 0;
}
