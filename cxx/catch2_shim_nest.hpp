// Minimal stand-in for <catch2/catch_test_macros.hpp> (Catch2 is not installed in this sandbox).
// Supports exactly what tests/cpp/test_reduce.cpp and hgraph/lib/testing/check_output.h use.
#pragma once
#include <cstdio>
#include <exception>
#include <string>
#include <vector>

namespace shim
{
    struct Case { const char *name; void (*fn)(); };
    inline std::vector<Case> &cases() { static std::vector<Case> c; return c; }
    inline int &failures() { static int f = 0; return f; }
    struct Fatal {};
    struct Reg { Reg(const char *n, void (*f)()) { cases().push_back({n, f}); } };
    inline void fail(const char *file, int line, const std::string &msg)
    {
        ++failures();
        std::printf("  FAILED %s:%d: %s\n", file, line, msg.c_str());
    }
}
#define SHIM_CAT2(a, b) a##b
#define SHIM_CAT(a, b) SHIM_CAT2(a, b)
#define TEST_CASE(...) TEST_CASE_IMPL(SHIM_CAT(shim_case_, __LINE__), __VA_ARGS__)
#define TEST_CASE_IMPL(id, ...)                                   \
    static void id();                                             \
    static ::shim::Reg SHIM_CAT(id, _reg){SHIM_FIRST(__VA_ARGS__), &id}; \
    static void id()
#define SHIM_FIRST(a, ...) a
#define CHECK(...) do { if (!(__VA_ARGS__)) ::shim::fail(__FILE__, __LINE__, "CHECK(" #__VA_ARGS__ ")"); } while (false)
#define CHECK_FALSE(...) do { if ((__VA_ARGS__)) ::shim::fail(__FILE__, __LINE__, "CHECK_FALSE(" #__VA_ARGS__ ")"); } while (false)
#define REQUIRE(...) do { if (!(__VA_ARGS__)) { ::shim::fail(__FILE__, __LINE__, "REQUIRE(" #__VA_ARGS__ ")"); throw ::shim::Fatal{}; } } while (false)
#define REQUIRE_THROWS(...) do { bool shim_threw = false; try { static_cast<void>(__VA_ARGS__); } catch (...) { shim_threw = true; } \
    if (!shim_threw) { ::shim::fail(__FILE__, __LINE__, "REQUIRE_THROWS(" #__VA_ARGS__ ")"); throw ::shim::Fatal{}; } } while (false)
#define SUCCEED(...) do { } while (false)
#define FAIL_CHECK(msg) ::shim::fail(__FILE__, __LINE__, std::string{msg})
#define FAIL(msg) do { ::shim::fail(__FILE__, __LINE__, std::string{msg}); throw ::shim::Fatal{}; } while (false)

inline int shim_run_all()
{
    int failed_cases = 0;
    for (const auto &c : ::shim::cases())
    {
        const int before = ::shim::failures();
        try { c.fn(); }
        catch (const ::shim::Fatal &) {}
        catch (const std::exception &e) { ::shim::fail("<exception>", 0, e.what()); }
        const bool ok = ::shim::failures() == before;
        if (!ok) { ++failed_cases; }
        std::printf("%s  %s\n", ok ? "ok    " : "FAILED", c.name);
    }
    std::printf("%d failure(s) in %zu cases\n", failed_cases, ::shim::cases().size());
    return failed_cases == 0 ? 0 : 1;
}

// ---- additions for tests/cpp/test_mesh.cpp
namespace Catch::Matchers
{
    struct ContainsSubstring
    {
        std::vector<std::string> needles;
        explicit ContainsSubstring(std::string n) { needles.push_back(std::move(n)); }
        bool match(const std::string &s) const { for (const auto &n : needles) { if (s.find(n) == std::string::npos) { return false; } } return true; }
        friend ContainsSubstring operator&&(ContainsSubstring a, const ContainsSubstring &b) { for (const auto &n : b.needles) { a.needles.push_back(n); } return a; }
    };
}
#define REQUIRE_THROWS_WITH(expr, matcher) do { bool shim_threw = false; std::string shim_what; \
    try { static_cast<void>(expr); } catch (const std::exception &e) { shim_threw = true; shim_what = e.what(); } catch (...) { shim_threw = true; } \
    if (!shim_threw || !(matcher).match(shim_what)) { \
        ::shim::fail(__FILE__, __LINE__, std::string{"REQUIRE_THROWS_WITH(" #expr "): got '"} + shim_what + "'"); throw ::shim::Fatal{}; } } while (false)

// ---- additions (fam-nest): the macros used by the nested / switch / map / service / wiring tests
#define REQUIRE_FALSE(...) do { if ((__VA_ARGS__)) { ::shim::fail(__FILE__, __LINE__, "REQUIRE_FALSE(" #__VA_ARGS__ ")"); throw ::shim::Fatal{}; } } while (false)
#define CHECK_THROWS(...) do { bool shim_threw = false; try { static_cast<void>(__VA_ARGS__); } catch (...) { shim_threw = true; } \
    if (!shim_threw) { ::shim::fail(__FILE__, __LINE__, "CHECK_THROWS(" #__VA_ARGS__ ")"); } } while (false)
#define CHECK_THROWS_AS(expr, type) do { bool shim_threw = false; try { static_cast<void>(expr); } catch (const type &) { shim_threw = true; } catch (...) {} \
    if (!shim_threw) { ::shim::fail(__FILE__, __LINE__, "CHECK_THROWS_AS(" #expr ", " #type ")"); } } while (false)
#define REQUIRE_THROWS_AS(expr, type) do { bool shim_threw = false; try { static_cast<void>(expr); } catch (const type &) { shim_threw = true; } catch (...) {} \
    if (!shim_threw) { ::shim::fail(__FILE__, __LINE__, "REQUIRE_THROWS_AS(" #expr ", " #type ")"); throw ::shim::Fatal{}; } } while (false)
#define CHECK_THROWS_WITH(expr, matcher) do { bool shim_threw = false; std::string shim_what; \
    try { static_cast<void>(expr); } catch (const std::exception &e) { shim_threw = true; shim_what = e.what(); } catch (...) { shim_threw = true; } \
    if (!shim_threw || !(matcher).match(shim_what)) { \
        ::shim::fail(__FILE__, __LINE__, std::string{"CHECK_THROWS_WITH(" #expr "): got '"} + shim_what + "'"); } } while (false)
#define CHECK_NOTHROW(...) do { try { static_cast<void>(__VA_ARGS__); } catch (const std::exception &e) { ::shim::fail(__FILE__, __LINE__, std::string{"CHECK_NOTHROW(" #__VA_ARGS__ "): "} + e.what()); } \
    catch (...) { ::shim::fail(__FILE__, __LINE__, "CHECK_NOTHROW(" #__VA_ARGS__ ")"); } } while (false)
#define REQUIRE_NOTHROW(...) CHECK_NOTHROW(__VA_ARGS__)
#define STATIC_REQUIRE(...) static_assert(__VA_ARGS__, #__VA_ARGS__)
#define STATIC_REQUIRE_FALSE(...) static_assert(!(__VA_ARGS__), #__VA_ARGS__)
#define SECTION(...) if (true)
#define INFO(...) do { } while (false)
#define CAPTURE(...) do { } while (false)
