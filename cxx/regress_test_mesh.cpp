#include <../tests/cpp/test_mesh.cpp>
