// nest_driver.cpp — family "nest": generated TREES of graphs of native nodes over
// TS<int64>: plain scripted nodes, nested nodes (single_nested_graph_node),
// try_except nodes (try_except_node) and plain nodes with error capture, run by
// the real simulation executor of /repo's tree.  Serves C09 and C15.
// See gen/nest.py for the case format; coq/Nested.v is the model that must print
// the same lines.
#include "hgv_io.h"

#include <hgraph/lib/testing/runtime_support.h>
#include <hgraph/runtime/lifecycle_observer.h>
#include <hgraph/runtime/nested_graph_node.h>
#include <hgraph/runtime/node_error.h>
#include <hgraph/runtime/node_scheduler.h>
#include <hgraph/runtime/runtime.h>
#include <hgraph/runtime/try_except_node.h>
#include <hgraph/types/graph_wiring.h>
#include <hgraph/types/metadata/type_registry.h>
#include <hgraph/types/value/value.h>

#include <map>
#include <optional>
#include <stdexcept>

namespace hgraph::stdlib { void register_json_operators() {} }

using namespace hgraph;
using hgv::Line;

namespace
{
    std::int64_t us(DateTime t) { return t.time_since_epoch().count(); }
    DateTime     dt(std::int64_t v) { return DateTime{TimeDelta{v}}; }

    // REENTER: a nested node whose owner re-enters a paused child cycle until it completes (what mesh_ does);
    // PAUSER: a native node whose evaluate returns false (pauses its graph's cycle; what mesh_subscribe does)
    enum Kind { PLAIN = 0, NESTED = 1, TRY = 2, CAPTURE = 3, REENTER = 4, PAUSER = 5 };

    struct InSpec { std::int64_t src; int port; bool active; bool required; };
    struct Bind { std::size_t outer_slot, child_node, child_slot; };
    struct Op { std::int64_t code, a, b; };
    struct NodeSpec
    {
        int                                     kind{PLAIN};
        bool                                    uses_sched{false}, sched_on_start{false}, has_out{false};
        int                                     valid_mode{0};
        std::vector<InSpec>                     ins;
        std::map<std::int64_t, std::vector<Op>> scripts;  // k -> ops; -1 start; -2 default
        std::int64_t                            runs{0};
        std::map<std::int64_t, std::int64_t>    pauses;   // run index -> pauses before that run completes
        std::int64_t                            paused{0};
        std::int64_t                            child{-1}, outn{-1};
        std::vector<Bind>                       binds;
    };
    struct GraphSpec
    {
        std::vector<NodeSpec> nodes;
        std::int64_t          parent_g{-1}, parent_n{-1};
    };

    struct Ctx
    {
        std::vector<GraphSpec>     graphs;
        hgv::Out                  *out{nullptr};
        const TSValueTypeMetaData *ts_int{nullptr};
        const TSValueTypeMetaData *ts_err{nullptr};
    };

    const std::string &tag_name(std::int64_t t)
    {
        static const std::string names[] = {"", "a", "b", "c", "d"};
        return names[t < 0 || t > 4 ? 0 : t];
    }

    // the exception object of script op 11: NOT derived from std::exception
    struct HgvForeign { std::int64_t v; };

    // the text thrown by script op 8 with message id a and requested total length len (0 = the short form):
    // "hgv boom <a>" or "hgv boom <a> <filler>", the filler (letters only, a function of a) padding to exactly len
    std::string make_msg(std::int64_t a, std::int64_t len)
    {
        std::string m = "hgv boom " + std::to_string(a);
        if (len <= (std::int64_t)m.size() + 1) { return m; }
        m += ' ';
        for (std::int64_t i = 0; (std::int64_t)m.size() < len; ++i) { m += (char)('a' + (int)(((a % 26 + 26) + i * 7) % 26)); }
        return m;
    }

    // loose decoding, for the exception that escapes the whole run (the root decorates it with the node identity)
    std::int64_t msg_code(const std::string &w)
    {
        const auto p = w.find("hgv boom ");
        if (p != std::string::npos)
        {
            const std::int64_t a = std::atoll(w.c_str() + p + 9);
            std::size_t        q = p + 9;
            while (q < w.size() && (w[q] == '-' || (w[q] >= '0' && w[q] <= '9'))) { ++q; }
            if (q < w.size() && w[q] == ' ' && q + 1 < w.size() && w[q + 1] >= 'a' && w[q + 1] <= 'z')
            {
                std::size_t r = q + 1;
                while (r < w.size() && w[r] >= 'a' && w[r] <= 'z') { ++r; }
                return 100 + a + 1000000 * (std::int64_t)(r - p);   // the long form: id + total length
            }
            return 100 + a;
        }
        if (w.find("in the past") != std::string::npos) { return 3; }
        if (w.find("paused with no resolver") != std::string::npos) { return 7; }
        if (w.find("unknown error") != std::string::npos) { return 2; }
        return 1;
    }

    // strict decoding, for NodeError.error_msg: the tick must carry the exception's message, exactly.
    // 100+N "hgv boom N"; 3 the engine's schedule-in-the-past text; 2 "unknown error" (non-std exception);
    // 50 the thrower's text is there but decorated / altered; 1 anything else
    std::int64_t msg_code_exact(const std::string &w)
    {
        static const std::string boom = "hgv boom ";
        if (w.rfind(boom, 0) == 0 && w.size() > boom.size())
        {
            const std::string rest = w.substr(boom.size());
            std::size_t       k    = rest[0] == '-' ? 1 : 0;
            bool              ok   = k < rest.size();
            for (std::size_t j = k; j < rest.size(); ++j) { ok = ok && rest[j] >= '0' && rest[j] <= '9'; }
            if (ok) { return 100 + std::atoll(rest.c_str()); }
            // the long form: the WHOLE text, including its length, must be what the thrower threw
            const std::int64_t a = std::atoll(rest.c_str());
            if (w == make_msg(a, (std::int64_t)w.size()) && w.size() > boom.size() + std::to_string(a).size() + 1)
            {
                return 100 + a + 1000000 * (std::int64_t)w.size();
            }
        }
        if (w == "Graph cannot schedule a node in the past") { return 3; }
        if (w == "unknown error") { return 2; }
        if (w.find("hgv boom") != std::string::npos || w.find("in the past") != std::string::npos || w.find("unknown error") != std::string::npos) { return 50; }
        return 1;
    }

    // is input slot s of node (g,i) bound (through any number of boundaries) to an error output?
    bool is_err_input(const Ctx &ctx, std::size_t g, std::size_t i, std::size_t s)
    {
        const NodeSpec &n = ctx.graphs[g].nodes[i];
        if (s >= n.ins.size()) { return false; }
        if (n.ins[s].src >= 0) { return n.ins[s].port == 1; }
        const GraphSpec &gs = ctx.graphs[g];
        if (gs.parent_g < 0) { return false; }
        const NodeSpec &pn = ctx.graphs[gs.parent_g].nodes[gs.parent_n];
        for (const Bind &b : pn.binds)
        {
            if (b.child_node == i && b.child_slot == s) { return is_err_input(ctx, gs.parent_g, gs.parent_n, b.outer_slot); }
        }
        return false;
    }

    std::size_t gid_of(const Ctx &ctx, const GraphView &g)
    {
        if (g.is_root()) { return 0; }
        NodeView          p  = g.as_nested().parent_node();
        const std::size_t pg = gid_of(ctx, p.graph());
        return (std::size_t)ctx.graphs[pg].nodes[p.node_index()].child;
    }

    struct InRead { bool valid, modified; std::int64_t value, lmt; };

    template <typename In>
    InRead read_in(In &&in, bool is_err)
    {
        InRead r{in.valid(), in.modified(), 0, us(in.last_modified_time())};
        if (r.valid)
        {
            if (is_err) { r.value = msg_code_exact(in.value().as_bundle().at("error_msg").template checked_as<std::string>()); }
            else { r.value = in.value().template checked_as<std::int64_t>(); }
        }
        return r;
    }

    void snapshot(hgv::Out &out, std::int64_t code, std::size_t g, std::size_t i, DateTime now, std::int64_t k,
                  const NodeScheduler &s, std::int64_t extra)
    {
        out.line({code, (std::int64_t)g, (std::int64_t)i, us(now), k, us(s.next_scheduled_time()), s.is_scheduled(),
                  s.is_scheduled_now(),
                  s.has_tag("a"), us(s.tag_time("a")), s.tag_is_scheduled_now("a"),
                  s.has_tag("b"), us(s.tag_time("b")), s.tag_is_scheduled_now("b"),
                  s.has_tag("c"), us(s.tag_time("c")), s.tag_is_scheduled_now("c"), extra});
    }

    void run_ops(Ctx &ctx, std::size_t g, std::size_t i, const NodeView &view, DateTime now, bool started, std::int64_t k)
    {
        NodeSpec &n  = ctx.graphs[g].nodes[i];
        auto      it = n.scripts.find(k);
        if (it == n.scripts.end() && k >= 0) { it = n.scripts.find(-2); }
        if (it == n.scripts.end()) { return; }
        std::optional<NodeScheduler> sched;
        if (n.uses_sched) { sched.emplace(view.scheduler_state(), view.graph_value(), i, now, started); }
        std::int64_t opi = 0;
        for (const Op &op : it->second)
        {
            std::int64_t extra = 0;
            switch (op.code)
            {
                case 1: if (sched) { sched->schedule(dt(us(now) + op.a), op.b == 0 ? std::nullopt : std::optional<std::string>{tag_name(op.b)}); } break;
                case 2: if (sched) { sched->un_schedule(tag_name(op.b)); } break;
                case 3: if (sched) { sched->un_schedule(); } break;
                case 4: if (sched) { extra = us(sched->pop_tag(tag_name(op.b))); } break;
                case 5: if (sched) { sched->reset(); } break;
                case 6:
                {
                    if (!n.has_out || !started) { break; }
                    std::int64_t v = op.a;
                    if (!n.ins.empty())
                    {
                        auto root   = view.input(now);
                        auto bundle = root.as_bundle();
                        for (std::size_t s = 0; s < n.ins.size(); ++s)
                        {
                            auto   in = bundle[s];
                            InRead r  = read_in(in, is_err_input(ctx, g, i, s));
                            if (r.valid) { v += r.value; }
                        }
                    }
                    {
                        auto mutation = view.output(now).begin_mutation(now);
                        static_cast<void>(mutation.move_value_from(Value{v}));
                    }
                    ctx.out->line({14, (std::int64_t)g, (std::int64_t)i, us(now), v});
                    break;
                }
                case 7: view.graph_value()->schedule_node(i, dt(us(now) + op.a)); break;
                case 8: throw std::runtime_error(make_msg(op.a, op.b));
                case 11: throw HgvForeign{op.a};
                case 9:
                case 12:
                {
                    // out-of-band schedule of node b of the child graph owned by sibling nested node a (op 12: of the
                    // GRANDCHILD graph owned by node 0 of that child), at that graph's own (possibly stale) clock
                    auto sibling = view.graph().node_at((std::size_t)op.a);
                    auto nested  = sibling.as<SingleNestedGraphNodeView>();
                    if (nested.child_graph_value().has_value())
                    {
                        auto child = nested.child_graph();
                        if (op.code == 12)
                        {
                            auto inner = child.node_at(0).as<SingleNestedGraphNodeView>();
                            if (inner.child_graph_value().has_value())
                            {
                                auto grand = inner.child_graph();
                                grand.schedule_node((std::size_t)op.b, grand.evaluation_time());
                            }
                        }
                        else { child.schedule_node((std::size_t)op.b, child.evaluation_time()); }
                    }
                    break;
                }
                default: break;
            }
            if (sched && op.code >= 1 && op.code <= 5) { snapshot(*ctx.out, 13, g, i, now, opi, *sched, extra); }
            ++opi;
        }
    }

    struct Obs : LifecycleObserver
    {
        Ctx *ctx;
        explicit Obs(Ctx *c) : ctx(c) {}
        void on_before_graph_evaluation(const GraphView &g) override
        {
            ctx->out->line({10, (std::int64_t)gid_of(*ctx, g), us(g.evaluation_time())});
        }
        void on_before_node_evaluation(const NodeView &n) override
        {
            ctx->out->line({11, (std::int64_t)gid_of(*ctx, n.graph()), (std::int64_t)n.node_index(), us(n.graph().evaluation_time())});
        }
    };

    void user_eval(Ctx *pc, std::size_t g, std::size_t i, const NodeView &v, DateTime t)
    {
        NodeSpec          &n = pc->graphs[g].nodes[i];
        const std::int64_t k = n.runs++;
        Line               l{12, (std::int64_t)g, (std::int64_t)i, us(t), k};
        if (n.uses_sched)
        {
            NodeScheduler s{v.scheduler_state(), v.graph_value(), i, t, true};
            l.push_back(s.is_scheduled_now());
            l.push_back(us(s.next_scheduled_time()));
        }
        else { l.push_back(0); l.push_back(0); }
        if (!n.ins.empty())
        {
            auto root   = v.input(t);
            auto bundle = root.as_bundle();
            for (std::size_t s = 0; s < n.ins.size(); ++s)
            {
                auto   in = bundle[s];
                InRead r  = read_in(in, is_err_input(*pc, g, i, s));
                l.push_back(r.valid);
                l.push_back(r.modified);
                l.push_back(r.value);
                l.push_back(r.lmt);
            }
        }
        pc->out->line(l);
        run_ops(*pc, g, i, v, t, true, k);
    }

    Ctx *g_ctx = nullptr;

    // PAUSER: evaluate returns false `pauses[run]` times (line 17 each) before the run completes
    bool pauser_evaluate_impl(const void *, const NodeView &view, DateTime t)
    {
        if (!view.started()) { return true; }
        Ctx              &ctx = *g_ctx;
        const std::size_t g   = gid_of(ctx, view.graph());
        const std::size_t i   = view.node_index();
        NodeSpec         &n   = ctx.graphs[g].nodes[i];
        auto              it  = n.pauses.find(n.runs);
        const std::int64_t want = it == n.pauses.end() ? 0 : it->second;
        if (n.paused < want)
        {
            ctx.out->line({17, (std::int64_t)g, (std::int64_t)i, us(t), n.paused});
            ++n.paused;
            return false;
        }
        n.paused = 0;
        user_eval(&ctx, g, i, view, t);
        return true;
    }

    // REENTER: as single_nested_graph_evaluate, but a paused child cycle is re-entered until it completes
    bool reenter_evaluate_impl(const void *, const NodeView &view, DateTime t)
    {
        if (!view.started()) { return true; }
        auto nested = view.as<SingleNestedGraphNodeView>();
        nested.ensure_child_graph();
        single_nested_graph_bind_inputs(nested, t);
        single_nested_graph_bind_output(nested, t);
        for (int guard = 0; guard < 65; ++guard)
        {
            if (nested.child_graph().evaluate(t)) { return true; }
        }
        throw std::runtime_error("hgv reentry guard");
    }

    GraphBuilder build_graph(Ctx &ctx, std::size_t g);

    NodeBuilder build_node(Ctx &ctx, std::size_t g, std::size_t i)
    {
        auto            &registry = TypeRegistry::instance();
        NodeSpec        &n        = ctx.graphs[g].nodes[i];
        NodeTypeMetaData schema;
        schema.display_name = "hgv_node";

        std::vector<std::pair<std::string, const TSValueTypeMetaData *>> fields;
        std::vector<TSEndpointSchema>                                    children;
        std::vector<std::size_t>                                         active, valid;
        bool                                                             all_active = true;
        for (std::size_t s = 0; s < n.ins.size(); ++s)
        {
            const auto *t = is_err_input(ctx, g, i, s) ? ctx.ts_err : ctx.ts_int;
            fields.emplace_back("i" + std::to_string(s), t);
            children.push_back(TSEndpointSchema::peered(t));
            if (n.ins[s].active) { active.push_back(s); } else { all_active = false; }
            if (n.ins[s].required) { valid.push_back(s); }
        }
        const TSValueTypeMetaData *in_schema = n.ins.empty() ? nullptr : registry.un_named_tsb(fields);

        if (n.kind == NESTED || n.kind == TRY || n.kind == REENTER)
        {
            schema.display_name = n.kind == TRY ? "hgv_try" : "hgv_nested";
            if (in_schema != nullptr)
            {
                schema.input_schema = in_schema;
                if (!all_active) { schema.active_inputs = active; }
            }
            SingleNestedGraphNodeSpec spec;
            spec.graph_builder = build_graph(ctx, (std::size_t)n.child);
            for (const Bind &b : n.binds)
            {
                spec.input_bindings.push_back(NestedGraphInputBinding{
                    .source_path = {b.outer_slot},
                    .target      = NestedGraphEndpoint{.node = b.child_node, .path = {b.child_slot}},
                });
            }
            // the child's terminal: a try_except terminal exposes its `out` field
            NestedGraphEndpoint terminal{.node = (std::size_t)(n.outn < 0 ? 0 : n.outn)};
            if (n.outn >= 0 && ctx.graphs[(std::size_t)n.child].nodes[(std::size_t)n.outn].kind == TRY) { terminal.path = {1}; }
            if (n.kind == NESTED || n.kind == REENTER)
            {
                if (n.outn >= 0)
                {
                    schema.output_schema = ctx.ts_int;
                    spec.output_binding  = NestedGraphOutputBinding{.source = terminal};
                }
                NodeTypeDescriptor desc = single_nested_graph_node_descriptor(std::move(schema), std::move(spec));
                if (n.kind == REENTER) { desc.ops.evaluate_impl = &reenter_evaluate_impl; }
                NodeBuilder nb = NodeBuilder::from_descriptor(std::move(desc));
                if (in_schema != nullptr) { nb.input_endpoint(TSEndpointSchema::non_peered(in_schema, std::move(children))); }
                return nb;
            }
            std::vector<std::pair<std::string, const TSValueTypeMetaData *>> ofields{{"exception", ctx.ts_err}, {"out", ctx.ts_int}};
            schema.output_schema = registry.un_named_tsb(ofields);
            spec.output_binding  = NestedGraphOutputBinding{.source = terminal};
            spec.output_binding->target_path = {1};
            NodeBuilder nb = try_except_node(std::move(schema), std::move(spec));
            if (in_schema != nullptr) { nb.input_endpoint(TSEndpointSchema::non_peered(in_schema, std::move(children))); }
            return nb;
        }

        schema.uses_scheduler    = n.uses_sched;
        schema.schedule_on_start = n.sched_on_start;
        if (n.has_out) { schema.output_schema = ctx.ts_int; }
        schema.node_kind = n.ins.empty() ? NodeKind::PullSource : (n.has_out ? NodeKind::Compute : NodeKind::Sink);
        if (n.kind == CAPTURE)
        {
            schema.error_output_schema = ctx.ts_err;
            schema.captures_errors     = true;
        }
        std::optional<TSEndpointSchema> endpoint;
        if (in_schema != nullptr)
        {
            schema.input_schema = in_schema;
            if (!all_active) { schema.active_inputs = active; }
            if (n.valid_mode == 1) { schema.valid_inputs = valid; }
            endpoint = TSEndpointSchema::non_peered(in_schema, std::move(children));
        }
        NodeCallbacks cb;
        Ctx          *pc = &ctx;
        cb.start    = [pc, g, i](const NodeView &v, DateTime t) { run_ops(*pc, g, i, v, t, false, -1); };
        cb.evaluate = [pc, g, i](const NodeView &v, DateTime t) { user_eval(pc, g, i, v, t); };
        if (n.kind == PAUSER)
        {
            NodeTypeDescriptor desc;
            desc.schema             = std::move(schema);
            desc.callbacks          = std::move(cb);
            desc.ops.evaluate_impl  = &pauser_evaluate_impl;
            if (endpoint) { return NodeBuilder::from_descriptor(std::move(desc), std::move(*endpoint)); }
            return NodeBuilder::from_descriptor(std::move(desc));
        }
        if (endpoint) { return NodeBuilder::native(std::move(schema), std::move(cb), std::move(*endpoint)); }
        return NodeBuilder::native(std::move(schema), std::move(cb));
    }

    GraphBuilder build_graph(Ctx &ctx, std::size_t g)
    {
        GraphBuilder gb;
        GraphSpec   &gs = ctx.graphs[g];
        for (std::size_t i = 0; i < gs.nodes.size(); ++i) { gb.add_node(build_node(ctx, g, i)); }
        for (std::size_t i = 0; i < gs.nodes.size(); ++i)
        {
            for (std::size_t s = 0; s < gs.nodes[i].ins.size(); ++s)
            {
                const InSpec &in = gs.nodes[i].ins[s];
                if (in.src < 0) { continue; }
                const NodeSpec &src = gs.nodes[(std::size_t)in.src];
                GraphEdge       e{.source_node = (std::size_t)in.src, .source_path = {}, .target_node = i, .target_path = {s}};
                if (src.kind == TRY) { e.source_path = {in.port == 1 ? std::size_t{0} : std::size_t{1}}; }
                else if (in.port == 1) { e.source_node = make_graph_edge_source((std::size_t)in.src, GraphEdgeSourceKind::ErrorOutput); }
                gb.add_edge(std::move(e));
            }
        }
        return gb;
    }

    void final_lines(Ctx &ctx, std::size_t g, const GraphView &gv, DateTime end)
    {
        GraphSpec &gs = ctx.graphs[g];
        for (std::size_t i = 0; i < gs.nodes.size(); ++i)
        {
            NodeSpec &n = gs.nodes[i];
            if (n.kind == TRY)
            {
                auto o  = gv.node_at(i).output(end);
                auto b  = o.as_bundle();
                auto ov = b[1];
                auto ev = b[0];
                {
                    const bool valid = ov.valid();
                    ctx.out->line({15, (std::int64_t)g, (std::int64_t)i, valid, valid ? ov.value().checked_as<std::int64_t>() : 0, us(ov.last_modified_time())});
                }
                {
                    const bool valid = ev.valid();
                    ctx.out->line({16, (std::int64_t)g, (std::int64_t)i, valid,
                                   valid ? msg_code_exact(ev.value().as_bundle().at("error_msg").checked_as<std::string>()) : 0,
                                   us(ev.last_modified_time())});
                }
            }
            else if (n.has_out)
            {
                auto       o     = gv.node_at(i).output(end);
                const bool valid = o.valid();
                ctx.out->line({15, (std::int64_t)g, (std::int64_t)i, valid, valid ? o.value().checked_as<std::int64_t>() : 0, us(o.last_modified_time())});
            }
            if (n.kind == CAPTURE)
            {
                auto       e     = gv.node_at(i).error_output(end);
                const bool valid = e.valid();
                ctx.out->line({16, (std::int64_t)g, (std::int64_t)i, valid,
                               valid ? msg_code_exact(e.value().as_bundle().at("error_msg").checked_as<std::string>()) : 0,
                               us(e.last_modified_time())});
            }
        }
        for (std::size_t i = 0; i < gs.nodes.size(); ++i)
        {
            NodeSpec &n = gs.nodes[i];
            if (n.kind == NESTED || n.kind == TRY || n.kind == REENTER)
            {
                auto nested = gv.node_at(i).as<SingleNestedGraphNodeView>();
                if (nested.child_graph_value().has_value()) { final_lines(ctx, (std::size_t)n.child, nested.child_graph(), end); }
            }
        }
    }

    void run_case(const hgv::Case &c, hgv::Out &out)
    {
        auto &registry = TypeRegistry::instance();
        Ctx   ctx;
        ctx.out    = &out;
        ctx.ts_int = registry.ts(registry.register_scalar<std::int64_t>("int64"));
        ctx.ts_err = node_error_ts_meta();
        std::int64_t start = 1, end = 10;
        auto         node_ref = [&](std::int64_t g, std::int64_t i) -> NodeSpec & {
            if ((std::size_t)g >= ctx.graphs.size()) { ctx.graphs.resize(g + 1); }
            auto &ns = ctx.graphs[g].nodes;
            if ((std::size_t)i >= ns.size()) { ns.resize(i + 1); }
            return ns[i];
        };
        for (const Line &l : c)
        {
            if (l[0] == 1) { start = l[1]; end = l[2]; }
            else if (l[0] == 2)
            {
                NodeSpec &n      = node_ref(l[1], l[2]);
                n.kind           = (int)l[3];
                n.uses_sched     = l[4] != 0;
                n.sched_on_start = l[5] != 0;
                n.has_out        = l[6] != 0;
                n.valid_mode     = (int)l[8];
                for (std::int64_t s = 0; s < l[7]; ++s)
                {
                    n.ins.push_back({l[9 + 4 * s], (int)l[10 + 4 * s], l[11 + 4 * s] != 0, l[12 + 4 * s] != 0});
                }
            }
            else if (l[0] == 5)
            {
                NodeSpec &n = node_ref(l[1], l[2]);
                n.child     = l[3];
                n.outn      = l[4];
                for (std::int64_t s = 0; s < l[5]; ++s)
                {
                    n.binds.push_back({(std::size_t)l[6 + 3 * s], (std::size_t)l[7 + 3 * s], (std::size_t)l[8 + 3 * s]});
                }
                if ((std::size_t)n.child >= ctx.graphs.size()) { ctx.graphs.resize(n.child + 1); }
                ctx.graphs[n.child].parent_g = l[1];
                ctx.graphs[n.child].parent_n = l[2];
            }
            else if (l[0] == 3) { node_ref(l[1], l[2]).scripts[l[3]].push_back({l[4], l[5], l[6]}); }
            else if (l[0] == 9) { node_ref(l[1], l[2]).pauses[l[3]] = l[4]; }
        }
        if (ctx.graphs.empty()) { ctx.graphs.resize(1); }

        g_ctx = &ctx;
        Obs obs{&ctx};
        try
        {
            GraphBuilder         gb = build_graph(ctx, 0);
            GraphExecutorBuilder eb;
            eb.graph_builder(std::move(gb)).start_time(dt(start)).end_time(dt(end)).add_lifecycle_observer(&obs);
            GraphExecutorValue executor = eb.make_executor();
            auto               ev       = executor.view();
            try { ev.run(); }
            catch (const std::exception &e)
            {
                const std::string  w    = e.what();
                const std::int64_t code = msg_code(w);
                out.line({19, code});
                if (code == 1) { std::fprintf(stderr, "error: %s\n", w.c_str()); }
            }
            catch (...) { out.line({19, 2}); }
            final_lines(ctx, 0, ev.graph(), dt(end));
        }
        catch (const std::exception &e)
        {
            out.line({18, 1});
            std::fprintf(stderr, "build error: %s\n", e.what());
        }
    }
}  // namespace

int main(int argc, char **argv)
{
    if (argc < 2) { std::fprintf(stderr, "usage: nest_driver <batch>\n"); return 2; }
    auto     batch = hgv::read_batch(argv[1]);
    hgv::Out out;
    for (const auto &c : batch)
    {
        run_case(c, out);
        bool paired = false;
        for (const Line &l : c) { if (l[0] == 6 && l.size() > 1 && l[1] != 0) { paired = true; } }
        if (paired)
        {
            // the same program with every throw turned into a no-op: the fault-free run
            hgv::Case clean = c;
            for (Line &l : clean) { if (l[0] == 3 && l.size() > 4 && (l[4] == 8 || l[4] == 11)) { l[4] = 0; } }
            out.line({20});
            run_case(clean, out);
        }
        out.end_case();
    }
    return 0;
}
