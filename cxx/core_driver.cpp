// core_driver.cpp — family "core": generated flat dataflow programs of native
// nodes over TS<int64>, run by the real simulation executor of /repo's tree.
// Serves C02, C03, C18 (and the flat part of C01).  See gen/core.py for the case
// format; coq/Engine.v is the model that must print the same lines.
#include "hgv_io.h"

#include <hgraph/lib/testing/runtime_support.h>
#include <hgraph/runtime/lifecycle_observer.h>
#include <hgraph/runtime/node_scheduler.h>
#include <hgraph/runtime/runtime.h>
#include <hgraph/types/graph_wiring.h>
#include <hgraph/types/metadata/type_registry.h>
#include <hgraph/types/value/value.h>

#include <map>
#include <optional>
#include <stdexcept>

namespace hgraph::stdlib { void register_json_operators() {} }

using namespace hgraph;
using hgv::Line;

namespace
{
    std::int64_t us(DateTime t) { return t.time_since_epoch().count(); }
    DateTime     dt(std::int64_t v) { return DateTime{TimeDelta{v}}; }

    // active / marked: the node's own declaration (schema.active_inputs) and the wiring-time passive marker
    // (NodeBuilder::with_passive_inputs); wire value 0 passive, 1 active, 2 active + marked, 3 passive + marked
    // role: 0 plain TS<int> slot; 1 / 2 = first / second element of a TSL<TS<int>,2> slot (two consecutive entries
    // form ONE input slot whose elements are bound to two producers); all_valid: the slot is listed in
    // schema.all_valid_inputs.  slot / elem are derived: position of the entry in the input bundle.
    struct InSpec { std::size_t src; bool active; bool required; bool marked; int role{0}; bool all_valid{false};
                    std::size_t slot{0}; std::size_t elem{0}; };
    struct Op { std::int64_t code, a, b; };
    struct NodeSpec
    {
        bool                         uses_sched{false}, sched_on_start{false}, has_out{false};
        int                          valid_mode{0};
        std::vector<InSpec>          ins;
        std::map<std::int64_t, std::vector<Op>> scripts;  // k -> ops; -1 start; -2 default
        std::int64_t                 runs{0};
    };

    struct Ctx
    {
        std::vector<NodeSpec> nodes;
        hgv::Out             *out{nullptr};
    };

    const std::string &tag_name(std::int64_t t)
    {
        static const std::string names[] = {"", "a", "b", "c", "d"};
        return names[t < 0 || t > 4 ? 0 : t];
    }

    void snapshot(hgv::Out &out, std::int64_t code, std::size_t i, DateTime now, std::int64_t k, const NodeScheduler &s,
                  std::int64_t extra)
    {
        out.line({code, (std::int64_t)i, us(now), k, us(s.next_scheduled_time()), s.is_scheduled(), s.is_scheduled_now(),
                  s.has_tag("a"), us(s.tag_time("a")), s.tag_is_scheduled_now("a"),
                  s.has_tag("b"), us(s.tag_time("b")), s.tag_is_scheduled_now("b"),
                  s.has_tag("c"), us(s.tag_time("c")), s.tag_is_scheduled_now("c"), extra});
    }

    void run_ops(Ctx &ctx, std::size_t i, const NodeView &view, DateTime now, bool started, std::int64_t k)
    {
        NodeSpec &n  = ctx.nodes[i];
        auto      it = n.scripts.find(k);
        if (it == n.scripts.end() && k >= 0) { it = n.scripts.find(-2); }
        if (it == n.scripts.end()) { return; }
        std::optional<NodeScheduler> sched;
        if (n.uses_sched) { sched.emplace(view.scheduler_state(), view.graph_value(), i, now, started); }
        std::int64_t opi = 0;
        for (const Op &op : it->second)
        {
            std::int64_t extra = 0;
            switch (op.code)
            {
                case 1: if (sched) { sched->schedule(dt(us(now) + op.a), op.b == 0 ? std::nullopt : std::optional<std::string>{tag_name(op.b)}); } break;
                case 2: if (sched) { sched->un_schedule(tag_name(op.b)); } break;
                case 3: if (sched) { sched->un_schedule(); } break;
                case 4: if (sched) { extra = us(sched->pop_tag(tag_name(op.b))); } break;
                case 5: if (sched) { sched->reset(); } break;
                case 6:
                {
                    if (!n.has_out || !started) { break; }
                    std::int64_t v = op.a;
                    if (!n.ins.empty())
                    {
                        auto root   = view.input(now);
                        auto bundle = root.as_bundle();
                        for (std::size_t s = 0; s < n.ins.size(); ++s)
                        {
                            auto slot_view = bundle[n.ins[s].slot];
                            if (n.ins[s].role == 0)
                            {
                                if (slot_view.valid()) { v += slot_view.value().template checked_as<std::int64_t>(); }
                            }
                            else
                            {
                                auto xl = slot_view.as_list();
                                auto in = xl[n.ins[s].elem];
                                if (in.valid()) { v += in.value().template checked_as<std::int64_t>(); }
                            }
                        }
                    }
                    {
                        // move_value_from returns "first write for this time", not success
                        auto mutation = view.output(now).begin_mutation(now);
                        static_cast<void>(mutation.move_value_from(Value{v}));
                    }
                    ctx.out->line({14, (std::int64_t)i, us(now), v});
                    break;
                }
                case 7: view.graph_value()->schedule_node(i, dt(us(now) + op.a)); break;
                case 8: throw std::runtime_error("hgv boom");
                case 9:
                case 10:
                {
                    if (op.a < 0 || (std::size_t)op.a >= n.ins.size()) { break; }
                    if (n.ins[(std::size_t)op.a].role == 2) { break; }   // a list slot is addressed through its first entry
                    auto root   = view.input(now);
                    auto bundle = root.as_bundle();
                    auto in     = bundle[n.ins[(std::size_t)op.a].slot];
                    if (op.code == 9) { in.make_passive(); } else { in.make_active(); }
                    break;
                }
                case 11:
                {
                    // the producer invalidates its own output (public mutation API)
                    if (!n.has_out || !started) { break; }
                    bool did = false;
                    {
                        auto mutation = view.output(now).begin_mutation(now);
                        did = mutation.invalidate();
                    }
                    ctx.out->line({16, (std::int64_t)i, us(now), did});
                    break;
                }
                default: break;
            }
            if (sched && op.code >= 1 && op.code <= 5) { snapshot(*ctx.out, 13, i, now, opi, *sched, extra); }
            ++opi;
        }
    }

    struct Obs : LifecycleObserver
    {
        hgv::Out *out;
        explicit Obs(hgv::Out *o) : out(o) {}
        void on_before_graph_evaluation(const GraphView &g) override { out->line({10, us(g.evaluation_time())}); }
        void on_before_node_evaluation(const NodeView &n) override
        {
            out->line({11, (std::int64_t)n.node_index(), us(n.graph().evaluation_time())});
        }
    };

    void run_case(const hgv::Case &c, hgv::Out &out)
    {
        auto       &registry = TypeRegistry::instance();
        const auto *int_meta = registry.register_scalar<std::int64_t>("int64");
        const auto *ts_int   = registry.ts(int_meta);

        Ctx          ctx;
        ctx.out = &out;
        std::int64_t start = 1, end = 10;
        for (const Line &l : c)
        {
            if (l[0] == 1) { start = l[1]; end = l[2]; }
            else if (l[0] == 2)
            {
                NodeSpec n;
                n.uses_sched     = l[2] != 0;
                n.sched_on_start = l[3] != 0;
                n.has_out        = l[4] != 0;
                n.valid_mode     = (int)l[6];
                for (std::int64_t s = 0; s < l[5]; ++s)
                {
                    const std::int64_t a = l[8 + 3 * s];
                    const std::int64_t c = l[9 + 3 * s];   // required + 2 * role + 8 * all_valid
                    InSpec in{(std::size_t)l[7 + 3 * s], a == 1 || a == 2, (c & 1) != 0, a == 2 || a == 3,
                              (int)((c >> 1) & 3), ((c >> 3) & 1) != 0};
                    n.ins.push_back(in);
                }
                std::size_t slot = 0;
                for (std::size_t s = 0; s < n.ins.size(); ++s)
                {
                    n.ins[s].slot = slot;
                    n.ins[s].elem = n.ins[s].role == 2 ? 1 : 0;
                    if (n.ins[s].role != 1) { ++slot; }
                }
                ctx.nodes.push_back(std::move(n));
            }
            else if (l[0] == 3) { ctx.nodes.at(l[1]).scripts[l[2]].push_back({l[3], l[4], l[5]}); }
        }

        GraphBuilder gb;
        for (std::size_t i = 0; i < ctx.nodes.size(); ++i)
        {
            NodeSpec        &n = ctx.nodes[i];
            NodeTypeMetaData schema;
            schema.display_name      = "hgv_node";
            schema.uses_scheduler    = n.uses_sched;
            schema.schedule_on_start = n.sched_on_start;
            if (n.has_out) { schema.output_schema = ts_int; }
            schema.node_kind = n.ins.empty() ? NodeKind::PullSource : (n.has_out ? NodeKind::Compute : NodeKind::Sink);
            std::optional<TSEndpointSchema> endpoint;
            if (!n.ins.empty())
            {
                std::vector<std::pair<std::string, const TSValueTypeMetaData *>> fields;
                std::vector<TSEndpointSchema>                                    children;
                std::vector<std::size_t>                                         active, valid, all_valid;
                bool                                                             all_active = true;
                const auto *list2 = registry.tsl(ts_int, 2);
                for (std::size_t s = 0; s < n.ins.size(); ++s)
                {
                    if (n.ins[s].role == 2) { continue; }   // second element of the slot opened by the previous entry
                    const std::size_t slot = n.ins[s].slot;
                    if (n.ins[s].role == 1)
                    {
                        fields.emplace_back("i" + std::to_string(slot), list2);
                        children.push_back(TSEndpointSchema::non_peered_list(list2, TSEndpointSchema::peered(ts_int)));
                    }
                    else
                    {
                        fields.emplace_back("i" + std::to_string(slot), ts_int);
                        children.push_back(TSEndpointSchema::peered(ts_int));
                    }
                    if (n.ins[s].active) { active.push_back(slot); } else { all_active = false; }
                    if (n.ins[s].required) { valid.push_back(slot); }
                    if (n.ins[s].all_valid) { all_valid.push_back(slot); }
                }
                schema.all_valid_inputs = all_valid;
                const auto *in_schema = registry.un_named_tsb(fields);
                schema.input_schema   = in_schema;
                if (!all_active) { schema.active_inputs = active; }
                if (n.valid_mode == 1) { schema.valid_inputs = valid; }
                endpoint = TSEndpointSchema::non_peered(in_schema, std::move(children));
            }
            NodeCallbacks cb;
            Ctx          *pc = &ctx;
            cb.start    = [pc, i](const NodeView &v, DateTime t) { run_ops(*pc, i, v, t, false, -1); };
            cb.evaluate = [pc, i](const NodeView &v, DateTime t) {
                NodeSpec          &n = pc->nodes[i];
                const std::int64_t k = n.runs++;
                Line               l{12, (std::int64_t)i, us(t), k};
                if (n.uses_sched)
                {
                    NodeScheduler s{v.scheduler_state(), v.graph_value(), i, t, true};
                    l.push_back(s.is_scheduled_now());
                    l.push_back(us(s.next_scheduled_time()));
                }
                else { l.push_back(0); l.push_back(0); }
                if (!n.ins.empty())
                {
                    auto root   = v.input(t);
                    auto bundle = root.as_bundle();
                    const auto put = [&l](auto &in) {
                        const bool valid = in.valid();
                        l.push_back(valid);
                        l.push_back(in.modified());
                        l.push_back(valid ? in.value().template checked_as<std::int64_t>() : 0);
                        l.push_back(us(in.last_modified_time()));
                    };
                    for (std::size_t s = 0; s < n.ins.size(); ++s)
                    {
                        auto slot_view = bundle[n.ins[s].slot];
                        if (n.ins[s].role == 0) { put(slot_view); }
                        else
                        {
                            auto xl = slot_view.as_list();
                            auto in = xl[n.ins[s].elem];
                            put(in);
                        }
                    }
                }
                pc->out->line(l);
                run_ops(*pc, i, v, t, true, k);
            };
            std::vector<std::size_t> marked;
            for (std::size_t s = 0; s < n.ins.size(); ++s) { if (n.ins[s].marked && n.ins[s].role != 2) { marked.push_back(n.ins[s].slot); } }
            try
            {
                NodeBuilder nb = endpoint ? NodeBuilder::native(std::move(schema), std::move(cb), std::move(*endpoint))
                                          : NodeBuilder::native(std::move(schema), std::move(cb));
                if (!marked.empty()) { nb = nb.with_passive_inputs(marked); }
                gb.add_node(std::move(nb));
            }
            catch (const std::invalid_argument &e)
            {
                out.line({18, 2});
                std::fprintf(stderr, "build error: %s\n", e.what());
                return;
            }
        }
        for (std::size_t i = 0; i < ctx.nodes.size(); ++i)
        {
            for (std::size_t s = 0; s < ctx.nodes[i].ins.size(); ++s)
            {
                const InSpec &in = ctx.nodes[i].ins[s];
                if (in.role == 0) { gb.add_edge(GraphEdge{.source_node = in.src, .source_path = {}, .target_node = i, .target_path = {in.slot}}); }
                else { gb.add_edge(GraphEdge{.source_node = in.src, .source_path = {}, .target_node = i, .target_path = {in.slot, in.elem}}); }
            }
        }

        Obs                  obs{&out};
        GraphExecutorBuilder eb;
        eb.graph_builder(std::move(gb)).start_time(dt(start)).end_time(dt(end)).add_lifecycle_observer(&obs);
        try
        {
            GraphExecutorValue executor = eb.make_executor();
            auto               ev       = executor.view();
            try { ev.run(); }
            catch (const std::exception &e)
            {
                const std::string w = e.what();
                std::int64_t      code = 1;
                if (w.find("hgv boom") != std::string::npos) { code = 2; }
                else if (w.find("in the past") != std::string::npos) { code = 3; }
                out.line({19, code}); if (code == 1) std::fprintf(stderr, "error: %s\n", w.c_str());
            }
            auto g = ev.graph();
            for (std::size_t i = 0; i < ctx.nodes.size(); ++i)
            {
                if (!ctx.nodes[i].has_out) { continue; }
                auto       o     = g.node_at(i).output(dt(end));
                const bool valid = o.valid();
                out.line({15, (std::int64_t)i, valid, valid ? o.value().checked_as<std::int64_t>() : 0, us(o.last_modified_time())});
            }
        }
        catch (const std::exception &e)
        {
            out.line({18, 1});
            std::fprintf(stderr, "build error: %s\n", e.what());
        }
    }
}  // namespace

int main(int argc, char **argv)
{
    if (argc < 2) { std::fprintf(stderr, "usage: core_driver <batch>\n"); return 2; }
    auto     batch = hgv::read_batch(argv[1]);
    hgv::Out out;
    for (const auto &c : batch)
    {
        run_case(c, out);
        out.end_case();
    }
    return 0;
}
