// Runs every registered test case of the repository's own tests (through the Catch2 shim) in its own forked
// process, so that a case that crashes (e.g. by calling into one of the four TUs that cannot be built here)
// does not take the others down.  One line per case: ok / FAILED / CRASH.
#include <catch2/catch_test_macros.hpp>
#include <sys/wait.h>
#include <unistd.h>
namespace hgraph::stdlib { void register_json_operators() {} }
int main()
{
    int ok = 0, failed = 0, crashed = 0;
    for (const auto &c : ::shim::cases())
    {
        std::fflush(stdout);
        const pid_t pid = fork();
        if (pid == 0)
        {
            int rc = 0;
            try { c.fn(); }
            catch (const ::shim::Fatal &) {}
            catch (const std::exception &e) { ::shim::fail("<exception>", 0, e.what()); }
            catch (...) { ::shim::fail("<exception>", 0, "non-std exception"); }
            rc = ::shim::failures() == 0 ? 0 : 1;
            std::fflush(stdout);
            _exit(rc);
        }
        int status = 0;
        waitpid(pid, &status, 0);
        if (WIFEXITED(status) && WEXITSTATUS(status) == 0) { ++ok; std::printf("ok      %s\n", c.name); }
        else if (WIFEXITED(status)) { ++failed; std::printf("FAILED  %s\n", c.name); }
        else { ++crashed; std::printf("CRASH   %s\n", c.name); }
    }
    std::printf("TOTAL ok=%d failed=%d crashed=%d cases=%zu\n", ok, failed, crashed, ::shim::cases().size());
    return 0;
}
