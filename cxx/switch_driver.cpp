// switch_driver.cpp — family "switch" (property C12): the REAL switch_ operator of
// /repo's tree, wired through the static DSL (wire<stdlib::switch_>(w, key,
// switch_cases, ts...)), run by the real simulation executor.
//
// Branch bodies are template structs Body<I, M> (M = number of inputs the branch
// takes, key included) whose behaviour is read from a run-time table entry I, so a
// generated branch set needs no recompilation.  See gen/switch.py for the case
// format; coq/Switch.v is the mirror model that must print the same lines.
#include "hgv_io.h"

#include <hgraph/lib/std/std_operators.h>
#include <hgraph/lib/testing/runtime_support.h>
#include <hgraph/runtime/lifecycle_observer.h>
#include <hgraph/runtime/node_scheduler.h>
#include <hgraph/runtime/runtime.h>
#include <hgraph/types/graph_wiring.h>
#include <hgraph/types/static_node.h>
#include <hgraph/types/subgraph_wiring.h>
#include <hgraph/types/wired_fn.h>

#include <algorithm>
#include <array>
#include <map>
#include <optional>
#include <stdexcept>

namespace hgraph::stdlib { void register_json_operators() {} }

using namespace hgraph;
using hgv::Line;

namespace
{
    std::int64_t us(DateTime t) { return t.time_since_epoch().count(); }
    DateTime     dt(std::int64_t v) { return DateTime{TimeDelta{v}}; }

    constexpr int NSLOT = 6;

    // One entry of the run-time body table (see gen/switch.py, line kind 5).
    struct BodySpec
    {
        std::int64_t sos{0};     // schedule(now) in the start hook
        std::int64_t etick{1};   // emit when an input ticked
        std::int64_t ewake{0};   // emit when woken by its own timer
        std::int64_t rtick{0};   // re-arm the timer (now + d) when an input ticked
        std::int64_t rwake{0};   // re-arm the timer when woken
        std::int64_t d{1};       // timer delay
        std::int64_t c{0}, m{0}, l{1};   // emitted value = c + m * state' + l * sum(valid inputs)
        std::int64_t acc{0};     // state += acc * sum(modified inputs) on a tick
        std::int64_t cnt{0};     // state += cnt on a tick
        std::int64_t wk{0};      // state += wk on a wake
        std::int64_t erun{0};    // emit on every run of the user code, whatever caused it
        std::int64_t sd{0};      // delay of the timer armed in the start hook (when sos): 0 = the start cycle itself
    };

    struct Ctx
    {
        std::array<BodySpec, NSLOT>                    tab{};
        std::array<std::map<std::int64_t, std::int64_t>, 3> src{};   // source -> time -> value
        hgv::Out                                      *out{nullptr};
        std::map<const void *, std::int64_t>           inst;         // child graph memory -> instance ordinal
        std::map<const void *, std::int64_t>           slot;         // child graph memory -> slot ordinal (first seen)
        std::int64_t                                   ninst{0};
        bool                                           ref_mode{false};
        std::map<std::int64_t, std::vector<std::pair<std::int64_t, std::int64_t>>> setops;   // time -> (op 1 add / 0 remove, value)
    };
    Ctx *g_ctx = nullptr;

    // every observation goes through here; in the reference pass of a nested-body case (the same case
    // with the body inlined) only the recorder lines are kept, re-coded 20 -> 40, 21 -> 41
    void emit(const Line &l)
    {
        if (g_ctx->ref_mode)
        {
            if (l[0] == 20 || l[0] == 21) { Line r = l; r[0] += 20; g_ctx->out->line(r); }
            return;
        }
        g_ctx->out->line(l);
    }
    void emit(std::initializer_list<std::int64_t> xs) { emit(Line(xs)); }

    // the branch graph (direct child of the switch node) that encloses g: nested wrappers inside a branch are transparent
    bool branch_level(const GraphView &g) { return g.is_nested() && !g.as_nested().parent_node().graph().is_nested(); }
    const void *branch_data(GraphView g)
    {
        while (g.is_nested() && g.as_nested().parent_node().graph().is_nested()) { g = g.as_nested().parent_node().graph(); }
        return g.data();
    }

    std::int64_t inst_of(const void *p)
    {
        auto it = g_ctx->inst.find(p);
        return it == g_ctx->inst.end() ? -1 : it->second;
    }

    // ---- scripted sources: tick at the listed times with the listed values ----
    template <int K>
    struct Src
    {
        static constexpr auto name = "hgv_src";
        static void           start(NodeScheduler sched, DateTime now)
        {
            auto &m  = g_ctx->src[K];
            auto  it = m.lower_bound(us(now));
            if (it != m.end()) { sched.schedule(dt(it->first)); }
        }
        static void eval(NodeScheduler sched, DateTime now, Out<TS<Int>> out)
        {
            auto &m  = g_ctx->src[K];
            auto  it = m.find(us(now));
            if (it != m.end()) { out.set(Int{it->second}); }
            auto nx = m.upper_bound(us(now));
            if (nx != m.end()) { sched.schedule(dt(nx->first)); }
        }
    };

    // ---- the generic branch body ----
    struct InSnap { bool valid, modified; std::int64_t value; };

    void body_start(int slot, NodeScheduler &sched, DateTime now)
    {
        const BodySpec &b = g_ctx->tab[slot];
        if (b.sos) { sched.schedule(dt(us(now) + b.sd)); }
    }

    template <typename OutT>
    void body_eval(int slot, const NodeView &node, NodeScheduler &sched, DateTime now, State<Int> &st, OutT &out,
                   const std::vector<InSnap> &ins)
    {
        const BodySpec    &b    = g_ctx->tab[slot];
        const std::int64_t inst = inst_of(branch_data(node.graph()));
        const bool         woke = sched.is_scheduled_now();
        bool               ticked = false;
        std::int64_t       sum_mod = 0, sum_valid = 0;
        Line               l{26, us(now), inst, st.get(), woke};
        for (const InSnap &i : ins)
        {
            l.push_back(i.valid);
            l.push_back(i.modified);
            l.push_back(i.valid ? i.value : 0);
            if (i.valid) { sum_valid += i.value; }
            if (i.valid && i.modified) { ticked = true; sum_mod += i.value; }
        }
        emit(l);
        std::int64_t s = st.get();
        if (ticked) { s += b.acc * sum_mod + b.cnt; }
        if (woke) { s += b.wk; }
        st.set(s);
        if (b.erun || (ticked && b.etick) || (woke && b.ewake))
        {
            const std::int64_t v = b.c + b.m * s + b.l * sum_valid;
            if constexpr (requires { out.set(Int{v}); }) { out.set(Int{v}); }
            else { static_cast<void>(out.add(Int{v})); }   // TSS<Int> output: publish v as a member
            emit({27, us(now), inst, v});
        }
        if ((ticked && b.rtick) || (woke && b.rwake))
        {
            sched.schedule(dt(us(now) + b.d));
            emit({28, us(now), inst, us(now) + b.d});
        }
    }

    template <typename I>
    InSnap snap(I &in)
    {
        const bool v = in.valid();
        return InSnap{v, in.modified(), v ? (std::int64_t)in.value() : 0};
    }

    // SH = 0: scalar TS<Int> output;  SH = 1: TSS<Int> output (every emission adds a member)
    template <int SH> struct OutShape { using type = TS<Int>; };
    template <> struct OutShape<1> { using type = TSS<Int>; };
    template <int SH> using OutS = typename OutShape<SH>::type;

    template <int S, int M, int SH> struct Body;

    template <int S, int SH>
    struct Body<S, 0, SH>
    {
        static constexpr auto name = "hgv_body0";
        static void           start(NodeScheduler sched, DateTime now) { body_start(S, sched, now); }
        static void eval(NodeView node, NodeScheduler sched, DateTime now, State<Int> st, Out<OutS<SH>> out)
        {
            body_eval(S, node, sched, now, st, out, {});
        }
    };
    template <int S, int SH>
    struct Body<S, 1, SH>
    {
        static constexpr auto name = "hgv_body1";
        static void           start(NodeScheduler sched, DateTime now) { body_start(S, sched, now); }
        static void eval(NodeView node, In<"i0", TS<Int>> i0, NodeScheduler sched, DateTime now, State<Int> st, Out<OutS<SH>> out)
        {
            body_eval(S, node, sched, now, st, out, {snap(i0)});
        }
    };
    template <int S, int SH>
    struct Body<S, 2, SH>
    {
        static constexpr auto name = "hgv_body2";
        static void           start(NodeScheduler sched, DateTime now) { body_start(S, sched, now); }
        static void eval(NodeView node, In<"i0", TS<Int>> i0, In<"i1", TS<Int>> i1, NodeScheduler sched, DateTime now,
                         State<Int> st, Out<OutS<SH>> out)
        {
            body_eval(S, node, sched, now, st, out, {snap(i0), snap(i1)});
        }
    };
    template <int S, int SH>
    struct Body<S, 3, SH>
    {
        static constexpr auto name = "hgv_body3";
        static void           start(NodeScheduler sched, DateTime now) { body_start(S, sched, now); }
        static void eval(NodeView node, In<"i0", TS<Int>> i0, In<"i1", TS<Int>> i1, In<"i2", TS<Int>> i2, NodeScheduler sched,
                         DateTime now, State<Int> st, Out<OutS<SH>> out)
        {
            body_eval(S, node, sched, now, st, out, {snap(i0), snap(i1), snap(i2)});
        }
    };

    // ---- branch graphs: (table slot S, number of outer ts args N, consumes the key K, output shape SH) ----
    // ND = how many times the body is wrapped in a nested graph node (nested_<G>) inside the branch graph
    template <int S, int N, bool K, int SH, int ND> struct Br;
    template <int S, int SH, int ND> struct Br<S, 0, false, SH, ND>
    {
        static constexpr auto  name = "hgv_br0";
        static Port<OutS<SH>>  compose(Wiring &w)
        {
            if constexpr (ND == 0) { return wire<Body<S, 0, SH>>(w); }
            else { return nested_<Br<S, 0, false, SH, ND - 1>>(w); }
        }
    };
    template <int S, int SH, int ND> struct Br<S, 0, true, SH, ND>
    {
        static constexpr auto  name = "hgv_brk0";
        static Port<OutS<SH>>  compose(Wiring &w, NamedPort<"key", TS<Int>> key)
        {
            if constexpr (ND == 0) { return wire<Body<S, 1, SH>>(w, Port<TS<Int>>{key}); }
            else { return nested_<Br<S, 0, true, SH, ND - 1>>(w, Port<TS<Int>>{key}); }
        }
    };
    template <int S, int SH, int ND> struct Br<S, 1, false, SH, ND>
    {
        static constexpr auto  name = "hgv_br1";
        static Port<OutS<SH>>  compose(Wiring &w, Port<TS<Int>> a)
        {
            if constexpr (ND == 0) { return wire<Body<S, 1, SH>>(w, a); }
            else { return nested_<Br<S, 1, false, SH, ND - 1>>(w, a); }
        }
    };
    template <int S, int SH, int ND> struct Br<S, 1, true, SH, ND>
    {
        static constexpr auto  name = "hgv_brk1";
        static Port<OutS<SH>>  compose(Wiring &w, NamedPort<"key", TS<Int>> key, Port<TS<Int>> a)
        {
            if constexpr (ND == 0) { return wire<Body<S, 2, SH>>(w, Port<TS<Int>>{key}, a); }
            else { return nested_<Br<S, 1, true, SH, ND - 1>>(w, Port<TS<Int>>{key}, a); }
        }
    };
    template <int S, int SH, int ND> struct Br<S, 2, false, SH, ND>
    {
        static constexpr auto  name = "hgv_br2";
        static Port<OutS<SH>>  compose(Wiring &w, Port<TS<Int>> a, Port<TS<Int>> b)
        {
            if constexpr (ND == 0) { return wire<Body<S, 2, SH>>(w, a, b); }
            else { return nested_<Br<S, 2, false, SH, ND - 1>>(w, a, b); }
        }
    };
    template <int S, int SH, int ND> struct Br<S, 2, true, SH, ND>
    {
        static constexpr auto  name = "hgv_brk2";
        static Port<OutS<SH>>  compose(Wiring &w, NamedPort<"key", TS<Int>> key, Port<TS<Int>> a, Port<TS<Int>> b)
        {
            if constexpr (ND == 0) { return wire<Body<S, 3, SH>>(w, Port<TS<Int>>{key}, a, b); }
            else { return nested_<Br<S, 2, true, SH, ND - 1>>(w, Port<TS<Int>>{key}, a, b); }
        }
    };

    template <int N, bool K, int SH, int ND, int... S>
    WiredFn pick_slot(int slot, std::integer_sequence<int, S...>)
    {
        WiredFn r{};
        ((slot == S ? (r = fn<Br<S, N, K, SH, ND>>(), 0) : 0), ...);
        return r;
    }
    template <int SH, int ND>
    WiredFn branch_fn_sh(int nts, bool usekey, int slot)
    {
        auto seq = std::make_integer_sequence<int, NSLOT>{};
        switch (nts * 2 + (usekey ? 1 : 0))
        {
            case 0: return pick_slot<0, false, SH, ND>(slot, seq);
            case 1: return pick_slot<0, true, SH, ND>(slot, seq);
            case 2: return pick_slot<1, false, SH, ND>(slot, seq);
            case 3: return pick_slot<1, true, SH, ND>(slot, seq);
            case 4: return pick_slot<2, false, SH, ND>(slot, seq);
            default: return pick_slot<2, true, SH, ND>(slot, seq);
        }
    }
    // nested wrappers are offered for the scalar shape only (keeps the number of instantiations down)
    WiredFn branch_fn(int nts, bool usekey, int slot, int shape, int depth)
    {
        if (shape == 1) { return branch_fn_sh<1, 0>(nts, usekey, slot); }
        if (depth == 1) { return branch_fn_sh<0, 1>(nts, usekey, slot); }
        if (depth == 2) { return branch_fn_sh<0, 2>(nts, usekey, slot); }
        return branch_fn_sh<0, 0>(nts, usekey, slot);
    }

    // ---- "set input" mode (case line "9 1"): a held TSS<Int> input and a body consuming its DELTA statefully ----
    struct SetSrc
    {
        static constexpr auto name = "hgv_set_src";
        static void           start(NodeScheduler sched, DateTime now)
        {
            auto it = g_ctx->setops.lower_bound(us(now));
            if (it != g_ctx->setops.end()) { sched.schedule(dt(it->first)); }
        }
        static void eval(NodeScheduler sched, DateTime now, Out<TSS<Int>> out)
        {
            auto it = g_ctx->setops.find(us(now));
            if (it != g_ctx->setops.end())
            {
                for (auto &[op, v] : it->second) { if (op) { static_cast<void>(out.add(Int{v})); } else { static_cast<void>(out.remove(Int{v})); } }
            }
            auto nx = g_ctx->setops.upper_bound(us(now));
            if (nx != g_ctx->setops.end()) { sched.schedule(dt(nx->first)); }
        }
    };
    // counts the elements ever shown to it as added; emits seen * 100 + size
    template <int S>
    struct SetBody
    {
        static constexpr auto name = "hgv_set_body";
        static void eval(NodeView node, In<"s", TSS<Int>> s, DateTime now, State<Int> seen, Out<TS<Int>> out)
        {
            auto add = s.added(); auto rem = s.removed(); auto vals = s.values();
            std::sort(add.begin(), add.end()); std::sort(rem.begin(), rem.end()); std::sort(vals.begin(), vals.end());
            Line l{56, us(now), inst_of(branch_data(node.graph())), seen.get(), (std::int64_t)add.size(), (std::int64_t)rem.size(),
                   (std::int64_t)vals.size()};
            for (auto v : add) { l.push_back(v); }
            for (auto v : rem) { l.push_back(v); }
            for (auto v : vals) { l.push_back(v); }
            emit(l);
            seen.set(seen.get() + (Int)add.size());
            out.set(Int{seen.get() * 100 + (Int)vals.size()});
        }
    };
    template <int S>
    struct SetBr
    {
        static constexpr auto name = "hgv_set_br";
        static Port<TS<Int>>  compose(Wiring &w, Port<TSS<Int>> s) { return wire<SetBody<S>>(w, s); }
    };
    template <int... S>
    WiredFn set_branch_fn(int slot, std::integer_sequence<int, S...>)
    {
        WiredFn r{};
        ((slot == S ? (r = fn<SetBr<S>>(), 0) : 0), ...);
        return r;
    }

    // ---- recording sink on the switch output ----
    struct Rec
    {
        static constexpr auto name = "hgv_rec";
        static void           eval(In<"x", TS<Int>> x, DateTime now)
        {
            emit({20, us(now), x.valid(), x.modified(), x.valid() ? (std::int64_t)x.value() : 0});
        }
    };

    // recorder on a TSS<Int> switch output: value and delta of the cycle, each sorted
    struct RecS
    {
        static constexpr auto name = "hgv_rec_set";
        static void           eval(In<"x", TSS<Int>> x, DateTime now)
        {
            auto vals = x.values(); auto add = x.added(); auto rem = x.removed();
            std::sort(vals.begin(), vals.end()); std::sort(add.begin(), add.end()); std::sort(rem.begin(), rem.end());
            Line l{21, us(now), x.valid(), x.modified(), (std::int64_t)vals.size(), (std::int64_t)add.size(), (std::int64_t)rem.size()};
            for (auto v : vals) { l.push_back(v); }
            for (auto v : add) { l.push_back(v); }
            for (auto v : rem) { l.push_back(v); }
            emit(l);
        }
    };

    // ---- lifecycle observer: events of the branch graphs ----
    struct Obs : LifecycleObserver
    {
        void on_before_graph_evaluation(const GraphView &g) override
        {
            if (branch_level(g)) { emit({24, us(g.evaluation_time()), inst_of(g.data())}); }
            else if (!g.is_nested()) { emit({10, us(g.evaluation_time())}); }
        }
        void on_before_node_evaluation(const NodeView &n) override
        {
            auto g = n.graph();
            if (branch_level(g)) { emit({25, us(g.evaluation_time()), inst_of(g.data()), (std::int64_t)n.node_index()}); }
            else if (!g.is_nested() && n.node_kind() == NodeKind::Nested) { emit({11, us(g.evaluation_time())}); }
        }
        void on_after_start_graph(const GraphView &g) override
        {
            if (!branch_level(g)) { return; }
            const void *p = g.data();
            g_ctx->inst[p] = g_ctx->ninst++;
            if (!g_ctx->slot.count(p)) { const auto k = (std::int64_t)g_ctx->slot.size(); g_ctx->slot[p] = k; }
            emit({22, us(g.evaluation_time()), inst_of(p), g_ctx->slot[p]});
        }
        void on_after_stop_graph(const GraphView &g) override
        {
            if (!branch_level(g)) { return; }
            const void *p = g.data();
            emit({23, us(g.evaluation_time()), inst_of(p), g_ctx->slot.count(p) ? g_ctx->slot[p] : -1});
        }
    };

    void run_case(const hgv::Case &c, hgv::Out &out)
    {
        stdlib::register_standard_operators();
        Ctx ctx;
        ctx.out = &out;
        g_ctx   = &ctx;
        std::int64_t start = 1, end = 10, nts = 1, reload = 0, shape = 0, depth = 0;
        bool         setin = false;
        struct CaseEnt { std::int64_t key, slot, usekey; };
        std::vector<CaseEnt>   ents;
        std::optional<CaseEnt> dflt;
        for (const Line &l : c)
        {
            if (l[0] == 1 && l.size() >= 3) { start = l[1]; end = l[2]; }
            else if (l[0] == 2 && l.size() >= 3) { nts = l[1]; reload = l[2]; shape = l.size() >= 4 ? l[3] : 0; depth = l.size() >= 5 ? l[4] : 0; }
            else if (l[0] == 3 && l.size() >= 4) { ents.push_back({l[1], l[2], l[3]}); }
            else if (l[0] == 4 && l.size() >= 3) { dflt = CaseEnt{0, l[1], l[2]}; }
            else if (l[0] == 5 && l.size() >= 14 && l[1] >= 0 && l[1] < NSLOT)
            {
                BodySpec &b = ctx.tab[l[1]];
                b.sos = l[2]; b.etick = l[3]; b.ewake = l[4]; b.rtick = l[5]; b.rwake = l[6]; b.d = l[7];
                b.c = l[8]; b.m = l[9]; b.l = l[10]; b.acc = l[11]; b.cnt = l[12]; b.wk = l[13];
                b.erun = l.size() >= 15 ? l[14] : 0;
                b.sd = l.size() >= 16 ? l[15] : 0;
            }
            else if (l[0] == 6 && l.size() >= 4 && l[1] >= 0 && l[1] <= 2) { ctx.src[l[1]].emplace(l[2], l[3]); }
            else if (l[0] == 7 && l.size() >= 4) { ctx.setops[l[1]].push_back({l[2], l[3]}); }
            else if (l[0] == 9 && l.size() >= 2) { setin = l[1] != 0; }
        }
        if (nts < 0 || nts > 2 || shape < 0 || shape > 1 || depth < 0 || depth > 2 || (depth > 0 && shape != 0) || (ents.empty() && !dflt) || start < 1 || start >= end || end > 100000) { out.line({29, 9}); return; }
        for (auto &e : ents) { if (e.slot < 0 || e.slot >= NSLOT) { out.line({29, 9}); return; } }
        if (dflt && (dflt->slot < 0 || dflt->slot >= NSLOT)) { out.line({29, 9}); return; }

        // a nested-body case is run twice: first with the body inlined (reference pass, recorder lines only,
        // re-coded 40/41), then with the body wrapped `depth` times in a nested graph node
        auto run_once = [&](int nd, bool ref) {
        ctx.ref_mode = ref;
        ctx.inst.clear(); ctx.slot.clear(); ctx.ninst = 0;
        try
        {
            Wiring w;
            auto   key = wire<Src<0>>(w);
            stdlib::SwitchCases cases;
            for (auto &e : ents) { cases.cases.push_back(stdlib::SwitchCase{Value{Int{e.key}}, branch_fn((int)nts, e.usekey != 0, (int)e.slot, (int)shape, nd)}); }
            if (dflt) { cases.default_branch = branch_fn((int)nts, dflt->usekey != 0, (int)dflt->slot, (int)shape, nd); }
            cases.reload_on_ticked = reload != 0;
            auto wire_switch = [&]() {
                if (nts == 0) { return wire<stdlib::switch_>(w, key, cases); }
                if (nts == 1)
                {
                    auto a = wire<Src<1>>(w);
                    return wire<stdlib::switch_>(w, key, cases, a);
                }
                auto a = wire<Src<1>>(w);
                auto b = wire<Src<2>>(w);
                return wire<stdlib::switch_>(w, key, cases, a, b);
            };
            if (setin)
            {
                // key + one held TSS<Int> input; every case entry is the delta-consuming body (distinct graph per slot)
                stdlib::SwitchCases sc;
                auto seq = std::make_integer_sequence<int, NSLOT>{};
                for (auto &e : ents) { sc.cases.push_back(stdlib::SwitchCase{Value{Int{e.key}}, set_branch_fn((int)e.slot, seq)}); }
                if (dflt) { sc.default_branch = set_branch_fn((int)dflt->slot, seq); }
                sc.reload_on_ticked = reload != 0;
                auto sset = wire<SetSrc>(w);
                wire<Rec>(w, wire<stdlib::switch_>(w, key, sc, sset).template as<TS<Int>>());
            }
            else
            {
            auto sw = wire_switch();
            if (shape == 1) { wire<RecS>(w, sw.template as<TSS<Int>>()); }
            else { wire<Rec>(w, sw.template as<TS<Int>>()); }
            }
            GraphBuilder gb = std::move(w).finish();

            Obs                  obs;
            GraphExecutorBuilder eb;
            eb.graph_builder(std::move(gb)).start_time(dt(start)).end_time(dt(end)).add_lifecycle_observer(&obs);
            GraphExecutorValue executor = eb.make_executor();
            auto               ev       = executor.view();
            try { ev.run(); }
            catch (const std::exception &e)
            {
                const std::string wh   = e.what();
                std::int64_t      code = 1;
                if (wh.find("no branch is registered") != std::string::npos) { code = 2; }
                else if (wh.find("in the past") != std::string::npos) { code = 3; }
                else if (wh.find("does not occupy the reusable slot") != std::string::npos) { code = 4; }
                emit({29, code});
                if (code == 1) { std::fprintf(stderr, "error: %s\n", wh.c_str()); }
            }
            // final state of the switch output
            auto g = ev.graph();
            for (std::size_t i = 0; i < g.node_count(); ++i)
            {
                auto n = g.node_at(i);
                if (n.node_kind() != NodeKind::Nested) { continue; }
                auto       o     = n.output(dt(end));
                const bool valid = o.valid();
                if (shape == 1)
                {
                    std::vector<std::int64_t> vals;
                    if (valid) { for (const auto &v : o.as_set().values()) { vals.push_back(v.template checked_as<std::int64_t>()); } }
                    std::sort(vals.begin(), vals.end());
                    Line l{31, valid, us(o.last_modified_time()), (std::int64_t)vals.size()};
                    for (auto v : vals) { l.push_back(v); }
                    emit(l);
                }
                else { emit({30, valid, valid ? o.value().checked_as<std::int64_t>() : 0, us(o.last_modified_time())}); }
            }
        }
        catch (const std::exception &e)
        {
            out.line({28, 1});
            std::fprintf(stderr, "build error: %s\n", e.what());
        }
        };
        if (depth > 0 && !setin) { run_once(0, true); }
        run_once((int)depth, false);
        g_ctx = nullptr;
    }
}  // namespace

int main(int argc, char **argv)
{
    if (argc < 2) { std::fprintf(stderr, "usage: switch_driver <batch>\n"); return 2; }
    auto     batch = hgv::read_batch(argv[1]);
    hgv::Out out;
    for (const auto &c : batch)
    {
        run_case(c, out);
        out.end_case();
    }
    return 0;
}
