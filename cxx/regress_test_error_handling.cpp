#include <../tests/cpp/test_error_handling.cpp>
