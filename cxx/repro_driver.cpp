// repro_driver.cpp — family "repro" (property C07: simulation runs are reproducible
// and isolated from each other).
//
// A case carries ONE main program and 1-3 "noise" programs, all in the core case
// format (flat graphs of native nodes over TS<int64>, scripted user code; see
// gen/core.py and cxx/core_driver.cpp) extended with
//   * nodes that read / write / count / erase keys of the run's GlobalState,
//   * nodes with a persistent node State,
//   * a seed GlobalState put on the builder,
//   * a fixed-shape companion graph (a nested child graph with a stateful native
//     node inside, and the standard in-memory recorder writing into the GlobalState),
// and a repetition plan.  The driver runs the main program
//   (a) R times from ONE GraphExecutorBuilder (builder reuse) and F times from fresh builders,
//   (b) with builds and runs of the noise programs interleaved,
//   (c) on T threads concurrently (main and noise programs side by side),
//   (d) with pseudo-random sleeps in the node code (wall-clock speed varies per repetition),
// and prints every repetition's full trace (the observation lines of the core family)
// tagged with the repetition, followed by the keys of that run's GlobalState.
// Every repetition must be byte-identical to repetition 0 (gen/repro.py oracle) and to
// the model (coq/Repro.v run_repro).
//
// All per-run bookkeeping of the DRIVER (run counters, output buffer, sleep rng) lives
// in a RunCtx reached through a thread_local pointer: a simulation run executes entirely
// on the thread that calls run(), so nothing of the driver is shared between runs and
// anything that leaks from one run to another is the library's.
#include "hgv_io.h"

#include <hgraph/lib/testing/runtime_support.h>
#include <hgraph/runtime/global_state.h>
#include <hgraph/runtime/lifecycle_observer.h>
#include <hgraph/runtime/nested_graph_node.h>
#include <hgraph/runtime/node_scheduler.h>
#include <hgraph/runtime/runtime.h>
#include <hgraph/types/graph_wiring.h>
#include <hgraph/types/metadata/type_registry.h>
#include <hgraph/types/value/value.h>

#include <algorithm>
#include <atomic>
#include <condition_variable>
#include <mutex>
#include <cstdlib>
#include <chrono>
#include <deque>
#include <map>
#include <memory>
#include <optional>
#include <stdexcept>
#include <thread>

#ifndef HGV_REPRO_NO_RECORD
#include <hgraph/lib/std/operators/impl/record_replay_memory_impl.h>
#include <hgraph/lib/testing/record_replay.h>
#include <hgraph/types/static_node.h>
#endif

namespace hgraph::stdlib { void register_json_operators() {} }

using namespace hgraph;
using hgv::Line;

namespace
{
    std::int64_t us(DateTime t) { return t.time_since_epoch().count(); }
    DateTime     dt(std::int64_t v) { return DateTime{TimeDelta{v}}; }

    // wire value of the activity: 0 passive, 1 active, 2 active + wiring-time passive marker, 3 passive + marker
    // (same as cxx/core_driver.cpp; the generator never produces a marker set the builder refuses)
    struct InSpec { std::size_t src; bool active; bool required; bool marked; };
    struct Op { std::int64_t code, a, b; };
    struct GsOp { std::int64_t mode, key, val; };
    struct NodeSpec
    {
        bool                                     uses_sched{false}, sched_on_start{false}, has_out{false};
        int                                      valid_mode{0};
        std::vector<InSpec>                      ins;
        std::map<std::int64_t, std::vector<Op>>  scripts;  // k -> ops; -1 start; -2 default
        std::vector<GsOp>                        gsops;    // performed at every user-code run
        bool                                     has_state{false};
        std::int64_t                             state_add{0};
    };

    // companion graph: source -> nested(child: stateful accumulator) -> recorder + sink
    struct Companion
    {
        bool                                                present{false};
        std::int64_t                                        bias{0};
        std::vector<std::pair<std::int64_t, std::int64_t>>  emissions;  // (offset from start, value), offsets strictly increasing
    };

    struct Prog
    {
        std::int64_t                                        start{1}, end{10};
        std::vector<NodeSpec>                               nodes;
        std::vector<std::pair<std::int64_t, std::int64_t>>  seeds;
        Companion                                           comp;
        std::vector<Line>                                   specs;       // lines 10: parametrised schemas to request
        std::int64_t                                        chain_runs{0};  // line 11: chained companion runs
        bool                                                chain_sparse{false};
        std::int64_t                                        wiring_sources{0}, wiring_builds{0}, wiring_seed{0};  // line 12
        std::vector<std::int64_t>                           ctx_chain_erase;   // line 14: keys the middle run of the context chain erases
        bool                                                ctx_chain{false};
        std::int64_t                                        alarm_polls{0}, alarm_interval{0}, alarm_burn{0};  // line 15
        std::int64_t                                        context_variant{-1};  // line 13: -1 none, 0 B without context, 1 B own context
    };

    // lets a run be parked inside its first user-code evaluation (the GlobalContext phase)
    struct Blocker
    {
        std::mutex              mutex;
        std::condition_variable changed;
        bool                    entered{false}, release{false};
        void hit()
        {
            std::unique_lock lock{mutex};
            if (entered) { return; }
            entered = true;
            changed.notify_all();
            changed.wait_for(lock, std::chrono::seconds{10}, [&] { return release; });
        }
        void finished()
        {
            std::lock_guard lock{mutex};
            entered = true;
            changed.notify_all();
        }
        void wait_entered()
        {
            std::unique_lock lock{mutex};
            changed.wait_for(lock, std::chrono::seconds{10}, [&] { return entered; });
        }
        void let_go()
        {
            std::lock_guard lock{mutex};
            release = true;
            changed.notify_all();
        }
    };

    struct RunCtx
    {
        Blocker                  *blocker{nullptr};
        const Prog               *prog{nullptr};
        hgv::Out                  out;
        std::vector<std::int64_t> runs;
        std::uint64_t             rng{0};
        int                       sleeps_left{0};
        std::size_t               comp_next{0};
    };

    thread_local RunCtx *tl_run = nullptr;

    std::string key_name(std::int64_t k) { return "k" + std::to_string(k); }

    void maybe_sleep(RunCtx &r)
    {
        if (r.sleeps_left <= 0) { return; }
        r.rng = r.rng * 6364136223846793005ULL + 1442695040888963407ULL;
        const std::uint64_t x = r.rng >> 33;
        if (x % 4 != 0) { return; }
        --r.sleeps_left;
        std::this_thread::sleep_for(std::chrono::microseconds((x >> 2) % 201));
    }

    const std::string &tag_name(std::int64_t t)
    {
        static const std::string names[] = {"", "a", "b", "c", "d"};
        return names[t < 0 || t > 4 ? 0 : t];
    }

    void snapshot(hgv::Out &out, std::int64_t code, std::size_t i, DateTime now, std::int64_t k, const NodeScheduler &s,
                  std::int64_t extra)
    {
        out.line({code, (std::int64_t)i, us(now), k, us(s.next_scheduled_time()), s.is_scheduled(), s.is_scheduled_now(),
                  s.has_tag("a"), us(s.tag_time("a")), s.tag_is_scheduled_now("a"),
                  s.has_tag("b"), us(s.tag_time("b")), s.tag_is_scheduled_now("b"),
                  s.has_tag("c"), us(s.tag_time("c")), s.tag_is_scheduled_now("c"), extra});
    }

    // the run this callback belongs to; a callback of program P invoked while the thread runs
    // another program is itself a violation (reported as line 99)
    RunCtx &run_of(const Prog *p)
    {
        RunCtx *r = tl_run;
        if (r == nullptr) { throw std::logic_error("hgv: node callback outside a run"); }
        if (r->prog != p) { r->out.line({99, 1}); }
        return *r;
    }

    void run_ops(const Prog *p, std::size_t i, const NodeView &view, DateTime now, bool started, std::int64_t k)
    {
        RunCtx         &r  = run_of(p);
        const NodeSpec &n  = p->nodes[i];
        auto            it = n.scripts.find(k);
        if (it == n.scripts.end() && k >= 0) { it = n.scripts.find(-2); }
        if (it == n.scripts.end()) { return; }
        std::optional<NodeScheduler> sched;
        if (n.uses_sched) { sched.emplace(view.scheduler_state(), view.graph_value(), i, now, started); }
        std::int64_t opi = 0;
        for (const Op &op : it->second)
        {
            std::int64_t extra = 0;
            switch (op.code)
            {
                case 1: if (sched) { sched->schedule(dt(us(now) + op.a), op.b == 0 ? std::nullopt : std::optional<std::string>{tag_name(op.b)}); } break;
                case 2: if (sched) { sched->un_schedule(tag_name(op.b)); } break;
                case 3: if (sched) { sched->un_schedule(); } break;
                case 4: if (sched) { extra = us(sched->pop_tag(tag_name(op.b))); } break;
                case 5: if (sched) { sched->reset(); } break;
                case 6:
                {
                    if (!n.has_out || !started) { break; }
                    std::int64_t v = op.a;
                    if (!n.ins.empty())
                    {
                        auto root   = view.input(now);
                        auto bundle = root.as_bundle();
                        for (std::size_t s = 0; s < n.ins.size(); ++s)
                        {
                            auto in = bundle[s];
                            if (in.valid()) { v += in.value().template checked_as<std::int64_t>(); }
                        }
                    }
                    {
                        auto mutation = view.output(now).begin_mutation(now);
                        static_cast<void>(mutation.move_value_from(Value{v}));
                    }
                    r.out.line({14, (std::int64_t)i, us(now), v});
                    break;
                }
                case 7: view.graph_value()->schedule_node(i, dt(us(now) + op.a)); break;
                case 8: throw std::runtime_error("hgv boom");
                case 9:
                case 10:
                {
                    // run-time activation (same as cxx/core_driver.cpp)
                    if (op.a < 0 || (std::size_t)op.a >= n.ins.size()) { break; }
                    auto root   = view.input(now);
                    auto bundle = root.as_bundle();
                    auto in     = bundle[(std::size_t)op.a];
                    if (op.code == 9) { in.make_passive(); } else { in.make_active(); }
                    break;
                }
                case 11:
                {
                    // the producer invalidates its own output (same as cxx/core_driver.cpp)
                    if (!n.has_out || !started) { break; }
                    bool did = false;
                    {
                        auto mutation = view.output(now).begin_mutation(now);
                        did = mutation.invalidate();
                    }
                    r.out.line({16, (std::int64_t)i, us(now), did});
                    break;
                }
                default: break;
            }
            if (sched && op.code >= 1 && op.code <= 5) { snapshot(r.out, 13, i, now, opi, *sched, extra); }
            ++opi;
        }
    }

    // node State and GlobalState operations of one user-code run (lines 23 / 20 / 21 / 22)
    void run_state_ops(const Prog *p, std::size_t i, const NodeView &view, DateTime now)
    {
        RunCtx         &r = run_of(p);
        const NodeSpec &n = p->nodes[i];
        if (n.has_state)
        {
            const std::int64_t next = view.state().checked_as<std::int64_t>() + n.state_add + us(now);
            {
                auto m = view.state().begin_mutation();
                m.set_scalar(next);
            }
            r.out.line({23, (std::int64_t)i, us(now), view.state().checked_as<std::int64_t>()});
        }
        if (n.gsops.empty()) { return; }
        // even nodes declare uses_global_state (cached view in node storage), odd ones go through the graph
        GlobalStateView gs = (i % 2 == 0) ? view.global_state() : view.graph().global_state();
        for (const GsOp &g : n.gsops)
        {
            const std::string key = key_name(g.key);
            switch (g.mode)
            {
                case 0:
                {
                    const std::int64_t v = g.val + us(now);
                    gs.set(key, Value{v});
                    r.out.line({20, (std::int64_t)i, us(now), g.key, v});
                    break;
                }
                case 1:
                {
                    ValueView      cur     = gs.get(key);
                    const bool     present = cur.valid();
                    r.out.line({21, (std::int64_t)i, us(now), g.key, present, present ? cur.checked_as<std::int64_t>() : 0});
                    break;
                }
                case 2:
                {
                    ValueView          cur = gs.get(key);
                    const std::int64_t v   = (cur.valid() ? cur.checked_as<std::int64_t>() : 0) + g.val;
                    gs.set(key, Value{v});
                    r.out.line({20, (std::int64_t)i, us(now), g.key, v});
                    break;
                }
                case 3:
                {
                    const bool removed = gs.erase(key);
                    r.out.line({22, (std::int64_t)i, us(now), g.key, removed});
                    break;
                }
                default: break;
            }
        }
    }

    struct Obs : LifecycleObserver
    {
        void on_before_graph_evaluation(const GraphView &g) override
        {
            if (tl_run == nullptr || g.parent_kind() == GraphParentKind::Nested) { return; }
            tl_run->out.line({10, us(g.evaluation_time())});
        }
        void on_before_node_evaluation(const NodeView &n) override
        {
            if (tl_run == nullptr || n.graph().parent_kind() == GraphParentKind::Nested) { return; }
            tl_run->out.line({11, (std::int64_t)n.node_index(), us(n.graph().evaluation_time())});
        }
    };
    Obs g_obs;

    struct Types
    {
        const ValueTypeMetaData   *int_meta{nullptr};
        const TSValueTypeMetaData *ts_int{nullptr};
    };

    Types types()
    {
        auto &registry = TypeRegistry::instance();
        Types t;
        t.int_meta = registry.register_scalar<std::int64_t>("int64");
        t.ts_int   = registry.ts(t.int_meta);
        return t;
    }

    // ------------------------------------------------------------------ main / noise program graph
    GraphBuilder build_graph(const Prog *p)
    {
        auto       &registry = TypeRegistry::instance();
        const Types ty       = types();
        GraphBuilder gb;
        for (std::size_t i = 0; i < p->nodes.size(); ++i)
        {
            const NodeSpec  &n = p->nodes[i];
            NodeTypeMetaData schema;
            schema.display_name      = "hgv_node";
            schema.uses_scheduler    = n.uses_sched;
            schema.schedule_on_start = n.sched_on_start;
            schema.uses_global_state = !n.gsops.empty() && i % 2 == 0;
            if (n.has_state) { schema.state_schema = ty.int_meta; }
            if (n.has_out) { schema.output_schema = ty.ts_int; }
            schema.node_kind = n.ins.empty() ? NodeKind::PullSource : (n.has_out ? NodeKind::Compute : NodeKind::Sink);
            std::optional<TSEndpointSchema> endpoint;
            if (!n.ins.empty())
            {
                std::vector<std::pair<std::string, const TSValueTypeMetaData *>> fields;
                std::vector<TSEndpointSchema>                                    children;
                std::vector<std::size_t>                                         active, valid;
                bool                                                             all_active = true;
                for (std::size_t s = 0; s < n.ins.size(); ++s)
                {
                    fields.emplace_back("i" + std::to_string(s), ty.ts_int);
                    children.push_back(TSEndpointSchema::peered(ty.ts_int));
                    if (n.ins[s].active) { active.push_back(s); } else { all_active = false; }
                    if (n.ins[s].required) { valid.push_back(s); }
                }
                const auto *in_schema = registry.un_named_tsb(fields);
                schema.input_schema   = in_schema;
                if (!all_active) { schema.active_inputs = active; }
                if (n.valid_mode == 1) { schema.valid_inputs = valid; }
                endpoint = TSEndpointSchema::non_peered(in_schema, std::move(children));
            }
            NodeCallbacks cb;
            cb.start    = [p, i](const NodeView &v, DateTime t) { run_ops(p, i, v, t, false, -1); };
            cb.evaluate = [p, i](const NodeView &v, DateTime t) {
                RunCtx            &r = run_of(p);
                const NodeSpec    &n = p->nodes[i];
                const std::int64_t k = r.runs[i]++;
                maybe_sleep(r);
                if (r.blocker != nullptr) { r.blocker->hit(); }
                Line l{12, (std::int64_t)i, us(t), k};
                if (n.uses_sched)
                {
                    NodeScheduler s{v.scheduler_state(), v.graph_value(), i, t, true};
                    l.push_back(s.is_scheduled_now());
                    l.push_back(us(s.next_scheduled_time()));
                }
                else { l.push_back(0); l.push_back(0); }
                if (!n.ins.empty())
                {
                    auto root   = v.input(t);
                    auto bundle = root.as_bundle();
                    for (std::size_t s = 0; s < n.ins.size(); ++s)
                    {
                        auto       in    = bundle[s];
                        const bool valid = in.valid();
                        l.push_back(valid);
                        l.push_back(in.modified());
                        l.push_back(valid ? in.value().template checked_as<std::int64_t>() : 0);
                        l.push_back(us(in.last_modified_time()));
                    }
                }
                r.out.line(l);
                run_state_ops(p, i, v, t);
                run_ops(p, i, v, t, true, k);
                maybe_sleep(r);
            };
            std::vector<std::size_t> marked;
            for (std::size_t s = 0; s < n.ins.size(); ++s) { if (n.ins[s].marked) { marked.push_back(s); } }
            NodeBuilder nb = endpoint ? NodeBuilder::native(std::move(schema), std::move(cb), std::move(*endpoint))
                                      : NodeBuilder::native(std::move(schema), std::move(cb));
            if (!marked.empty()) { nb = nb.with_passive_inputs(marked); }
            gb.add_node(std::move(nb));
        }
        for (std::size_t i = 0; i < p->nodes.size(); ++i)
        {
            for (std::size_t s = 0; s < p->nodes[i].ins.size(); ++s)
            {
                gb.add_edge(GraphEdge{.source_node = p->nodes[i].ins[s].src, .source_path = {}, .target_node = i, .target_path = {s}});
            }
        }
        auto gs = gb.global_state();
        for (const auto &[k, v] : p->seeds) { gs.set(key_name(k), Value{v}); }
        return gb;
    }

    GraphExecutorBuilder make_builder(const Prog *p)
    {
        GraphExecutorBuilder eb;
        eb.graph_builder(build_graph(p)).start_time(dt(p->start)).end_time(dt(p->end)).add_lifecycle_observer(&g_obs);
        return eb;
    }

    // GlobalState of a finished run: every key (24 key value; keys that are not ours print as -1), then the size (25)
    void dump_global_state(GlobalStateView gs, hgv::Out &out, std::int64_t skip_key = -1)
    {
        std::vector<std::pair<std::int64_t, std::int64_t>> kv;
        auto                                               map = gs.as_value().view().as_map();
        std::int64_t                                       n   = 0;
        for (const auto &k : map.keys())
        {
            const std::string &name = k.template checked_as<std::string>();
            std::int64_t       id   = -1;
            if (name.size() > 1 && name[0] == 'k') { try { id = std::stoll(name.substr(1)); } catch (...) { id = -1; } }
            if (id == skip_key && skip_key >= 0) { continue; }
            ++n;
            std::int64_t val = 0;
            if (id >= 0)
            {
                ValueView v = gs.get(name);
                val         = v.valid() ? v.checked_as<std::int64_t>() : 0;
            }
            kv.emplace_back(id, val);
        }
        std::sort(kv.begin(), kv.end());
        for (const auto &[k, v] : kv) { out.line({24, k, v}); }
        out.line({25, n});
    }

    void run_executor(const Prog *p, GraphExecutorValue &executor, RunCtx &r)
    {
        tl_run = &r;
        auto ev = executor.view();
        try { ev.run(); }
        catch (const std::exception &e)
        {
            const std::string w    = e.what();
            std::int64_t      code = 1;
            if (w.find("hgv boom") != std::string::npos) { code = 2; }
            else if (w.find("in the past") != std::string::npos) { code = 3; }
            r.out.line({19, code});
            if (code == 1) { std::fprintf(stderr, "error: %s\n", w.c_str()); }
        }
        tl_run = nullptr;
        auto g = ev.graph();
        for (std::size_t i = 0; i < p->nodes.size(); ++i)
        {
            if (!p->nodes[i].has_out) { continue; }
            auto       o     = g.node_at(i).output(dt(p->end));
            const bool valid = o.valid();
            r.out.line({15, (std::int64_t)i, valid, valid ? o.value().checked_as<std::int64_t>() : 0, us(o.last_modified_time())});
        }
        dump_global_state(g.global_state(), r.out);
    }

    RunCtx fresh_ctx(const Prog *p, std::uint64_t sleep_seed, std::uint64_t ordinal)
    {
        RunCtx r;
        r.prog = p;
        r.runs.assign(p->nodes.size(), 0);
        r.rng         = sleep_seed * 0x9E3779B97F4A7C15ULL + ordinal * 0xD1B54A32D192ED03ULL + 1;
        r.sleeps_left = sleep_seed == 0 ? 0 : 6;
        return r;
    }

    // ------------------------------------------------------------------ companion graph (nested child + recorder)
    //   node 0  source: emits the scripted values at start + offset (graph.schedule_node on itself)
    //   node 1  single_nested_graph_node over a child graph with ONE stateful native node:
    //           acc (node State) += input + bias; out = acc
    //   node 2  sink: prints 31 t value; also counts in the run's GlobalState under key 900
    //   + (Wiring variant) the standard dense in-memory recorder on node 1's output under key "rec"
    constexpr std::int64_t comp_count_key = 900;

    NodeBuilder comp_source(const Prog *p, const Types &ty)
    {
        NodeTypeMetaData schema;
        schema.display_name      = "hgv_comp_source";
        schema.output_schema     = ty.ts_int;
        schema.node_kind         = NodeKind::PullSource;
        schema.schedule_on_start = false;
        NodeCallbacks cb;
        cb.start = [p](const NodeView &v, DateTime t) {
            if (!p->comp.emissions.empty()) { v.graph_value()->schedule_node(v.node_index(), dt(us(t) + p->comp.emissions[0].first)); }
        };
        cb.evaluate = [p](const NodeView &v, DateTime t) {
            RunCtx &r = run_of(p);
            maybe_sleep(r);
            const auto &em = p->comp.emissions;
            if (r.comp_next >= em.size()) { return; }
            testing::set_output_value(v, t, Value{em[r.comp_next].second});
            ++r.comp_next;
            if (r.comp_next < em.size()) { v.graph_value()->schedule_node(v.node_index(), dt(p->start + em[r.comp_next].first)); }
        };
        return NodeBuilder::native(std::move(schema), std::move(cb));
    }

    NodeBuilder comp_nested(const Prog *p, const Types &ty)
    {
        auto       &registry  = TypeRegistry::instance();
        const auto *in_schema = registry.un_named_tsb({{"in", ty.ts_int}});
        // the child: one stateful accumulator
        NodeTypeMetaData cs;
        cs.display_name  = "hgv_comp_acc";
        cs.input_schema  = in_schema;
        cs.output_schema = ty.ts_int;
        cs.state_schema  = ty.int_meta;
        cs.node_kind     = NodeKind::Compute;
        NodeCallbacks cb;
        cb.evaluate = [p](const NodeView &v, DateTime t) {
            RunCtx &r = run_of(p);
            maybe_sleep(r);
            auto               root   = v.input(t);
            auto               bundle = root.as_bundle();
            auto               in     = bundle[0];
            const std::int64_t x      = in.valid() ? in.value().template checked_as<std::int64_t>() : 0;
            const std::int64_t next   = v.state().checked_as<std::int64_t>() + x + p->comp.bias;
            {
                auto m = v.state().begin_mutation();
                m.set_scalar(next);
            }
            testing::set_output_value(v, t, Value{next});
            r.out.line({30, us(t), x, next});
        };
        GraphBuilder child;
        child.label("hgv_comp_child")
            .add_node(NodeBuilder::native(std::move(cs), std::move(cb), testing::single_input_endpoint(*in_schema, *ty.ts_int)));

        NodeTypeMetaData meta;
        meta.display_name  = "hgv_comp_nested";
        meta.input_schema  = in_schema;
        meta.output_schema = ty.ts_int;
        SingleNestedGraphNodeSpec spec;
        spec.graph_builder = std::move(child);
        spec.input_bindings.push_back(NestedGraphInputBinding{
            .source_path = {0},
            .target      = NestedGraphEndpoint{.node = 0, .path = {0}},
        });
        spec.output_binding = NestedGraphOutputBinding{.source = NestedGraphEndpoint{.node = 0}};
        return single_nested_graph_node(std::move(meta), std::move(spec));
    }

    NodeBuilder comp_sink(const Prog *p, const Types &ty)
    {
        auto       &registry  = TypeRegistry::instance();
        const auto *in_schema = registry.un_named_tsb({{"in", ty.ts_int}});
        NodeTypeMetaData schema;
        schema.display_name = "hgv_comp_sink";
        schema.input_schema = in_schema;
        schema.node_kind    = NodeKind::Sink;
        NodeCallbacks cb;
        cb.evaluate = [p](const NodeView &v, DateTime t) {
            RunCtx &r      = run_of(p);
            auto    root   = v.input(t);
            auto    bundle = root.as_bundle();
            auto    in     = bundle[0];
            auto    gs     = v.graph().global_state();
            ValueView          cur = gs.get(key_name(comp_count_key));
            const std::int64_t c   = (cur.valid() ? cur.checked_as<std::int64_t>() : 0) + 1;
            gs.set(key_name(comp_count_key), Value{c});
            r.out.line({31, us(t), in.valid() ? in.value().template checked_as<std::int64_t>() : 0, c});
        };
        return NodeBuilder::native(std::move(schema), std::move(cb), testing::single_input_endpoint(*in_schema, *ty.ts_int));
    }

#ifndef HGV_REPRO_NO_RECORD
    struct CompSourceTag {};
    struct CompNestedTag {};
    struct CompSinkTag {};
#endif

    // the companion graph; `sparse` selects the recorder's (time, delta) layout instead of the cycle-aligned one
    GraphBuilder make_comp_graph(const Prog *p, bool sparse, bool continuation = false)
    {
        const Types ty = types();
#ifndef HGV_REPRO_NO_RECORD
        Wiring        w;
        WiringPortRef src = w.add_unique_node(std::type_index(typeid(CompSourceTag)), comp_source(p, ty),
                                              std::span<const WiringPortRef>{}, Value{});
        std::vector<WiringPortRef> nin{src};
        WiringPortRef nested = w.add_unique_node(std::type_index(typeid(CompNestedTag)), comp_nested(p, ty),
                                                 std::span<const WiringPortRef>{nin}, Value{});
        std::vector<WiringPortRef> sin{nested};
        w.add_unique_node(std::type_index(typeid(CompSinkTag)), comp_sink(p, ty), std::span<const WiringPortRef>{sin}, Value{});
        if (sparse) { wire<stdlib::dense_record_impl>(w, Port<TS<Int>>{w, WiringPortRef{nested}}, Str{"rec"}, Bool{true}); }
        else { wire<stdlib::dense_record_impl>(w, Port<TS<Int>>{w, WiringPortRef{nested}}, Str{"rec"}); }
        // the persistent :memory: recorder, documented to APPEND across runs that continue on the same GlobalState
        if (continuation) { wire<stdlib::sparse_record_impl>(w, Port<TS<Int>>{w, WiringPortRef{nested}}, Str{"cont"}); }
        GraphBuilder gb = std::move(w).finish();
#else
        static_cast<void>(sparse); static_cast<void>(continuation);
        GraphBuilder gb;
        gb.add_node(comp_source(p, ty)).add_node(comp_nested(p, ty)).add_node(comp_sink(p, ty));
        gb.add_edge(GraphEdge{.source_node = 0, .source_path = {}, .target_node = 1, .target_path = {0}});
        gb.add_edge(GraphEdge{.source_node = 1, .source_path = {}, .target_node = 2, .target_path = {0}});
#endif
        return gb;
    }

    GraphExecutorBuilder make_comp_builder(const Prog *p)
    {
        GraphBuilder gb = make_comp_graph(p, false);
        auto         gs = gb.global_state();
        for (const auto &[k, v] : p->seeds) { gs.set(key_name(k), Value{v}); }
        GraphExecutorBuilder eb;
        eb.graph_builder(std::move(gb)).start_time(dt(p->start)).end_time(dt(p->end));
        return eb;
    }

    // the recorded buffer of a finished companion run: dense 32 index 1 value / sparse 34 cycle value; 33 entries
    void print_recording(GlobalStateView gs, bool sparse, hgv::Out &out)
    {
#ifndef HGV_REPRO_NO_RECORD
        try
        {
            if (sparse)
            {
                const auto rec = testing::get_recorded_sparse(gs, "rec");
                for (const auto &[cycle, delta] : rec) { out.line({34, (std::int64_t)cycle, (std::int64_t)delta.view().checked_as<Int>()}); }
                out.line({33, (std::int64_t)rec.size()});
            }
            else
            {
                const auto   rec = testing::get_recorded_values<Int>(gs, "rec");
                std::int64_t idx = 0;
                for (const auto &v : rec)
                {
                    if (v.has_value()) { out.line({32, idx, 1, (std::int64_t)*v}); }
                    ++idx;
                }
                out.line({33, (std::int64_t)rec.size()});
            }
        }
        catch (const std::exception &e)
        {
            out.line({19, 4});
            std::fprintf(stderr, "companion read-back error: %s\n", e.what());
        }
#else
        static_cast<void>(gs); static_cast<void>(sparse); static_cast<void>(out);
#endif
    }

    void run_companion(const Prog *p, GraphExecutorValue &executor, RunCtx &r)
    {
        tl_run = &r;
        auto ev = executor.view();
        try { ev.run(); }
        catch (const std::exception &e)
        {
            r.out.line({19, 1});
            std::fprintf(stderr, "companion error: %s\n", e.what());
        }
        tl_run = nullptr;
        auto gs = ev.graph().global_state();
        print_recording(gs, false, r.out);
        dump_global_state(gs, r.out);
    }

    // the continuation recording (":memory:<recordable id>.cont", appended across chained runs): 35 cycle value; 36 entries
    void print_continuation(GlobalStateView gs, hgv::Out &out)
    {
#ifndef HGV_REPRO_NO_RECORD
        try
        {
            std::string full;
            for (const auto &k : gs.as_value().view().as_map().keys())
            {
                const std::string &name = k.template checked_as<std::string>();
                if (name.rfind(":memory:", 0) == 0 && name.size() >= 5 && name.compare(name.size() - 5, 5, ".cont") == 0) { full = name; }
            }
            if (full.empty()) { out.line({36, 0}); return; }
            const auto rec = testing::get_recorded_sparse(gs, full);
            for (const auto &[cycle, delta] : rec) { out.line({35, (std::int64_t)cycle, (std::int64_t)delta.view().checked_as<Int>()}); }
            out.line({36, (std::int64_t)rec.size()});
        }
        catch (const std::exception &e)
        {
            out.line({19, 4});
            std::fprintf(stderr, "continuation read-back error: %s\n", e.what());
        }
#else
        static_cast<void>(gs); static_cast<void>(out);
#endif
    }

    // ------------------------------------------------------------------ parametrised schemas (lines 10 <spec>)
    // spec := 0 s (TS[s]) | 1 s (TSS[s]) | 2 s spec (TSD[s, spec]) | 3 n spec (TSL[spec, n]) | 4 s period min_period (TSW)
    //       | 5 nf (name spec)* (un-named TSB, field "f<name>") | 6 spec (REF[spec]);   scalars s: 0 int64, 1 double, 2 bool
    const ValueTypeMetaData *scalar_of(std::int64_t id)
    {
        auto &registry = TypeRegistry::instance();
        switch (id)
        {
            case 0: return registry.register_scalar<std::int64_t>("int64");
            case 1: return registry.register_scalar<double>("float");
            case 2: return registry.register_scalar<bool>("bool");
            default: throw std::invalid_argument("hgv: unknown scalar id");
        }
    }

    const TSValueTypeMetaData *build_type(const Line &l, std::size_t &pos)
    {
        auto              &registry = TypeRegistry::instance();
        const std::int64_t kind     = l.at(pos++);
        switch (kind)
        {
            case 0: return registry.ts(scalar_of(l.at(pos++)));
            case 1: return registry.tss(scalar_of(l.at(pos++)));
            case 2: { const auto *k = scalar_of(l.at(pos++)); const auto *v = build_type(l, pos); return registry.tsd(k, v); }
            case 3: { const std::int64_t n = l.at(pos++); const auto *e = build_type(l, pos); return registry.tsl(e, (std::size_t)n); }
            case 4:
            {
                const auto *sc = scalar_of(l.at(pos++));
                const std::int64_t period = l.at(pos++), minp = l.at(pos++);
                return registry.tsw(sc, (std::size_t)period, (std::size_t)minp);
            }
            case 5:
            {
                const std::int64_t nf = l.at(pos++);
                std::vector<std::pair<std::string, const TSValueTypeMetaData *>> fields;
                for (std::int64_t f = 0; f < nf; ++f)
                {
                    const std::int64_t name = l.at(pos++);
                    fields.emplace_back("f" + std::to_string(name), build_type(l, pos));
                }
                return registry.un_named_tsb(fields);
            }
            case 6: return registry.ref(build_type(l, pos));
            default: throw std::invalid_argument("hgv: unknown schema kind");
        }
    }

    std::int64_t scalar_id(const ValueTypeMetaData *m)
    {
        for (std::int64_t id = 0; id < 3; ++id) { if (m == scalar_of(id)) { return id; } }
        return -1;
    }

    // what the schema the registry handed out SAYS it is, in the spec encoding
    void describe(const TSValueTypeMetaData *m, Line &out)
    {
        auto &registry = TypeRegistry::instance();
        if (m == nullptr) { out.push_back(-9); return; }
        switch (m->kind)
        {
            case TSTypeKind::TS: out.push_back(0); out.push_back(scalar_id(m->value_type)); break;
            case TSTypeKind::TSS:
            {
                std::int64_t id = -1;
                for (std::int64_t s = 0; s < 3; s += 2) { if (m->value_type == registry.set(scalar_of(s))) { id = s; } }
                out.push_back(1); out.push_back(id);
                break;
            }
            case TSTypeKind::TSD: out.push_back(2); out.push_back(scalar_id(m->key_type())); describe(m->element_ts(), out); break;
            case TSTypeKind::TSL: out.push_back(3); out.push_back((std::int64_t)m->fixed_size()); describe(m->element_ts(), out); break;
            case TSTypeKind::TSW:
                out.push_back(4); out.push_back(scalar_id(m->value_type));
                out.push_back((std::int64_t)m->period()); out.push_back((std::int64_t)m->min_period());
                break;
            case TSTypeKind::TSB:
                out.push_back(5); out.push_back((std::int64_t)m->field_count());
                for (std::size_t f = 0; f < m->field_count(); ++f)
                {
                    const std::string name = m->fields()[f].name != nullptr ? m->fields()[f].name : "";
                    std::int64_t      id   = -1;
                    if (name.size() > 1 && name[0] == 'f') { try { id = std::stoll(name.substr(1)); } catch (...) { id = -1; } }
                    out.push_back(id);
                    describe(m->fields()[f].type, out);
                }
                break;
            case TSTypeKind::REF: out.push_back(6); describe(m->referenced_ts(), out); break;
            default: out.push_back(-8); break;
        }
    }

    // run-time probe of a tick window TSW[int64, period, min_period]: a source pushes 1, 2, .. on `count` consecutive
    // cycles, a sink prints what it sees:  51 cycle size period min_period valid all_valid (contents)*
    void run_window_probe(const TSValueTypeMetaData *tsw, std::int64_t count, hgv::Out &out)
    {
        const auto *input = testing::single_input_schema(*tsw);
        NodeTypeMetaData ss;
        ss.display_name      = "hgv_window_source";
        ss.output_schema     = tsw;
        ss.node_kind         = NodeKind::PullSource;
        ss.schedule_on_start = true;
        NodeCallbacks sc;
        sc.evaluate = [count](const NodeView &view, DateTime t) {
            const std::int64_t n = us(t) - us(MIN_ST) + 1;
            {
                auto  o        = view.output(t);
                auto  window   = o.as_window();
                auto  mutation = window.begin_mutation(t);
                Value v{n};
                mutation.push(v.view());
            }
            if (n < count) { view.graph_value()->schedule_node(view.node_index(), t + MIN_TD); }
        };
        NodeTypeMetaData ks;
        ks.display_name = "hgv_window_sink";
        ks.input_schema = input;
        ks.node_kind    = NodeKind::Sink;
        NodeCallbacks kc;
        hgv::Out     *po = &out;
        kc.evaluate = [po](const NodeView &view, DateTime t) {
            auto root   = view.input(t);
            auto bundle = root.as_bundle();
            auto in     = bundle[0];
            auto window = in.as_window();
            Line l{51, us(t) - us(MIN_ST), (std::int64_t)window.size(), (std::int64_t)window.period(),
                   (std::int64_t)window.min_period(), in.valid(), in.all_valid()};
            for (std::size_t i = 0; i < window.size(); ++i) { l.push_back(window.at(i).template checked_as<std::int64_t>()); }
            po->line(l);
        };
        GraphBuilder gb;
        gb.add_node(NodeBuilder::native(std::move(ss), std::move(sc)))
            .add_node(NodeBuilder::native(std::move(ks), std::move(kc), testing::single_input_endpoint(*input, *tsw)))
            .add_edge(GraphEdge{.source_node = 0, .source_path = {}, .target_node = 1, .target_path = {0}});
        GraphExecutorBuilder eb;
        eb.graph_builder(std::move(gb)).start_time(MIN_ST).end_time(MIN_ST + TimeDelta{count + 3});
        GraphExecutorValue ex = eb.make_executor();
        ex.view().run();
    }

    // one schema request:  50 section <what the returned schema says it is>;  52 same-pointer-on-second-request;
    // for a top-level int64 tick window additionally the run-time probe (51 lines)
    void probe_schema(std::int64_t section, const Line &spec, hgv::Out &out)
    {
        try
        {
            std::size_t pos  = 1;
            const auto *meta = build_type(spec, pos);
            Line        l{50, section};
            describe(meta, l);
            out.line(l);
            std::size_t pos2 = 1;
            out.line({52, build_type(spec, pos2) == meta});
            if (spec.size() >= 5 && spec[1] == 4 && spec[2] == 0) { run_window_probe(meta, spec[3] + 2, out); }
        }
        catch (const std::exception &e)
        {
            out.line({19, 5});
            std::fprintf(stderr, "schema probe error: %s\n", e.what());
        }
    }

    // ------------------------------------------------------------------ Wiring-built program (line 12): the ranking pass
    // N rank-independent sources, each feeding its own sink; every node appends its id to a string in the run's GlobalState
    // when it evaluates, so that string is the compiled node order (all nodes run in the first cycle, in index order).
#ifndef HGV_REPRO_NO_RECORD
    struct WiredSource
    {
        static constexpr auto name              = "hgv_wired_source";
        static constexpr bool schedule_on_start = true;
        static void eval(Scalar<"id", Int> id, GlobalStateView gs, Out<TS<Int>> out)
        {
            Str trace = gs.get_as<Str>("trace");
            if (!trace.empty()) { trace += ","; }
            trace += std::to_string(id.value());
            gs.set("trace", Value{trace});
            out.set(id.value());
        }
    };

    struct WiredSink
    {
        static constexpr auto name = "hgv_wired_sink";
        static void eval(In<"in", TS<Int>> in, Scalar<"id", Int> id, GlobalStateView gs)
        {
            Str trace = gs.get_as<Str>("trace");
            if (!trace.empty()) { trace += ","; }
            trace += std::to_string(id.value());
            gs.set("trace", Value{trace});
            const Int sum = gs.contains("sum") ? gs.get_as<Int>("sum") : Int{0};
            gs.set("sum", Value{sum + in.value()});
        }
    };

    void wiring_build_and_run(std::int64_t sources, hgv::Out &out)
    {
        Wiring w;
        // sinks of the even sources are wired right after their source, those of the odd sources at the end
        std::vector<std::pair<std::int64_t, decltype(wire<WiredSource>(w, Int{0}))>> later;
        for (std::int64_t id = 1; id <= sources; ++id)
        {
            auto src = wire<WiredSource>(w, Int{id});
            if (id % 2 == 0) { wire<WiredSink>(w, src, Int{100 + id}); }
            else { later.emplace_back(id, src); }
        }
        for (auto &[id, src] : later) { wire<WiredSink>(w, src, Int{100 + id}); }
        GraphBuilder gb = std::move(w).finish();
        gb.global_state().set("trace", Value{Str{}});
        GraphExecutorBuilder eb;
        eb.graph_builder(std::move(gb)).start_time(MIN_ST).end_time(MIN_ST + TimeDelta{5});
        GraphExecutorValue ex = eb.make_executor();
        auto               ev = ex.view();
        ev.run();
        const GlobalStateView gs = ev.graph().global_state();
        Line                  l{60};
        const Str             trace = gs.get_as<Str>("trace");
        std::size_t           pos   = 0;
        while (pos < trace.size())
        {
            const std::size_t comma = trace.find(',', pos);
            l.push_back(std::stoll(trace.substr(pos, comma == std::string::npos ? std::string::npos : comma - pos)));
            if (comma == std::string::npos) { break; }
            pos = comma + 1;
        }
        out.line(l);
        out.line({61, (std::int64_t)ev.graph().node_count(), gs.contains("sum") ? (std::int64_t)gs.get_as<Int>("sum") : -1});
    }
#endif

    // ------------------------------------------------------------------ wall-clock alarm requested in SIMULATION (line 15)
    // the classic interval-polling idiom of a STATIC node (injected NodeScheduler): schedule(interval, "poll", on_wall_clock)
    // in start and after every evaluation.  The simulation executor cannot advance from host time: whatever it does with
    // such a graph (the reference tree rejects it at start) must be the same at every host speed.
#ifndef HGV_REPRO_NO_RECORD
    thread_local std::int64_t tl_alarm_interval = 50, tl_alarm_polls = 3, tl_alarm_burn = 0;

    struct AlarmPoller
    {
        static constexpr auto name = "hgv_alarm_poller";
        static void start(NodeScheduler sched) { sched.schedule(TimeDelta{tl_alarm_interval}, "poll", /*on_wall_clock=*/true); }
        static void eval(NodeScheduler sched, State<Int> polls, Out<TS<Int>> out)
        {
            if (tl_alarm_burn > 0)
            {
                const auto until = std::chrono::steady_clock::now() + std::chrono::microseconds{tl_alarm_burn};
                while (std::chrono::steady_clock::now() < until) {}
            }
            const Int n = polls.get() + 1;
            polls.set(n);
            out.set(n);
            if (n < tl_alarm_polls) { sched.schedule(TimeDelta{tl_alarm_interval}, "poll", /*on_wall_clock=*/true); }
        }
    };

    struct AlarmSink
    {
        static constexpr auto name = "hgv_alarm_sink";
        static void eval(In<"ts", TS<Int>> ts, DateTime now)
        {
            if (tl_run != nullptr) { tl_run->out.line({53, us(now) - us(MIN_ST), (std::int64_t)ts.value()}); }
        }
    };

    GraphExecutorBuilder make_alarm_builder(const Prog *p)
    {
        tl_alarm_interval = p->alarm_interval;
        tl_alarm_polls    = p->alarm_polls;
        Wiring w;
        auto   polled = wire<AlarmPoller>(w);
        wire<AlarmSink>(w, polled);
        GraphExecutorBuilder eb;
        eb.graph_builder(std::move(w).finish()).mode(GraphExecutorMode::Simulation).start_time(MIN_ST)
            .end_time(MIN_ST + TimeDelta{p->alarm_interval * (p->alarm_polls + 2) + 20000});
        return eb;
    }
#endif

    // a one-node graph whose node erases the given keys from the run's GlobalState (22 0 t key removed)
    GraphBuilder make_eraser_graph(const std::vector<std::int64_t> *keys)
    {
        NodeTypeMetaData schema;
        schema.display_name      = "hgv_eraser";
        schema.node_kind         = NodeKind::PullSource;
        schema.schedule_on_start = true;
        schema.output_schema     = types().ts_int;
        NodeCallbacks cb;
        cb.evaluate = [keys](const NodeView &v, DateTime t) {
            auto gs = v.graph().global_state();
            for (const std::int64_t k : *keys)
            {
                const bool removed = gs.erase(key_name(k));
                if (tl_run != nullptr) { tl_run->out.line({22, 0, us(t), k, removed}); }
            }
        };
        GraphBuilder gb;
        gb.add_node(NodeBuilder::native(std::move(schema), std::move(cb)));
        return gb;
    }

    // deterministic heap perturbation between builds: stands in for whatever else the process allocated earlier
    void perturb_heap(std::uint64_t &state, std::vector<void *> &kept)
    {
        std::vector<void *> temp;
        for (int i = 0; i < 160; ++i)
        {
            state   = state * 6364136223846793005ULL + 1442695040888963407ULL;
            void *b = std::malloc(16 + (std::size_t)((state >> 33) % 1200));
            (((state >> 20) % 3 == 0) ? kept : temp).push_back(b);
        }
        for (void *b : temp) { std::free(b); }
    }

    // ------------------------------------------------------------------ case parsing
    struct CaseData
    {
        std::deque<Prog> progs;  // [0] main, [1..] noise; stable addresses (callbacks capture Prog*)
        std::int64_t     R{2}, F{1}, T{0}, sleep_seed{0}, flags{0};
    };

    void parse_case(const hgv::Case &c, CaseData &cd)
    {
        cd.progs.emplace_back();
        Prog *cur = &cd.progs.back();
        for (const Line &l : c)
        {
            switch (l[0])
            {
                case 1: if (l.size() >= 3) { cur->start = l[1]; cur->end = l[2]; } break;
                case 2:
                {
                    if (l.size() < 7) { break; }
                    NodeSpec n;
                    n.uses_sched     = l[2] != 0;
                    n.sched_on_start = l[3] != 0;
                    n.has_out        = l[4] != 0;
                    n.valid_mode     = (int)l[6];
                    for (std::int64_t s = 0; s < l[5] && (std::size_t)(9 + 3 * s) < l.size(); ++s)
                    {
                        n.ins.push_back({(std::size_t)l[7 + 3 * s], l[8 + 3 * s] == 1 || l[8 + 3 * s] == 2, l[9 + 3 * s] != 0,
                                         l[8 + 3 * s] == 2 || l[8 + 3 * s] == 3});
                    }
                    cur->nodes.push_back(std::move(n));
                    break;
                }
                case 3: if (l.size() >= 6) { cur->nodes.at(l[1]).scripts[l[2]].push_back({l[3], l[4], l[5]}); } break;
                case 4: if (l.size() >= 5) { cur->nodes.at(l[1]).gsops.push_back({l[2], l[3], l[4]}); } break;
                case 5: if (l.size() >= 3) { cur->nodes.at(l[1]).has_state = true; cur->nodes.at(l[1]).state_add = l[2]; } break;
                case 6: if (l.size() >= 3) { cur->seeds.emplace_back(l[1], l[2]); } break;
                case 7:
                    if (l.size() >= 2)
                    {
                        cur->comp.present = true;
                        cur->comp.bias    = l[1];
                        for (std::size_t j = 2; j + 1 < l.size(); j += 2) { cur->comp.emissions.emplace_back(l[j], l[j + 1]); }
                    }
                    break;
                case 8: cd.progs.emplace_back(); cur = &cd.progs.back(); break;
                case 10: if (l.size() >= 3) { cur->specs.push_back(l); } break;
                case 11: if (l.size() >= 3) { cur->chain_runs = l[1]; cur->chain_sparse = l[2] != 0; } break;
                case 12: if (l.size() >= 4) { cur->wiring_sources = l[1]; cur->wiring_builds = l[2]; cur->wiring_seed = l[3]; } break;
                case 13: if (l.size() >= 2) { cur->context_variant = l[1]; } break;
                case 14: cur->ctx_chain = true; cur->ctx_chain_erase.assign(l.begin() + 1, l.end()); break;
                case 15: if (l.size() >= 4) { cur->alarm_polls = l[1]; cur->alarm_interval = l[2]; cur->alarm_burn = l[3]; } break;
                case 9:
                    if (l.size() >= 6) { cd.R = l[1]; cd.F = l[2]; cd.T = l[3]; cd.sleep_seed = l[4]; cd.flags = l[5]; }
                    break;
                default: break;
            }
        }
    }

    // intern a few more types (process history: the registries only ever grow)
    void intern_more_types(std::uint64_t salt)
    {
        static std::atomic<std::uint64_t> counter{0};
        const std::uint64_t               c = counter.fetch_add(1) + salt * 7919;
        auto                             &registry = TypeRegistry::instance();
        const Types                       ty       = types();
        const auto *b = registry.un_named_tsb({{"zz" + std::to_string(c), ty.ts_int}, {"yy" + std::to_string(c % 5), ty.ts_int}});
        const auto *l = registry.tsl(ty.ts_int, 2 + c % 7);
        const auto *d = registry.tsd(ty.int_meta, c % 2 ? ty.ts_int : l);
        static_cast<void>(registry.tsl(b, 1 + c % 3));
        static_cast<void>(registry.ref(d));
        static_cast<void>(registry.tss(ty.int_meta));
    }

    // One scheduled unit of the plan: a run of program `prog` (index into progs; companion when comp).
    struct Unit
    {
        std::size_t                         prog{0};
        bool                                comp{false};
        std::int64_t                        tag_code{40}, tag_a{0}, tag_b{0};
        std::optional<GraphExecutorBuilder> own_builder;  // declared before the executor: destroyed after it
        std::optional<GraphExecutorValue>   executor;
        RunCtx                              ctx;
    };

    void run_case(const hgv::Case &c, hgv::Out &out)
    {
        CaseData cd;
        parse_case(c, cd);
        const std::size_t  m         = cd.progs.size() - 1;  // noise programs
        const bool         f_noise   = (cd.flags & 1) != 0;  // build+run noise programs between repetitions
        const bool         f_overlap = (cd.flags & 2) != 0;  // build all reuse executors before running any
        const bool         f_tbuild  = (cd.flags & 4) != 0;  // thread executors come from fresh builders (else the shared one)
        const bool         f_tfirst  = (cd.flags & 16) != 0; // the thread phase runs before the sequential phases
        const bool         concurrent_builds = std::getenv("HGV_REPRO_CONCURRENT_BUILDS") != nullptr;
        const bool         f_intern  = (cd.flags & 8) != 0;  // intern more types between repetitions
        const Prog        *mainp     = &cd.progs[0];
        std::uint64_t      ordinal   = 0;
        std::int64_t       rep       = 0;
        std::int64_t       noise_count = 0;  // noise runs so far (header 41 idx n)

        auto emit = [&out](Unit &u) {
            out.line({u.tag_code, u.tag_a, u.tag_b});
            out.buf += u.ctx.out.buf;
        };
        auto run_unit = [&](Unit &u) {
            const Prog *p = &cd.progs[u.prog];
            if (u.comp) { run_companion(p, *u.executor, u.ctx); } else { run_executor(p, *u.executor, u.ctx); }
        };
        auto new_unit = [&](std::size_t prog, bool comp, std::int64_t code, std::int64_t a, std::int64_t b) {
            Unit u;
            u.prog = prog; u.comp = comp; u.tag_code = code; u.tag_a = a; u.tag_b = b;
            u.ctx = fresh_ctx(&cd.progs[prog], (std::uint64_t)cd.sleep_seed, ++ordinal);
            return u;
        };
        // noise builders are kept and reused across their occurrences
        std::vector<std::optional<GraphExecutorBuilder>> noise_builders(m + 1);
        auto noise_run = [&](std::size_t j) {
            if (m == 0) { return; }
            const std::size_t idx = 1 + j % m;
            if (!noise_builders[idx]) { noise_builders[idx].emplace(make_builder(&cd.progs[idx])); }
            Unit u = new_unit(idx, false, 41, (std::int64_t)idx, noise_count++);
            u.executor.emplace(noise_builders[idx]->make_executor());
            run_unit(u);
            emit(u);
        };

        try
        {
            // ---- repetition 0: alone, fresh builder
            {
                GraphExecutorBuilder eb = make_builder(mainp);
                Unit                 u  = new_unit(0, false, 40, rep++, 0);
                u.executor.emplace(eb.make_executor());
                run_unit(u);
                emit(u);
            }
            // the builders every later phase shares; the companion builder exists only when the case has a companion
            GraphExecutorBuilder                shared = make_builder(mainp);
            std::optional<GraphExecutorBuilder> comp_shared;
            if (mainp->comp.present) { comp_shared.emplace(make_comp_builder(mainp)); }
            std::int64_t      crep = 0;
            std::vector<Unit> units;  // phase 1 executors stay alive until the end of the case
            std::vector<Unit> tu;     // so do the thread executors

            // ---- phases 1 + 2 + companion, sequential
            auto sequential_phases = [&] {
                // phase 1: R repetitions from ONE builder
                for (std::int64_t r = 0; r < cd.R; ++r) { units.push_back(new_unit(0, false, 40, rep++, 1)); }
                if (f_overlap) { for (Unit &u : units) { u.executor.emplace(shared.make_executor()); } }
                for (std::int64_t r = 0; r < cd.R; ++r)
                {
                    Unit &u = units[r];
                    if (!f_overlap) { u.executor.emplace(shared.make_executor()); }
                    run_unit(u);
                    emit(u);
                    if (f_noise) { noise_run((std::size_t)r); }
                    if (f_intern) { intern_more_types(ordinal); }
                }
                // phase 2: F repetitions from fresh builders (the shared builder and its executors are still alive)
                for (std::int64_t f = 0; f < cd.F; ++f)
                {
                    GraphExecutorBuilder eb = make_builder(mainp);
                    Unit                 u  = new_unit(0, false, 40, rep++, 2);
                    u.executor.emplace(eb.make_executor());
                    run_unit(u);
                    emit(u);
                    if (f_noise) { noise_run((std::size_t)(cd.R + f)); }
                    if (f_intern) { intern_more_types(ordinal); }
                }
                // companion graph: twice from one builder, once fresh, noise in between
                if (mainp->comp.present)
                {
                    for (int k = 0; k < 2; ++k)
                    {
                        Unit u = new_unit(0, true, 42, crep++, 1);
                        u.executor.emplace(comp_shared->make_executor());
                        run_unit(u);
                        emit(u);
                        if (f_noise) { noise_run((std::size_t)k); }
                    }
                    GraphExecutorBuilder eb = make_comp_builder(mainp);
                    Unit                 u  = new_unit(0, true, 42, crep++, 2);
                    u.executor.emplace(eb.make_executor());
                    run_unit(u);
                    emit(u);
                }
            };

            // ---- phase 3: T executors running concurrently, one thread each
            auto thread_phase = [&] {
                if (cd.T <= 0) { return; }
                for (std::int64_t j = 0; j < cd.T; ++j)
                {
                    // thread j runs: 0 main, 1 noise, 2 companion, 3 main, 4 companion (else noise), 5 noise, 6 main,
                    // 7 companion; companion -> main when the case has none, noise -> main when there is no noise
                    static const char pattern[8] = {'M', 'N', 'C', 'M', 'D', 'N', 'M', 'C'};
                    char              kind       = pattern[j % 8];
                    if (kind == 'D') { kind = mainp->comp.present ? 'C' : 'N'; }
                    if (kind == 'C' && !mainp->comp.present) { kind = 'M'; }
                    if (kind == 'N' && m == 0) { kind = 'M'; }
                    if (kind == 'N')
                    {
                        const std::size_t idx = 1 + (std::size_t)(j / 2) % m;
                        tu.push_back(new_unit(idx, false, 41, (std::int64_t)idx, noise_count++));
                    }
                    else if (kind == 'C') { tu.push_back(new_unit(0, true, 42, crep++, 3)); }
                    else { tu.push_back(new_unit(0, false, 40, rep++, 3)); }
                }
                // Executors are BUILT on this thread, one after the other (flag 4: each from its own fresh
                // builder instead of the shared one), and only RUN concurrently: C07 speaks of executors
                // running at the same time; the runtime-type registries of node.cpp / graph.cpp /
                // executor.cpp are not guarded, so concurrent BUILDS are outside the contract
                // (HGV_REPRO_CONCURRENT_BUILDS=1 builds inside the threads to show that; see docs/notes-repro.md).
                if (!concurrent_builds)
                {
                    for (Unit &u : tu)
                    {
                        const Prog *p = &cd.progs[u.prog];
                        if (f_tbuild)
                        {
                            u.own_builder.emplace(u.comp ? make_comp_builder(p) : make_builder(p));
                            u.executor.emplace(u.own_builder->make_executor());
                        }
                        else if (u.comp) { u.executor.emplace(comp_shared->make_executor()); }
                        else if (u.prog == 0) { u.executor.emplace(shared.make_executor()); }
                        else
                        {
                            if (!noise_builders[u.prog]) { noise_builders[u.prog].emplace(make_builder(p)); }
                            u.executor.emplace(noise_builders[u.prog]->make_executor());
                        }
                    }
                }
                std::atomic<int>         ready{0};
                std::atomic<bool>        go{false};
                std::vector<std::string> errors(tu.size());
                std::vector<std::thread> threads;
                for (std::size_t j = 0; j < tu.size(); ++j)
                {
                    threads.emplace_back([&, j] {
                        Unit &u = tu[j];
                        ready.fetch_add(1);
                        while (!go.load(std::memory_order_acquire)) { std::this_thread::yield(); }
                        try
                        {
                            if (concurrent_builds)
                            {
                                const Prog *p = &cd.progs[u.prog];
                                u.own_builder.emplace(u.comp ? make_comp_builder(p) : make_builder(p));
                                u.executor.emplace(u.own_builder->make_executor());
                            }
                            run_unit(u);
                        }
                        catch (const std::exception &e) { errors[j] = e.what(); }
                    });
                }
                while (ready.load() < (int)tu.size()) { std::this_thread::yield(); }
                go.store(true, std::memory_order_release);
                for (auto &t : threads) { t.join(); }
                for (std::size_t j = 0; j < tu.size(); ++j)
                {
                    if (!errors[j].empty())
                    {
                        tu[j].ctx.out.line({18, 2});
                        std::fprintf(stderr, "thread %zu error: %s\n", j, errors[j].c_str());
                    }
                    emit(tu[j]);
                }
            };

            // flag 16: the concurrent phase comes FIRST, so the first use ever of the shared builders' node / graph
            // types happens on several threads at once (per-type lazy initialisation would be hit concurrently)
            if (f_tfirst) { thread_phase(); sequential_phases(); }
            else { sequential_phases(); thread_phase(); }

            // ---- chained companion runs (header 44 k sparse): run k+1's builder GlobalState is seeded from run k's FINAL
            // GlobalState (the copy-back flow); each run's recording must hold its own ticks only
            if (mainp->comp.present && mainp->chain_runs > 0)
            {
                std::optional<GraphExecutorBuilder> prev_builder;  // declared first: destroyed after the executor
                std::optional<GraphExecutorValue>   prev;
                for (std::int64_t k = 0; k < mainp->chain_runs; ++k)
                {
                    GraphBuilder gb = make_comp_graph(mainp, mainp->chain_sparse, true);
                    if (prev) { gb.global_state().copy_from(prev->view().graph().global_state()); }
                    else
                    {
                        auto gs = gb.global_state();
                        for (const auto &[key, v] : mainp->seeds) { gs.set(key_name(key), Value{v}); }
                    }
                    std::optional<GraphExecutorBuilder> eb;
                    eb.emplace();
                    eb->graph_builder(std::move(gb)).start_time(dt(mainp->start)).end_time(dt(mainp->end));
                    RunCtx r = fresh_ctx(mainp, (std::uint64_t)cd.sleep_seed, ++ordinal);
                    std::optional<GraphExecutorValue> ex;
                    ex.emplace(eb->make_executor());
                    tl_run = &r;
                    try { ex->view().run(); }
                    catch (const std::exception &e)
                    {
                        r.out.line({19, 1});
                        std::fprintf(stderr, "chained companion error: %s\n", e.what());
                    }
                    tl_run = nullptr;
                    print_recording(ex->view().graph().global_state(), mainp->chain_sparse, r.out);
                    print_continuation(ex->view().graph().global_state(), r.out);
                    out.line({44, k, (std::int64_t)mainp->chain_sparse});
                    out.buf += r.out.buf;
                    prev.reset();            // executor before its builder
                    prev_builder.reset();
                    prev_builder = std::move(eb);
                    prev         = std::move(ex);
                }
            }

            // ---- parametrised schemas (header 43 section): flag 2 -> the noise programs' variants are requested first
            {
                std::vector<std::size_t> order;
                for (std::size_t sct = 0; sct < cd.progs.size(); ++sct) { order.push_back(sct); }
                if (f_overlap) { std::reverse(order.begin(), order.end()); }
                for (const std::size_t sct : order)
                {
                    if (cd.progs[sct].specs.empty()) { continue; }
                    out.line({43, (std::int64_t)sct, 0});
                    for (const Line &spec : cd.progs[sct].specs) { probe_schema((std::int64_t)sct, spec, out); }
                }
            }

            // ---- Wiring-built program (header 45 b 0): built and run B times, the heap perturbed and another wiring built in
            // between; compiled node order and sums must be the same every time
#ifndef HGV_REPRO_NO_RECORD
            if (mainp->wiring_sources > 0 && mainp->wiring_builds > 0)
            {
                std::uint64_t       hstate = (std::uint64_t)mainp->wiring_seed * 2654435761ULL + 12345;
                std::vector<void *> kept;
                for (std::int64_t b = 0; b < mainp->wiring_builds; ++b)
                {
                    out.line({45, b, 0});
                    try { wiring_build_and_run(mainp->wiring_sources, out); }
                    catch (const std::exception &e)
                    {
                        out.line({19, 6});
                        std::fprintf(stderr, "wiring program error: %s\n", e.what());
                    }
                    perturb_heap(hstate, kept);
                    if (b % 2 == 1)
                    {
                        hgv::Out discard;
                        try { wiring_build_and_run(3 + b % 4, discard); } catch (const std::exception &) {}
                    }
                }
                for (void *blk : kept) { std::free(blk); }
            }
#endif

            // ---- GlobalContext phase (headers 46 who variant): thread A selects a GlobalContext holding {700: 7, 701: 70},
            // builds the main program inside it and is parked inside its first user-code evaluation; meanwhile THIS thread
            // (B) builds and runs the same program without a context (variant 0) or inside its own context {710: 8}
            // (variant 1).  Builds never overlap (A's is finished before B's starts).
            if (mainp->context_variant >= 0)
            {
                Blocker     blocker;
                RunCtx      ra = fresh_ctx(mainp, (std::uint64_t)cd.sleep_seed, ++ordinal);
                RunCtx      rb = fresh_ctx(mainp, (std::uint64_t)cd.sleep_seed, ++ordinal);
                hgv::Out    sa_after, sb_after;
                std::string a_error;
                ra.blocker = &blocker;
                std::thread ta([&] {
                    try
                    {
                        GlobalState sa;
                        sa.view().set(key_name(700), Value{std::int64_t{7}});
                        sa.view().set(key_name(701), Value{std::int64_t{70}});
                        {
                            GlobalContext        ctx{sa};
                            GraphExecutorBuilder eb = make_builder(mainp);
                            GraphExecutorValue   ex = eb.make_executor();
                            run_executor(mainp, ex, ra);
                        }
                        dump_global_state(sa.view(), sa_after);
                    }
                    catch (const std::exception &e) { a_error = e.what(); }
                    blocker.finished();
                });
                blocker.wait_entered();
                try
                {
                    GlobalState sb;
                    sb.view().set(key_name(710), Value{std::int64_t{8}});
                    std::optional<GlobalContext> ctx;
                    if (mainp->context_variant == 1) { ctx.emplace(sb); }
                    {
                        GraphExecutorBuilder eb = make_builder(mainp);
                        GraphExecutorValue   ex = eb.make_executor();
                        run_executor(mainp, ex, rb);
                    }
                    ctx.reset();
                    dump_global_state(sb.view(), sb_after);
                }
                catch (const std::exception &e)
                {
                    rb.out.line({18, 3});
                    std::fprintf(stderr, "context phase, thread B: %s\n", e.what());
                }
                blocker.let_go();
                ta.join();
                if (!a_error.empty())
                {
                    ra.out.line({18, 3});
                    std::fprintf(stderr, "context phase, thread A: %s\n", a_error.c_str());
                }
                out.line({46, 0, mainp->context_variant});
                out.buf += ra.out.buf;
                out.line({47, 0});
                out.buf += sa_after.buf;
                out.line({46, 1, mainp->context_variant});
                out.buf += rb.out.buf;
                out.line({47, 1});
                out.buf += sb_after.buf;
            }

            // ---- chain of runs inside ONE GlobalContext (headers 48 j kind): the user's SELECTED state seeds every build
            // made while the context is alive and receives, at the end of every run, the run's final GlobalState
            // (copy_from - "Replace this store with a copy of other": the harness / lower() copy-back).  Run 0 and run 2 are
            // the main program, run 1 a graph that ERASES keys.  After each run the selected state (47 j + 24 / 25 lines) must
            // be exactly that run's final state.
            if (mainp->ctx_chain)
            {
                GlobalState selected;
                selected.view().set(key_name(700), Value{std::int64_t{7}});
                selected.view().set(key_name(701), Value{std::int64_t{70}});
                GlobalContext ctx{selected};
                for (std::int64_t j = 0; j < 3; ++j)
                {
                    RunCtx r = fresh_ctx(mainp, (std::uint64_t)cd.sleep_seed, ++ordinal);
                    out.line({48, j, j == 1 ? 1 : 0});
                    try
                    {
                        if (j == 1)
                        {
                            GraphExecutorBuilder eb;
                            eb.graph_builder(make_eraser_graph(&mainp->ctx_chain_erase)).start_time(dt(mainp->start)).end_time(dt(mainp->start + 2));
                            GraphExecutorValue ex = eb.make_executor();
                            tl_run = &r;
                            try { ex.view().run(); } catch (const std::exception &) { r.out.line({19, 1}); }
                            tl_run = nullptr;
                            dump_global_state(ex.view().graph().global_state(), r.out);
                            selected.view().copy_from(ex.view().graph().global_state());
                        }
                        else
                        {
                            GraphExecutorBuilder eb = make_builder(mainp);
                            GraphExecutorValue   ex = eb.make_executor();
                            run_executor(mainp, ex, r);
                            selected.view().copy_from(ex.view().graph().global_state());
                        }
                    }
                    catch (const std::exception &e)
                    {
                        r.out.line({18, 4});
                        std::fprintf(stderr, "context chain error: %s\n", e.what());
                    }
                    out.buf += r.out.buf;
                    out.line({47, j});
                    dump_global_state(selected.view(), out);
                }
            }

            // ---- wall-clock alarm in simulation (headers 49 r burn): one builder, three runs at different host speeds
#ifndef HGV_REPRO_NO_RECORD
            if (mainp->alarm_polls > 0)
            {
                try
                {
                    GraphExecutorBuilder eb = make_alarm_builder(mainp);
                    const std::int64_t   burns[3] = {0, mainp->alarm_burn, 0};
                    for (std::int64_t rr = 0; rr < 3; ++rr)
                    {
                        RunCtx r = fresh_ctx(mainp, 0, ++ordinal);
                        tl_alarm_burn = burns[rr];
                        out.line({49, rr, burns[rr]});
                        tl_run = &r;
                        try
                        {
                            GraphExecutorValue ex = eb.make_executor();
                            ex.view().run();
                            r.out.line({54, 0});  // ran to the end
                        }
                        catch (const std::exception &) { r.out.line({54, 1}); }  // rejected
                        tl_run = nullptr;
                        out.buf += r.out.buf;
                    }
                }
                catch (const std::exception &e)
                {
                    out.line({18, 5});
                    std::fprintf(stderr, "alarm program error: %s\n", e.what());
                }
            }
#endif
            // all executors are destroyed here, on the main thread, after every run finished
        }
        catch (const std::exception &e)
        {
            out.line({18, 1});
            std::fprintf(stderr, "build error: %s\n", e.what());
        }
    }
}  // namespace

int main(int argc, char **argv)
{
    if (argc < 2) { std::fprintf(stderr, "usage: repro_driver <batch>\n"); return 2; }
    auto     batch = hgv::read_batch(argv[1]);
    hgv::Out out;
    for (const auto &c : batch)
    {
        run_case(c, out);
        out.end_case();
    }
    return 0;
}
